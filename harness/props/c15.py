"""C15 -- Table metadata stays well-formed through every history.

Proof      : coq/Props/C15.v over Model/Meta.v (hand-written mirror of the metadata mutators) and
             Gen/GenRepoint.v, REGENERATED from snapshot_manager.repoint_parents_to_surviving_ancestors
             on every run (translator/gen_repoint.py).
Tie        : translator (GenRepoint) + correspondence
               forests    real repoint_parents_to_surviving_ancestors vs Model/Meta.v repoint_all (frame + Gen),
                          EXHAUSTIVE: every parent map on <= 5 snapshots x every kept subset, plus maps with
                          None / -1 / dangling parents and duplicated ids (last dict binding wins)
               histories  random operation histories (append, multi-op transaction, RE-REGISTRATION of already
                          listed data files -- across commits, inside one append_files call, under either
                          spelling -- delete_files in every spelling, expire_snapshots, delete_snapshot,
                          retention / previous-versions-max properties, garbage_collect, reopen, VERSION-POINTER
                          FAULTS between operations: legacy numeric / padded / dangling / ahead / missing / empty /
                          garbage / non-UTF-8 pointer, and the newest version file lost while the pointer naming it
                          survives; the reader resolves the current version independently as "named file if it
                          exists, else highest version on disk"), plus "pointer" histories (a fault before most commits), plus
                          "shape" histories (few files registered over and over, then deleted) on the real library (local backend) under a scripted
                          clock (equal / decreasing timestamps) and seeded uuid4; after EVERY step the
                          metadata JSON and manifests, read by an independent reader (json + fastavro), must
                          equal the model's state (ids canonicalised by order of first appearance)
               lookups    get_snapshot_by_timestamp / get_snapshot_by_id / _most_recent_snapshot_id vs model,
                          on the states the histories reach
               units      every mutator, one call each (_apply_retention, the expire mutator, delete_snapshot,
                          _most_recent_snapshot_id, get_snapshot_by_timestamp, _append_metadata_log) on ARBITRARY
                          metadata records, including corrupt ones no history reaches (duplicated ids, dangling
                          links, unusable snapshot log), vs the model functions
Oracle /   : implementation-only, independent of the model: the well-formedness predicate of the property
search       text judged directly on the implementation's metadata after every step, with a ghost history
             kept by the harness (true ancestors, commit order, provenance of manifest entries, superseded
             metadata versions; registrations are tracked as (path, adding snapshot, sequence number), a path
             may have several); failing histories are shrunk before the replay is written.
Bounds     : every history runs in its own forked process (address-space limit, interval timer inside, kill
             deadline outside); the forest sweep and the unit calls run under an interval timer.  A library call
             that does not return or exhausts memory is reported as a violation with the history, never a stuck check.
"""
from __future__ import annotations

import copy
import datetime as _dt
import itertools
import json
import os
import random
import shutil
import uuid as _uuid
from concurrent.futures import ProcessPoolExecutor
from typing import Any, Dict, List, Optional, Tuple

from harness.lib import coqbuild
from harness.lib.coqio import C, Some
from harness.lib.metareader import TableReader, entry_tuple

LEVEL = "proof"
THEOREMS = [
    "C15_wf_invariant", "C15_no_current_means_empty", "C15_seq_in_log_order", "C15_last_seq_mono", "C15_no_abort", "C15_repoint_nearest",
    "C15_nearest_is_ancestor", "C15_repoint_cycle", "C15_current_kept", "C15_delete_exact", "C15_entries_provenance",
    "C15_repoint_all", "C15_txn_files", "C15_delete_complete", "C15_txn_delete_complete", "C15_mlog_ok", "C15_mlog_names_superseded", "C15_mutators_regenerated", "C15_file_ops_regenerated", "C15_step_regenerated", "C15_entry_codec_preserves", "C09_by_timestamp", "C09_delete_current", "C09_by_id",
]
REQ = ["DS.Model.MetaBase", "DS.Gen.GenRepoint", "DS.Model.Meta"]

MANIFEST_ENTRY = {
    "level_text": "Proved in Coq by induction over ARBITRARY operation histories (transactions mixing appends / deletes / "
                  "expiries, delete_snapshot, retention and metadata-log-bound changes; no bound on length; arbitrary, even "
                  "decreasing, timestamps): C15_wf_invariant (current retained or none; every parent nothing or a retained TRUE "
                  "ancestor of the ghost history; retained snapshots immutable but for the parent; sequence numbers strictly "
                  "increasing in commit order and <= last_sequence_number; snapshot log = retained snapshots in commit order), "
                  "C15_seq_in_log_order, C15_last_seq_mono, C15_no_abort, C15_current_kept, C15_delete_exact + C15_txn_files "
                  "(a delete removes exactly the named files in either spelling; survivors keep adding snapshot and sequence "
                  "number), C15_entries_provenance, C15_mlog_ok (log = suffix of the superseded versions, within its bound). "
                  "C15_repoint_nearest for ALL acyclic parent maps and C15_repoint_cycle (termination within the fuel, result "
                  "nothing or a kept reachable id) for ALL maps, over the walk REGENERATED from "
                  "repoint_parents_to_surviving_ancestors on every run. C09_by_timestamp / C09_delete_current / C09_by_id over "
                  "the same model. Model tied to the code by exhaustive forests (every parent map on <= 5 snapshots x every kept "
                  "subset) and random histories on the real library, compared after every step through an independent reader; "
                  "the property text is also judged directly on the implementation's metadata (oracle)",
    "level_note": "trusted: Coq kernel; translator/gen_repoint.py (frame pinned by golden AST) translator/gen_fileops.py (operation partitioning and Transaction._commit_file_ops: C15_file_ops_regenerated) and translator/gen_meta.py (expire mutator, delete_snapshot, _apply_retention, _most_recent_snapshot_id, get_snapshot_by_timestamp, _append_metadata_log translated statement by statement and PROVED equal to the hand-written model: C15_mutators_regenerated); harness. Hypothesis of the "
                  "history theorems: fresh_ops (snapshot ids from uuid4 are positive and never repeat; metadata file names never "
                  "repeat). Single committer (concurrency is C01). Physical existence of the files named by the metadata log is "
                  "checked on disk by the oracle after every step (nothing in the library deletes metadata/v*.metadata.json), "
                  "not proved. A previous-versions-max < 1 means 'no trimming' in the code; the bound theorem covers max >= 1. "
                  "Defect found and fixed on the library branch: delete_files([\"/data/x\"]) did not remove a file registered as "
                  "\"data/x\" (findings/C15-unchanged-tree.log)",
    "technique": "Coq proof (invariant + induction over operation lists; fuelled walk with seen-set measure) over a "
                 "translator-regenerated repointing kernel + differential correspondence + implementation-only oracle",
    "design_ref": "DESIGN.md section 5 C15",
}

RET_KEY = "datashard.snapshot.retention-count"
MAX_KEY = "write.metadata.previous-versions-max"
RET_VALUES = [None, "1", "2", "5", "x", "0", 2]
MAX_VALUES = [None, "1", "2", "0", "x", 3]
NONEXISTENT_SNAP = 777000777
NONEXISTENT_FILE = 999


def coq_eval_batched(exprs: List[str], preamble: str = "", chunk: int = 100) -> List[Any]:
    """coqbuild.coq_eval in batches of at most JOBS chunk files: with more files than job slots its reaper only
    polls (never drains the pipes), so a chunk printing more than a pipe buffer would block forever."""
    out: List[Any] = []
    per = chunk * max(1, min(coqbuild.JOBS, 16))
    for i in range(0, len(exprs), per):
        out.extend(coqbuild.coq_eval(REQ, exprs[i:i + per], preamble=preamble, chunk=chunk))
    return out


def pval(v: Any) -> Any:
    """The property value as the model's pval (a table, not a call to int())."""
    if v is None:
        return C("PUnset")
    if isinstance(v, int):
        return C("PInt", v)
    s = str(v).strip()
    if s.lstrip("+-").isdigit() and s.lstrip("+-") != "":
        return C("PInt", int(s))
    return C("PBad")


def pval_coq(v: Any) -> str:
    p = pval(v)
    return "(PInt (%d))" % p.args[0] if p.name == "PInt" else p.name


# ================================================================================== scripted runtime
class _Now:
    def __init__(self, ms: int):
        self.ms = ms

    def timestamp(self) -> float:
        # the library computes int(now.timestamp() * 1000): make that round trip exact
        return (self.ms + 0.5) / 1000.0


class Clock:
    def __init__(self) -> None:
        self.sm = 1000
        self.mm = 1000
        self.fm = 1


_CLOCK = Clock()
_PATCHED = False


def _fake_dt(attr: str):
    class FakeDT(_dt.datetime):
        @classmethod
        def now(cls, tz=None):  # noqa: D401
            return _Now(getattr(_CLOCK, attr))
    return FakeDT


def patch_library() -> None:
    """Replace the clock in the three library namespaces the brief names. Idempotent, process-local."""
    global _PATCHED
    if _PATCHED:
        return
    import datashard.file_manager as fm
    import datashard.metadata_manager as mm
    import datashard.snapshot_manager as sm
    sm.datetime = _fake_dt("sm")
    mm.datetime = _fake_dt("mm")
    fm.datetime = _fake_dt("fm")
    import logging
    logging.getLogger("datashard").setLevel(logging.CRITICAL)
    _PATCHED = True


class SeededUUID:
    def __init__(self, seed: int):
        self.rng = random.Random(seed)
        self.real = None

    def __enter__(self):
        self.real = _uuid.uuid4
        rng = self.rng
        _uuid.uuid4 = lambda: _uuid.UUID(int=rng.getrandbits(128), version=4)
        return self

    def __exit__(self, *a):
        _uuid.uuid4 = self.real


# ================================================================================== history generation
TS_POOL = [1000, 1000, 1001, 1002, 1003, 1005, 1008, 990, 1500]


def _append_element(rng: random.Random) -> Any:
    """One file of an append_files call: a new pre-built file under spelling 0/1, or an already registered one again."""
    if rng.random() < 0.35:
        return ["re", rng.randrange(64), rng.choice([0, 1, 1])]
    return rng.choice([0, 1])


def gen_shape_history(rng: random.Random, max_steps: int) -> Dict[str, Any]:
    """Histories about the SHAPE of the manifest list rather than the snapshot graph: few files, registered over and
    over across commits (and inside one commit), in both spellings, interleaved with deletes that name them -- so a
    path occurs in several manifests / several times in one manifest when the delete arrives."""
    ops: List[Dict[str, Any]] = []
    n = rng.randint(3, max(4, min(max_steps, 12)))
    for i in range(n):
        t, tu = rng.choice(TS_POOL), rng.choice(TS_POOL)
        r = rng.random()
        if i < 2 or r < 0.15:
            ops.append({"k": "txn", "ops": [["append", ["auto"] if rng.random() < 0.5 else [rng.choice([0, 1])]]], "t": t, "tu": tu})
        elif r < 0.55:
            els = [["re", rng.randrange(8), rng.choice([0, 1])] for _ in range(rng.choice([1, 1, 2, 3]))]
            ops.append({"k": "txn", "ops": [["append", els]], "t": t, "tu": tu})
        elif r < 0.85:
            sub = [["delete", [[rng.randrange(1, 8), rng.choice([0, 1])] for _ in range(rng.choice([1, 1, 2]))]]]
            if rng.random() < 0.25:
                sub.insert(rng.choice([0, 1]), ["append", [["re", rng.randrange(8), rng.choice([0, 1])]]])
            ops.append({"k": "txn", "ops": sub, "t": t, "tu": tu})
        elif r < 0.93:
            ops.append({"k": "delsnap", "ref": rng.randrange(8), "pick": rng.choice(["current", "retained"]), "tu": tu})
        else:
            ops.append({"k": "txn", "ops": [["expire", rng.choice(TS_POOL)]], "t": t, "tu": tu})
    return {"ops": ops, "uuid_seed": rng.getrandbits(32), "t0": rng.choice(TS_POOL)}


# every state of the version pointer the library accepts or tolerates; in all of them the current version is still
# well defined (the named file if it exists, else the highest version on disk)
PTR_FORMS = ["legacy", "legacy-newline", "padded", "dangling", "ahead", "legacy-ahead", "missing", "empty", "garbage",
             "non-utf8", "superscript", "tmp-name"]


def gen_pointer_history(rng: random.Random, max_steps: int) -> Dict[str, Any]:
    """Histories in which the version pointer is stale / legacy / dangling / unreadable at the moment of a commit (a
    pointer fault before most commits, every kind of committing operation after it), and now and then the newest
    version file is lost while the pointer naming it survives."""
    ops: List[Dict[str, Any]] = [{"k": "txn", "ops": [["append", ["auto"]]], "t": rng.choice(TS_POOL), "tu": rng.choice(TS_POOL)}]
    n = rng.randint(3, max(4, min(max_steps, 14)))
    for _ in range(n):
        t, tu = rng.choice(TS_POOL), rng.choice(TS_POOL)
        r = rng.random()
        if r < 0.08:
            ops.append({"k": "lose"})
        elif r < 0.75:
            ops.append({"k": "ptr", "form": rng.choice(PTR_FORMS)})
        if rng.random() < 0.1:
            ops.append({"k": "reopen"})
        q = rng.random()
        if q < 0.4:
            ops.append({"k": "txn", "ops": [["append", ["auto"]]], "t": t, "tu": tu})
        elif q < 0.55:
            ops.append({"k": "txn", "ops": [["delete", [[rng.randrange(1, 8), rng.choice([0, 1])]]]], "t": t, "tu": tu})
        elif q < 0.67:
            ops.append({"k": "txn", "ops": [["expire", rng.choice(TS_POOL)]], "t": t, "tu": tu})
        elif q < 0.8:
            ops.append({"k": "delsnap", "ref": rng.randrange(8), "pick": rng.choice(["current", "retained"]), "tu": tu})
        elif q < 0.9:
            ops.append({"k": "setmax", "v": rng.choice(MAX_VALUES), "tu": tu})
        elif q < 0.95:
            ops.append({"k": "setret", "v": rng.choice(RET_VALUES), "tu": tu})
        else:
            ops.append({"k": "gc"})
    return {"ops": ops, "uuid_seed": rng.getrandbits(32), "t0": rng.choice(TS_POOL)}


def gen_history(rng: random.Random, max_steps: int) -> Dict[str, Any]:
    n = rng.randint(3, max_steps)
    mode = rng.choice(["any", "any", "equal", "decreasing", "increasing"])
    ops: List[Dict[str, Any]] = []
    t = 1000

    def next_t() -> int:
        nonlocal t
        if mode == "equal":
            return 1000
        if mode == "decreasing":
            t -= rng.choice([0, 1, 2])
            return t
        if mode == "increasing":
            t += rng.choice([0, 0, 1, 3])
            return t
        return rng.choice(TS_POOL)

    for _ in range(n):
        r = rng.random()
        tu = rng.choice(TS_POOL)
        if r < 0.30:
            ops.append({"k": "txn", "ops": [["append", ["auto"]]], "t": next_t(), "tu": tu})
        elif r < 0.55:
            sub = []
            for _i in range(rng.choice([1, 2, 2, 3, 4])):
                q = rng.random()
                if q < 0.35:
                    sub.append(["append", ["auto"]] if rng.random() < 0.5 else
                               ["append", [_append_element(rng) for _j in range(rng.choice([0, 1, 2, 3]))]])
                elif q < 0.75:
                    sub.append(["delete", [[rng.randrange(64), rng.choice([0, 1, 1, 2])] for _j in range(rng.choice([0, 1, 1, 2, 3]))]])
                else:
                    sub.append(["expire", rng.choice(TS_POOL + [0, 5000])])
            ops.append({"k": "txn", "ops": sub, "t": next_t(), "tu": tu})
        elif r < 0.59:
            # the same data file registered again (possibly twice at once, in either spelling)
            ops.append({"k": "txn", "ops": [["append", [["re", rng.randrange(64), rng.choice([0, 1, 1])] for _j in range(rng.choice([1, 1, 2]))]]],
                        "t": next_t(), "tu": tu})
        elif r < 0.64:
            ops.append({"k": "txn", "ops": [["delete", [[rng.randrange(64), rng.choice([0, 1, 2])]]]], "t": next_t(), "tu": tu})
        elif r < 0.71:
            ops.append({"k": "txn", "ops": [["expire", rng.choice(TS_POOL + [0, 5000])]], "t": next_t(), "tu": tu})
        elif r < 0.83:
            ops.append({"k": "delsnap", "ref": rng.randrange(64), "pick": rng.choice(["any", "current", "retained", "retained"]), "tu": tu})
        elif r < 0.90:
            ops.append({"k": "setret", "v": rng.choice(RET_VALUES), "tu": tu})
        elif r < 0.96:
            ops.append({"k": "setmax", "v": rng.choice(MAX_VALUES), "tu": tu})
        elif r < 0.97:
            ops.append({"k": "txn", "ops": [], "t": next_t(), "tu": tu})
        elif r < 0.978:
            ops.append({"k": "gc"})
        elif r < 0.986:
            ops.append({"k": "reopen"})
        elif r < 0.998:
            ops.append({"k": "ptr", "form": rng.choice(PTR_FORMS)})
        else:
            ops.append({"k": "lose"})
    return {"ops": ops, "uuid_seed": rng.getrandbits(32), "t0": rng.choice(TS_POOL)}


# ================================================================================== driver (real library)
class Driver:
    """Runs one history on the real library; observes through the independent reader only."""

    def __init__(self, root: str, hist: Dict[str, Any]):
        patch_library()
        self.root = root
        self.hist = hist
        self.reader = TableReader(root)
        self.snap_ids: Dict[int, int] = {}      # impl snapshot id -> canonical id
        self.snap_rev: Dict[int, int] = {}
        self.meta_files: Dict[str, int] = {}    # metadata file name -> canonical file id
        self.files: Dict[str, int] = {}         # data file body (no leading '/') -> canonical name
        self.file_rev: Dict[int, str] = {}
        self.nfiles = 0
        self.model_ops: List[str] = []          # Gallina op terms
        self.observed: List[Any] = []           # canonical (state, outcome) after each model step
        self.raw: List[Dict[str, Any]] = []     # raw metadata after each step (for the oracle)
        self.errors: List[str] = []
        self.table = None
        self.initial: Dict[str, Any] = {}
        self.lookups: List[Tuple[str, Any]] = []  # (model expr, impl answer)
        self.oracle = Oracle(self.reader)
        self.oracle_error: Optional[str] = None
        self.nrereg = 0
        self.model_valid = True
        self.nptr = 0

    # -- helpers --------------------------------------------------------------------------------
    def _data_listing(self) -> set:
        d = os.path.join(self.root, "data")
        return set(os.listdir(d)) if os.path.isdir(d) else set()

    def _new_file_name(self, body: str) -> int:
        self.nfiles += 1
        self.files[body] = self.nfiles
        self.file_rev[self.nfiles] = body
        return self.nfiles

    def start(self) -> None:
        from datashard import Schema, create_table
        _CLOCK.sm = _CLOCK.mm = self.hist["t0"]
        schema = Schema(schema_id=1, fields=[{"id": 1, "name": "k", "type": "long", "required": False}])
        self.schema = schema
        self.table = create_table(self.root, schema)
        self.meta_files[self.reader.current()] = 0
        self.initial = {"pointer": self.reader.current(), "metadata": self.reader.metadata()}
        self.oracle.observe_initial(self.initial)

    def _custom_file(self, spelling: int):
        """A pre-built parquet file registered under the given spelling of its table-relative path."""
        from datashard import DataFile, FileFormat
        n = self.nfiles + 1
        body = f"data/c_{n}_{_uuid.uuid4().hex[:6]}.parquet"
        dfm = self.table.file_manager.data_file_manager
        df = dfm.write_data_file(file_path=body, records=[{"k": n}], iceberg_schema=self.schema,
                                 file_format=FileFormat.PARQUET, partition_values={})
        name = self._new_file_name(body)
        path = "/" * spelling + body
        out = DataFile(file_path=path, file_format=df.file_format, partition_values={}, record_count=df.record_count,
                       file_size_in_bytes=df.file_size_in_bytes, checksum=df.checksum)
        return out, (spelling, name)

    def _known_file(self, ref: int, spelling: int):
        """Register AGAIN a data file the table already knows (a re-run ingestion job): same file on disk, any
        spelling of its path. Falls back to a fresh file while nothing registrable exists."""
        from datashard import DataFile, FileFormat
        live = [n for n in sorted(self.file_rev) if os.path.isfile(os.path.join(self.root, self.file_rev[n]))]
        if not live:
            return self._custom_file(spelling)
        name = live[ref % len(live)]
        body = self.file_rev[name]
        self.nrereg += 1
        out = DataFile(file_path="/" * spelling + body, file_format=FileFormat.PARQUET, partition_values={}, record_count=1,
                       file_size_in_bytes=os.path.getsize(os.path.join(self.root, body)))
        return out, (spelling, name)

    # -- the version pointer is only a hint: every state of it the library accepts or tolerates ---------------
    def _pointer_fault(self, form: str, current: str) -> None:
        """Rewrite metadata.version-hint.text without touching any version file. In every form the current version
        is still the one the format defines (named file if it exists, else highest version on disk)."""
        import re
        ver = int(re.match(r"^v(\d+)", current).group(1))
        path = os.path.join(self.root, "metadata.version-hint.text")
        self.nptr += 1
        if form == "missing":
            if os.path.exists(path):
                os.remove(path)
            return
        content = {
            "legacy": str(ver).encode(),                                   # Hadoop-catalog style bare number
            "legacy-newline": (str(ver) + "\n").encode(),
            "padded": ("  " + current + " \n").encode(),                   # the right name, surrounded by blanks
            "dangling": f"v{ver}-00000000.metadata.json".encode(),          # right version, file that never existed
            "ahead": f"v{ver + 3}-0badc0de.metadata.json".encode(),         # a version that was never committed
            "legacy-ahead": str(ver + 2).encode(),
            "empty": b"",
            "garbage": b"not a pointer",
            "non-utf8": b"\xff\xfe\x00v1",
            "superscript": "\u00b2".encode(),
            "tmp-name": (current + ".tmp").encode(),
        }[form]
        with open(path, "wb") as f:
            f.write(content)

    def _lose_newest(self, current: str) -> bool:
        """A partial restore: the newest version file is gone while the pointer that names it survived. Only when an
        older version exists (otherwise there is no table left)."""
        import re
        ver = int(re.match(r"^v(\d+)", current).group(1))
        older = [f for v, f in self.reader.versions_on_disk() if v < ver]
        if not older:
            return False
        os.remove(os.path.join(self.root, "metadata", current))
        self.nptr += 1
        return True

    # -- one step -------------------------------------------------------------------------------
    def step(self, idx: int, op: Dict[str, Any]) -> None:
        sid = idx + 1            # the model's snapshot id / file id for this step
        before_ptr = self.reader.current()
        lost = False
        exc: Optional[str] = None
        model_op: Optional[str] = None
        t = self.table
        deleted: List[str] = []
        if op["k"] == "txn":
            _CLOCK.sm, _CLOCK.mm = op["t"], op["tu"]
            parts: List[str] = []
            try:
                tx = t.new_transaction().begin()
                for sub in op["ops"]:
                    if sub[0] == "append":
                        if sub[1] == ["auto"]:
                            before = self._data_listing()
                            tx.append_data(records=[{"k": self.nfiles + 1}])
                            new = sorted(self._data_listing() - before)
                            assert len(new) == 1, new
                            name = self._new_file_name("data/" + new[0])
                            parts.append(f"TAppend [(1, {name})]")
                        else:
                            dfs, names = [], []
                            for el in sub[1]:
                                df, nm = self._custom_file(el) if isinstance(el, int) else self._known_file(el[1], el[2])
                                dfs.append(df)
                                names.append(nm)
                            tx.append_files(dfs)
                            parts.append("TAppend [" + "; ".join(f"({a}, {b})" for a, b in names) + "]")
                    elif sub[0] == "delete":
                        paths, terms = [], []
                        for ref, sp in sub[1]:
                            if self.nfiles == 0 or ref % (self.nfiles + 1) == 0:
                                name, body = NONEXISTENT_FILE, "data/nonexistent.parquet"
                            else:
                                name = ref % (self.nfiles + 1)
                                body = self.file_rev[name]
                            paths.append("/" * sp + body)
                            terms.append(f"({sp}, {name})")
                        tx.delete_files(paths)
                        deleted.extend(paths)
                        parts.append("TDelete [" + "; ".join(terms) + "]")
                    elif sub[0] == "expire":
                        tx.expire_snapshots(sub[1])
                        parts.append(f"TExpire ({sub[1]})")
                tx.commit()
            except Exception as e:  # the model predicts no exception in sequential histories
                exc = f"{type(e).__name__}: {e}"[:300]
            model_op = f"Txn [{'; '.join(parts)}] {sid} ({op['t']}) ({op['tu']}) {sid}"
        elif op["k"] == "delsnap":
            _CLOCK.mm = op["tu"]
            target_c = self._pick_snapshot(op)
            target = self.snap_rev.get(target_c, NONEXISTENT_SNAP)
            try:
                t.snapshot_manager.delete_snapshot(target)
            except Exception as e:
                exc = f"{type(e).__name__}: {e}"[:300]
            model_op = f"DeleteSnap ({target_c}) ({op['tu']}) {sid}"
        elif op["k"] in ("setret", "setmax"):
            _CLOCK.mm = op["tu"]
            key = RET_KEY if op["k"] == "setret" else MAX_KEY
            try:
                new = t.metadata_manager.refresh()
                if op["v"] is None:
                    new.properties.pop(key, None)
                else:
                    new.properties[key] = op["v"]
                t.metadata_manager.commit(t.metadata_manager.refresh(), new)
            except Exception as e:
                exc = f"{type(e).__name__}: {e}"[:300]
            model_op = f"{'SetRetention' if op['k'] == 'setret' else 'SetPrevMax'} {pval_coq(op['v'])} ({op['tu']}) {sid}"
        elif op["k"] == "ptr":
            self._pointer_fault(op["form"], before_ptr)
        elif op["k"] == "lose":
            lost = self._lose_newest(before_ptr)
        elif op["k"] == "reopen":
            from datashard import load_table
            self.table = t = load_table(self.root)       # a fresh handle: nothing may live in the old one
        elif op["k"] == "gc":
            try:
                t.garbage_collect(grace_period_ms=0)
            except Exception as e:
                # refusing to collect (fail closed, e.g. while the pointer names a missing file) is the collector's
                # right and changes nothing; any other exception is unexpected
                if type(e).__name__ != "GarbageCollectionAborted":
                    self.errors.append(f"step {idx}: garbage_collect raised {type(e).__name__}: {e}"[:300])
        # ---- observe
        ptr = self.reader.current()
        md = self.reader.metadata(ptr)
        if lost:
            outcome = "Lost"               # the newest version file is gone: the table is at its predecessor again
            self.model_valid = False       # the model has no such event; later steps are judged by the oracle only
            if ptr not in self.meta_files:
                self.errors.append(f"step {idx}: after losing the newest version the table resolves to an unknown file {ptr}")
        elif ptr != before_ptr:
            if ptr in self.meta_files:
                self.errors.append(f"step {idx}: pointer moved to an already known metadata file {ptr}")
            self.meta_files.setdefault(ptr, sid)
            outcome = "Committed"
        else:
            outcome = "Aborted" if exc else "NoCommit"
        if exc and ptr != before_ptr:
            self.errors.append(f"step {idx}: operation raised ({exc}) although the pointer moved")
        new_ids = [s["snapshot_id"] for s in md["snapshots"] if s["snapshot_id"] not in self.snap_ids]
        if len(new_ids) > 1 or (new_ids and op["k"] != "txn"):
            self.errors.append(f"step {idx}: unexpected new snapshot ids {new_ids}")
        for i in new_ids[:1]:
            self.snap_ids[i] = sid
            self.snap_rev[sid] = i
        rec = {"step": idx, "op": op, "exc": exc, "outcome": outcome, "pointer": ptr, "metadata": md, "deleted_paths": deleted,
               "lost": lost}
        self.raw.append(rec)
        if self.oracle_error is None:
            try:
                self.oracle.observe(rec)
            except Exception:
                import traceback
                self.oracle_error = traceback.format_exc()[-1500:]
        if model_op is not None and self.model_valid:
            self.model_ops.append(model_op)
            try:
                self.observed.append(self.canon(md, ptr, outcome))
            except Exception as e:
                self.observed.append(("uncanonical", repr(e)[:300]))
            self._lookups(md)

    def _pick_snapshot(self, op: Dict[str, Any]) -> int:
        md = self.reader.metadata()
        retained = [self.snap_ids[s["snapshot_id"]] for s in md["snapshots"] if s["snapshot_id"] in self.snap_ids]
        cur = md.get("current_snapshot_id")
        if op["pick"] == "current" and cur in self.snap_ids:
            return self.snap_ids[cur]
        if op["pick"] == "retained" and retained:
            return retained[op["ref"] % len(retained)]
        known = sorted(self.snap_rev)
        k = op["ref"] % (len(known) + 1)
        return known[k] if k < len(known) else NONEXISTENT_SNAP

    # -- canonical view -------------------------------------------------------------------------
    def _cid(self, i: Any) -> Any:
        if i is None:
            return None
        if i == -1:
            return Some(-1)
        return Some(self.snap_ids[i])

    def _cpath(self, p: str) -> Tuple[int, int]:
        body = p.lstrip("/")
        return (len(p) - len(body), self.files[body])

    def _cfile(self, rel: str) -> int:
        assert rel.startswith("metadata/"), rel
        return self.meta_files[rel[len("metadata/"):]]

    def canon(self, md: Dict[str, Any], ptr: str, outcome: str) -> Any:
        snaps = []
        for s in md["snapshots"]:
            mans = []
            for _mp, recs in self.reader.snapshot_manifests(s):
                es = []
                for rec in recs:
                    p, st, added, sq = entry_tuple(rec)
                    es.append((st, self.snap_ids[added], sq, self._cpath(p)))
                mans.append(es)
            snaps.append((self.snap_ids[s["snapshot_id"]], s["timestamp_ms"], self._cid(s["parent_snapshot_id"]), s["sequence_number"], mans))
        slog = [(e["timestamp_ms"], self.snap_ids[e["snapshot_id"]]) for e in md["snapshot_log"]]
        props = md["properties"]
        mlog = [(e["timestamp-ms"], self._cfile(e["metadata-file"])) for e in md["metadata_log"]]
        meta = (self._cid(md["current_snapshot_id"]), snaps, slog, (md["last_sequence_number"], md["last_updated_ms"]),
                (pval(props.get(RET_KEY)), pval(props.get(MAX_KEY))), mlog)
        return (self.meta_files[ptr], C(outcome), meta)

    # -- lookups through the real API (C09 pieces), answered by the model on the same state ------
    def _lookups(self, md: Dict[str, Any]) -> None:
        k = len(self.model_ops)
        sm = self.table.snapshot_manager
        for tq in (989, 1000, 1002, 1500):
            s = sm.get_snapshot_by_timestamp(tq)
            self.lookups.append((k, f"option_map sid (by_timestamp (md st) ({tq}))", None if s is None else Some(self.snap_ids.get(s.snapshot_id, -5))))
        for c in sorted(self.snap_rev)[-2:]:
            s = sm.get_snapshot_by_id(self.snap_rev[c])
            self.lookups.append((k, f"option_map sid (by_id (md st) ({c}))", None if s is None else Some(self.snap_ids.get(s.snapshot_id, -5))))
        from datashard.snapshot_manager import SnapshotManager
        mr = SnapshotManager._most_recent_snapshot_id(self.table.metadata_manager.refresh())
        self.lookups.append((k, "most_recent (md st)", None if mr is None else Some(self.snap_ids.get(mr, -5))))

    def run(self) -> None:
        with SeededUUID(self.hist["uuid_seed"]):
            self.start()
            for i, op in enumerate(self.hist["ops"]):
                self.step(i, op)


# ================================================================================== oracle (impl only)
def _norm(p: str) -> str:
    return p.lstrip("/")


class Oracle:
    """The property text, judged on the implementation's own metadata after every step.

    Ghost state is built only from what the independent reader has seen: each snapshot as it first
    appeared (its original parent, timestamp, sequence number, manifest list), the order of first
    appearance (= commit order), each manifest entry as first added, every metadata version pointed to."""

    def __init__(self, reader: TableReader):
        self.reader = reader
        self.ghost: Dict[int, Dict[str, Any]] = {}
        self.order: List[int] = []
        # every registration ever committed: (normalised path, adding snapshot, sequence number). A path may be
        # registered more than once (append_files accepts an already listed file); each registration is its own entry.
        self.added: set = set()
        self.versions: List[Tuple[str, int]] = []        # (metadata file, last_updated it carried) in commit order
        self.last_seq = None
        self.prev_md: Optional[Dict[str, Any]] = None
        self.bad: List[Tuple[str, str]] = []

    def fail(self, key: str, what: str) -> None:
        self.bad.append((key, what))

    def is_ancestor(self, a: int, s: int) -> bool:
        seen = set()
        p = self.ghost[s]["parent"]
        while p is not None and p != -1 and p not in seen:
            if p == a:
                return True
            seen.add(p)
            p = self.ghost[p]["parent"] if p in self.ghost else None
        return False

    def files_of(self, snap: Dict[str, Any]) -> List[Tuple[str, int, Any, Any]]:
        out = []
        for _mp, recs in self.reader.snapshot_manifests(snap):
            out.extend(entry_tuple(r) for r in recs)
        return out

    def observe_initial(self, init: Dict[str, Any]) -> None:
        self.versions.append((init["pointer"], init["metadata"]["last_updated_ms"]))
        self.last_seq = init["metadata"]["last_sequence_number"]
        self.prev_md = init["metadata"]

    def observe(self, rec: Dict[str, Any]) -> None:
        md, ptr, op, step = rec["metadata"], rec["pointer"], rec["op"], rec["step"]
        tag = f"step {step} ({op['k']})"
        snaps = md["snapshots"]
        ids = [s["snapshot_id"] for s in snaps]
        if rec.get("lost"):
            # the newest version file was removed from outside: the table IS its predecessor again; the chain of
            # superseded versions, last_sequence_number and the base of the next transaction are that version's
            while len(self.versions) > 1 and self.versions[-1][0] != ptr:
                self.versions.pop()
            if self.versions[-1][0] != ptr:
                self.fail("lost-version-recovery", f"{tag}: after the newest version file was lost the table resolves to {ptr}, "
                                                   f"which is not a version committed before it")
            self.last_seq = md["last_sequence_number"]
        if not self.versions or self.versions[-1][0] != ptr:
            self.versions.append((ptr, md["last_updated_ms"]))
        # ghost update: snapshots first seen now
        for s in snaps:
            if s["snapshot_id"] not in self.ghost:
                self.ghost[s["snapshot_id"]] = {"parent": s["parent_snapshot_id"], "ts": s["timestamp_ms"],
                                                "seq": s["sequence_number"], "ml": s["manifest_list"]}
                self.order.append(s["snapshot_id"])
                for p, st, added, sq in self.files_of(s):
                    if (_norm(p), added, sq) not in self.added:
                        if st != 1 or added != s["snapshot_id"] or sq != s["sequence_number"]:
                            self.fail("entry-new", f"{tag}: new entry {p} entered with status {st}, snapshot {added}, seq {sq} "
                                                   f"(committing snapshot {s['snapshot_id']}, seq {s['sequence_number']})")
                        self.added.add((_norm(p), added, sq))
        # 0. ids unique; retained snapshots immutable apart from the parent link
        if len(set(ids)) != len(ids):
            self.fail("ids-duplicate", f"{tag}: duplicate snapshot ids {ids}")
        for s in snaps:
            g = self.ghost[s["snapshot_id"]]
            if (s["timestamp_ms"], s["sequence_number"], s["manifest_list"]) != (g["ts"], g["seq"], g["ml"]):
                self.fail("snapshot-mutated", f"{tag}: snapshot {s['snapshot_id']} changed timestamp/sequence/manifest list")
        # 1. current retained or none
        cur = md["current_snapshot_id"]
        if cur is not None and cur != -1 and cur not in ids:
            self.fail("current-dangling", f"{tag}: current_snapshot_id {cur} is not among the retained snapshots {ids}")
        # 2. parents: nothing, or a retained true ancestor
        for s in snaps:
            p = s["parent_snapshot_id"]
            if p is None or p == -1:
                continue
            if p not in ids:
                self.fail("parent-dangling", f"{tag}: snapshot {s['snapshot_id']} has parent {p} which is not retained")
            elif not self.is_ancestor(p, s["snapshot_id"]):
                self.fail("parent-not-ancestor", f"{tag}: snapshot {s['snapshot_id']} has parent {p} which is not a true ancestor")
        # 3. sequence numbers
        retained_in_commit_order = [i for i in self.order if i in set(ids)]
        seqs = [self.ghost[i]["seq"] for i in retained_in_commit_order]
        cur_seqs = {s["snapshot_id"]: s["sequence_number"] for s in snaps}
        seqs_now = [cur_seqs[i] for i in retained_in_commit_order]
        if any(not isinstance(x, int) for x in seqs_now) or any(a >= b for a, b in zip(seqs_now, seqs_now[1:])):
            self.fail("seq-order", f"{tag}: sequence numbers in commit order are not strictly increasing: {seqs_now}")
        if any(x > md["last_sequence_number"] for x in seqs_now if isinstance(x, int)):
            self.fail("seq-exceeds-last", f"{tag}: a sequence number exceeds last_sequence_number {md['last_sequence_number']}: {seqs_now}")
        if self.last_seq is not None and md["last_sequence_number"] < self.last_seq:
            self.fail("last-seq-decreased", f"{tag}: last_sequence_number went {self.last_seq} -> {md['last_sequence_number']}")
        self.last_seq = md["last_sequence_number"]
        # 4. snapshot log = retained snapshots in commit order
        log_ids = [e["snapshot_id"] for e in md["snapshot_log"]]
        if log_ids != retained_in_commit_order:
            self.fail("snapshot-log", f"{tag}: snapshot log {log_ids} is not the retained snapshots in commit order {retained_in_commit_order}")
        # 5. carried entries keep adding snapshot and sequence number
        for s in snaps:
            for p, st, added, sq in self.files_of(s):
                if (_norm(p), added, sq) not in self.added:
                    was = sorted((a, q) for (pp, a, q) in self.added if pp == _norm(p))
                    self.fail("entry-rewritten", f"{tag}: file {p} in snapshot {s['snapshot_id']} carries (snapshot {added}, seq {sq}); "
                                                 f"it was registered as {was}")
        # 6. a file delete removes exactly the named files / 7. the current snapshot is never expired
        if op["k"] == "txn" and rec["outcome"] == "Committed" and self.prev_md is not None:
            self._check_txn(tag, op, md, rec.get("deleted_paths", []))
        # 8. metadata log: existing superseded versions, oldest first, within the configured bound
        superseded = self.versions[:-1]
        names = [e["metadata-file"] for e in md["metadata_log"]]
        sup_names = ["metadata/" + f for f, _ in superseded]
        for e in md["metadata_log"]:
            if not self.reader.exists(e["metadata-file"]):
                self.fail("mlog-missing-file", f"{tag}: metadata log names {e['metadata-file']} which does not exist")
        if names != sup_names[len(sup_names) - len(names):] if names else False:
            self.fail("mlog-not-superseded", f"{tag}: metadata log {names} is not a suffix of the superseded versions {sup_names}")
        else:
            for e, (f, lu) in zip(md["metadata_log"], superseded[len(superseded) - len(names):]):
                if e["timestamp-ms"] != lu:
                    self.fail("mlog-timestamp", f"{tag}: metadata log entry {e} does not carry that version's last_updated_ms {lu}")
        raw = md["properties"].get(MAX_KEY)
        bound = 100
        if raw is not None:
            try:
                bound = int(raw)
            except (TypeError, ValueError):
                bound = 100
        if rec["outcome"] == "Committed" and bound >= 1 and len(names) > bound:
            self.fail("mlog-bound", f"{tag}: metadata log has {len(names)} entries, configured bound {bound}")
        self.prev_md = md

    def _check_txn(self, tag: str, op: Dict[str, Any], md: Dict[str, Any], rec_deleted: List[str]) -> None:
        prev = self.prev_md
        has_expire = any(s[0] == "expire" for s in op["ops"])
        pcur = prev["current_snapshot_id"]
        cur = md["current_snapshot_id"]
        fileops = cur != pcur
        if has_expire and not fileops and pcur not in (None, -1) and pcur not in [s["snapshot_id"] for s in md["snapshots"]]:
            self.fail("current-expired", f"{tag}: expire removed the current snapshot {pcur}")
        if not fileops:
            return
        named = set(rec_deleted)
        base_snap = next((s for s in prev["snapshots"] if s["snapshot_id"] == pcur), None)
        base = [(t[0], t[2], t[3]) for t in self.files_of(base_snap)] if base_snap else []
        new_snap = next((s for s in md["snapshots"] if s["snapshot_id"] == cur), None)
        if new_snap is None:
            return
        now_all = [(t[0], t[2], t[3]) for t in self.files_of(new_snap)]
        # entries the new snapshot CARRIES from its base (anything stamped with the new snapshot's own id is an append
        # of this transaction, whatever its path: queued deletes act on the base, queued appends are added after)
        carried = [e for e in now_all if e[1] != cur]
        # A path names a file in either of the two spellings the library documents: "data/x" and "/data/x".
        # Other spellings ("//data/x") are left unspecified by the property: no demand either way.
        recognised = {_norm(p) for p in named if p == _norm(p) or p == "/" + _norm(p)}
        any_spelling = {_norm(p) for p in named}
        key = lambda e: (_norm(e[0]), e[1], e[2])
        wrongly_kept = sorted(key(e) for e in carried if _norm(e[0]) in recognised)
        from collections import Counter
        must_stay = Counter(key(e) for e in base if _norm(e[0]) not in any_spelling)
        stayed = Counter(key(e) for e in carried if _norm(e[0]) not in any_spelling)
        invented = Counter(key(e) for e in carried) - Counter(key(e) for e in base)
        show_now = sorted(key(e) for e in now_all)
        if wrongly_kept:
            self.fail("delete-missed", f"{tag}: delete_files({sorted(named)}) on base entries {sorted(key(e) for e in base)} left the "
                                       f"named file(s) {wrongly_kept} in the new snapshot {show_now}")
        if must_stay - stayed:
            self.fail("delete-extra", f"{tag}: delete_files({sorted(named)}) on base entries {sorted(key(e) for e in base)} also "
                                      f"removed {sorted((must_stay - stayed).elements())}; new snapshot {show_now}")
        if stayed - must_stay or invented:
            self.fail("carry-invented", f"{tag}: the new snapshot carries entries its base did not have: "
                                        f"{sorted(((stayed - must_stay) + invented).elements())}")


# ================================================================================== one history, end to end
SHOW = """
Definition show_entry (e : entry) := (estatus e, eadded e, eseq e, epath e).
Definition show_snap (s : snap) := (sid s, ts s, parent s, seq s, map (map show_entry) (mlist s)).
Definition show_meta (m : meta) := (cur m, map show_snap (snaps m), slog m, (last_seq m, last_updated m), (retention m, prevmax m), mlog m).
Definition show (x : state * outcome) := (curfile (fst x), snd x, show_meta (md (fst x))).
Definition nth_state (t0 : Z) (ops : list op) (k : nat) : state := run (init t0 0) (firstn k ops).
"""


HISTORY_LIMIT_S = 45.0           # one history normally takes well under a second
MAX_HANGS = 3                    # after that many, the remaining histories are not started (the finding is established)
CASE_MEMORY_BYTES = 4 << 30      # address-space limit of the process that runs one history


class HistoryHang(BaseException):
    """Raised by the interval timer inside the library call; BaseException so that no `except Exception` eats it."""


def run_history(args: Tuple[str, Dict[str, Any]]) -> Dict[str, Any]:
    """Worker: run one history on the real library, judge it with the oracle. Returns plain data."""
    root, hist = args
    shutil.rmtree(root, ignore_errors=True)
    d = Driver(root, hist)
    res: Dict[str, Any] = {"hist": hist}
    import signal

    def on_alarm(_sig, _frm):
        raise HistoryHang()

    limit = float(hist.get("_limit_s", HISTORY_LIMIT_S))
    old_handler = signal.signal(signal.SIGALRM, on_alarm)
    signal.setitimer(signal.ITIMER_REAL, limit)
    try:
        d.run()
    except HistoryHang:
        res["hang"] = {"after_steps": len(d.raw), "limit_s": limit}
    except MemoryError:
        res["crash"] = {"after_steps": len(d.raw), "what": "MemoryError (address-space limit of the case reached)"}
    except Exception as e:
        import traceback
        res["driver_error"] = traceback.format_exc()[-1500:]
    finally:
        signal.setitimer(signal.ITIMER_REAL, 0)
        signal.signal(signal.SIGALRM, old_handler)
    orc = d.oracle
    if d.oracle_error:
        res["oracle_error"] = d.oracle_error
    res.update({"model_ops": d.model_ops, "observed": d.observed, "errors": d.errors, "oracle": orc.bad,
                "lookups": d.lookups, "nsteps": len(d.raw),
                "outcomes": [r["outcome"] for r in d.raw], "excs": [r["exc"] for r in d.raw if r["exc"]],
                "shape": _shape(d)})
    shutil.rmtree(root, ignore_errors=True)
    return res


def _shape(d: Driver) -> Dict[str, Any]:
    md = d.raw[-1]["metadata"] if d.raw else {"snapshots": []}
    return {"snapshots_committed": len(d.snap_ids), "retained_at_end": len(md["snapshots"]), "files": d.nfiles,
            "reregistered": d.nrereg, "pointer_faults": d.nptr}


def model_states(cases: List[Dict[str, Any]]) -> List[Any]:
    exprs = []
    for r in cases:
        ops = "[" + "; ".join(r["model_ops"]) + "]"
        exprs.append(f"map show (trace (init ({r['hist']['t0']}) 0) {ops})")
    return coq_eval_batched(exprs, preamble=SHOW, chunk=8 if len(exprs) <= 400 else 24)


def compare_history(r: Dict[str, Any], model: Any) -> Optional[Dict[str, Any]]:
    obs = r["observed"]
    if r.get("driver_error"):
        return {"history": r["hist"], "driver_error": r["driver_error"]}
    if r["errors"]:
        return {"history": r["hist"], "harness_errors": r["errors"]}
    if len(model) != len(obs):
        return {"history": r["hist"], "what": f"{len(obs)} observed states vs {len(model)} model states"}
    for k, (o, m) in enumerate(zip(obs, model)):
        if _plain(o) != _plain(m):
            return {"history": r["hist"], "step": k, "op": r["model_ops"][k], "impl": repr(o)[:1500], "model": repr(m)[:1500],
                    "excs": r["excs"]}
    return None


def _plain(x: Any) -> Any:
    """Normalise tuple nesting / dataclasses for comparison."""
    if isinstance(x, Some):
        return ("Some", _plain(x.x))
    if isinstance(x, C):
        return ("C", x.name, tuple(_plain(a) for a in x.args))
    if isinstance(x, (list, tuple)):
        return tuple(_plain(i) for i in x)
    return x


def _empty_result(hist: Dict[str, Any], **kw: Any) -> Dict[str, Any]:
    r = {"hist": hist, "model_ops": [], "observed": [], "errors": [], "oracle": [], "lookups": [], "nsteps": 0,
         "outcomes": [], "excs": [], "shape": {"snapshots_committed": 0, "retained_at_end": 0, "files": 0, "reregistered": 0, "pointer_faults": 0}}
    r.update(kw)
    return r


def _child(conn, args) -> None:
    import resource
    try:
        resource.setrlimit(resource.RLIMIT_AS, (CASE_MEMORY_BYTES, CASE_MEMORY_BYTES))
    except Exception:
        pass
    try:
        res = run_history(args)
    except BaseException as e:   # noqa: BLE001 -- the parent must always get an answer
        res = _empty_result(args[1], crash={"after_steps": 0, "what": f"{type(e).__name__}: {e}"[:300]})
    try:
        conn.send(res)
    finally:
        conn.close()
        os._exit(0)


def run_isolated_many(jobs: List[Tuple[str, Dict[str, Any]]], workers: int) -> List[Dict[str, Any]]:
    """Every history runs in its own forked process with an address-space limit, an interval timer inside (a library
    call that does not return becomes a reported hang with the partial run) and a parent-side deadline after which the
    process is killed (covers a hang inside C code). The check itself can therefore not get stuck on the library."""
    import multiprocessing as mp
    import time
    ctxm = mp.get_context("fork")
    results: List[Optional[Dict[str, Any]]] = [None] * len(jobs)
    running: Dict[int, Any] = {}
    nxt = 0
    hangs = 0
    while nxt < len(jobs) or running:
        if hangs >= MAX_HANGS:
            nxt = len(jobs)                      # do not start more; what runs keeps its own deadline
        while nxt < len(jobs) and len(running) < workers:
            pc, cc = ctxm.Pipe(duplex=False)
            pr = ctxm.Process(target=_child, args=(cc, jobs[nxt]), daemon=True)
            pr.start()
            cc.close()
            limit = float(jobs[nxt][1].get("_limit_s", HISTORY_LIMIT_S))
            running[nxt] = (pr, pc, time.time() + limit + 30.0)
            nxt += 1
        done = []
        for i, (pr, pc, deadline) in running.items():
            if pc.poll(0):
                try:
                    results[i] = pc.recv()
                except (EOFError, OSError):
                    results[i] = _empty_result(jobs[i][1], crash={"after_steps": 0, "what": f"the process running the history died (exit code {pr.exitcode})"})
                done.append(i)
            elif not pr.is_alive():
                results[i] = _empty_result(jobs[i][1], crash={"after_steps": 0, "what": f"the process running the history died (exit code {pr.exitcode})"})
                done.append(i)
            elif time.time() > deadline:
                pr.kill()
                results[i] = _empty_result(jobs[i][1], hang={"after_steps": None, "limit_s": deadline, "killed": True})
                done.append(i)
        for i in done:
            if results[i] is not None and (results[i].get("hang") or results[i].get("crash")):
                hangs += 1
            pr, pc, _ = running.pop(i)
            pc.close()
            pr.join(5)
            shutil.rmtree(jobs[i][0], ignore_errors=True)
        if not done:
            time.sleep(0.01)
    return [r for r in results if r is not None]


def run_isolated(root: str, hist: Dict[str, Any]) -> Dict[str, Any]:
    return run_isolated_many([(root, hist)], 1)[0]


def run_histories(ctx, hists: List[Dict[str, Any]], label: str) -> List[Dict[str, Any]]:
    jobs = [(os.path.join(ctx.scratch, f"{label}{i}"), h) for i, h in enumerate(hists)]
    workers = min(int(os.environ.get("VERIF_JOBS", "16")), max(1, len(jobs)))
    return run_isolated_many(jobs, workers)


# ---------------------------------------------------------------------------------- shrinking
def shrink(ctx, hist: Dict[str, Any], still_fails, budget: int = 90) -> Dict[str, Any]:
    """Delta debugging: drop whole operations, then sub-operations of transactions, then single paths / files of
    a sub-operation. References inside operations are resolved at run time, so every candidate is a valid history."""
    cur = hist
    n = 0

    def attempt(cand: Dict[str, Any]) -> bool:
        nonlocal n, cur
        if n >= budget or not cand["ops"]:
            return False
        n += 1
        if still_fails(cand):
            cur = cand
            return True
        return False

    progress = True
    while progress and n < budget:
        progress = False
        for i in range(len(cur["ops"]) - 1, -1, -1):
            if i < len(cur["ops"]) and attempt(dict(cur, ops=cur["ops"][:i] + cur["ops"][i + 1:])):
                progress = True
        for i in range(len(cur["ops"])):
            op = cur["ops"][i]
            if op["k"] != "txn":
                continue
            for j in range(len(op["ops"]) - 1, -1, -1):
                if len(cur["ops"][i]["ops"]) <= 1:
                    break
                op = cur["ops"][i]
                if j < len(op["ops"]):
                    op2 = dict(op, ops=op["ops"][:j] + op["ops"][j + 1:])
                    if attempt(dict(cur, ops=cur["ops"][:i] + [op2] + cur["ops"][i + 1:])):
                        progress = True
            op = cur["ops"][i]
            for j, sub in enumerate(op["ops"]):
                if sub[0] in ("append", "delete") and isinstance(sub[1], list) and len(sub[1]) > 1:
                    for k in range(len(sub[1]) - 1, -1, -1):
                        sub_now = cur["ops"][i]["ops"][j]
                        if len(sub_now[1]) <= 1 or k >= len(sub_now[1]):
                            continue
                        sub2 = [sub_now[0], sub_now[1][:k] + sub_now[1][k + 1:]]
                        opn = cur["ops"][i]
                        op2 = dict(opn, ops=opn["ops"][:j] + [sub2] + opn["ops"][j + 1:])
                        if attempt(dict(cur, ops=cur["ops"][:i] + [op2] + cur["ops"][i + 1:])):
                            progress = True
        # lower references (they are taken modulo the number of known files / snapshots at run time)
        for i in range(len(cur["ops"])):
            op = cur["ops"][i]
            if op["k"] == "delsnap" and op["ref"] > 3:
                for r in (0, 1, 2, 3):
                    if attempt(dict(cur, ops=cur["ops"][:i] + [dict(op, ref=r)] + cur["ops"][i + 1:])):
                        progress = True
                        break
            if op["k"] != "txn":
                continue
            for j, sub in enumerate(op["ops"]):
                if sub[0] not in ("delete", "append"):
                    continue
                for k in range(len(sub[1])):
                    el = cur["ops"][i]["ops"][j][1][k]
                    if not isinstance(el, list):
                        continue                      # "auto" / a spelling: nothing to lower
                    pos = 1 if el[0] == "re" else 0   # ["re", ref, spelling] or [ref, spelling]
                    if el[pos] <= 3:
                        continue
                    for r in (0, 1, 2, 3):
                        opn = cur["ops"][i]
                        subn = opn["ops"][j]
                        els = [list(e) if isinstance(e, list) else e for e in subn[1]]
                        els[k][pos] = r
                        op2 = dict(opn, ops=opn["ops"][:j] + [[subn[0], els]] + opn["ops"][j + 1:])
                        if attempt(dict(cur, ops=cur["ops"][:i] + [op2] + cur["ops"][i + 1:])):
                            progress = True
                            break
    return cur


def oracle_fails(ctx, key: str):
    def f(h: Dict[str, Any]) -> bool:
        r = run_isolated(os.path.join(ctx.scratch, "shrink"), h)
        return any(k == key for k, _ in r["oracle"])
    return f


def corr_fails(ctx):
    def f(h: Dict[str, Any]) -> bool:
        r = run_isolated(os.path.join(ctx.scratch, "shrink"), h)
        if r.get("driver_error") or not r["model_ops"]:
            return False
        try:
            m = model_states([r])[0]
        except RuntimeError:
            return False
        return compare_history(r, m) is not None
    return f


# ================================================================================== forests
def _mk_snaps(ids_parents: List[Tuple[int, Any]]):
    from datashard.data_structures import Snapshot
    return [Snapshot(snapshot_id=i, timestamp_ms=0, manifest_list="", parent_snapshot_id=p) for i, p in ids_parents]


class RepointHang(Exception):
    pass


def real_repoint(ids_parents: List[Tuple[int, Any]], kept_mask: int) -> List[Any]:
    from datashard.snapshot_manager import repoint_parents_to_surviving_ancestors
    allsn = _mk_snaps(ids_parents)
    kept = [s for k, s in enumerate(allsn) if kept_mask >> k & 1]
    repoint_parents_to_surviving_ancestors(allsn, kept)
    return [s.parent_snapshot_id for s in kept]


def real_repoint_row(fam: List[Tuple[int, Any]]) -> List[Any]:
    """The real function on every kept subset of one parent map; a walk that does not come back within 2 s
    (cyclic map, missing guard) is reported as ('hang', mask) instead of blocking the check."""
    import signal

    def on_alarm(_sig, _frm):
        raise RepointHang()

    old = signal.signal(signal.SIGALRM, on_alarm)
    row: List[Any] = []
    mask = 0
    try:
        signal.setitimer(signal.ITIMER_REAL, 2.0)
        for mask in range(1 << len(fam)):
            row.append(real_repoint(fam, mask))
    except RepointHang:
        row.append(("hang", mask))
    finally:
        signal.setitimer(signal.ITIMER_REAL, 0)
        signal.signal(signal.SIGALRM, old)
    return row


def _popt(p: Any) -> str:
    return "None" if p is None else f"(Some ({p}))"


def forest_families(ctx) -> List[List[Tuple[int, Any]]]:
    fams: List[List[Tuple[int, Any]]] = []
    # (a) every parent map on n <= 5 snapshots with parents among the ids (self loops and cycles included)
    top = 5
    for n in range(1, top + 1):
        for ps in itertools.product(range(1, n + 1), repeat=n):
            fams.append([(i + 1, p) for i, p in enumerate(ps)])
    # (b) roots and dangling links: parents in {None, -1, 9 (not a snapshot), ids}, n <= 4 (thorough: 5)
    nb = 5 if ctx.tier == "thorough" else 4
    for n in range(1, nb + 1):
        for ps in itertools.product([None, -1, 9] + list(range(1, n + 1)), repeat=n):
            if all(isinstance(p, int) and p >= 1 and p != 9 for p in ps):
                continue  # already in (a)
            fams.append([(i + 1, p) for i, p in enumerate(ps)])
    # (c) duplicated snapshot ids (corrupt metadata): the dict comprehension keeps the LAST binding
    for n in ((2, 3, 4) if ctx.tier == "thorough" else (2, 3)):
        for idsq in itertools.product([1, 2, 3] if n < 4 else [1, 2], repeat=n):
            if len(set(idsq)) == n:
                continue
            for ps in itertools.product([None, -1, 1, 2, 3], repeat=n):
                fams.append(list(zip(idsq, ps)))
    return fams


_FOREST_CACHE: Dict[str, Any] = {}


def forest_rows(ctx) -> Tuple[List[List[Tuple[int, Any]]], List[List[Any]]]:
    if "rows" not in _FOREST_CACHE:
        fams = forest_families(ctx)
        _FOREST_CACHE["fams"] = fams
        rows: List[Any] = []
        hangs = 0
        for f in fams:
            if hangs >= 2:          # a non-terminating walk is established; do not spend 2 s on every cyclic map
                rows.append(None)
                continue
            r = real_repoint_row(f)
            if r and isinstance(r[-1], tuple):
                hangs += 1
            rows.append(r)
        _FOREST_CACHE["rows"] = rows
    return _FOREST_CACHE["fams"], _FOREST_CACHE["rows"]


def expected_links(fam: List[Tuple[int, Any]], mask: int) -> Optional[List[Any]]:
    """Independent judgement for one case (unique ids only): for each survivor, the first kept id on its chain of
    parent links; nothing (None / -1 as found) if the chain ends first; None if the chain cycles first."""
    ids = [i for i, _ in fam]
    if len(set(ids)) != len(ids):
        return None
    par = dict(fam)
    kept_ids = {fam[k][0] for k in range(len(fam)) if mask >> k & 1}
    out = []
    for k in range(len(fam)):
        if not mask >> k & 1:
            continue
        chain: List[int] = []
        p = fam[k][1]
        while True:
            if p is None or p == -1 or p in kept_ids:
                out.append(p)
                break
            if p in chain:
                out.append(None)
                break
            chain.append(p)
            p = par.get(p)
    return out


def corr_forests(ctx) -> None:
    fams, impl = forest_rows(ctx)
    exprs = []
    ncases = 0
    for fam in fams:
        snaps = "[" + "; ".join(f"mk {i} {_popt(p)}" for i, p in fam) + "]"
        exprs.append(f"let al := {snaps} in map (fun kept => map parent (repoint_all al kept)) (subsets al)")
        ncases += 1 << len(fam)
    pre = ("Definition mk (i : Z) (p : option Z) : snap := {| sid := i; ts := 0; parent := p; seq := 0; mlist := [] |}.\n"
           "(* subsets in the order of the bit mask: element k is kept iff bit k of the index is set *)\n"
           "Fixpoint subsets {A} (l : list A) : list (list A) := match l with [] => [[]] | x :: r => "
           "flat_map (fun s => [s; x :: s]) (subsets r) end.\n")
    got = coq_eval_batched(exprs, preamble=pre, chunk=250)
    bad = []
    for fam, row, g in zip(fams, impl, got):
        if row is None:
            continue   # sweep abandoned after repeated hangs (already reported)
        for mask in range(1 << len(fam)):
            if mask >= len(row) or isinstance(row[mask], tuple):
                bad.append({"snapshots": fam, "kept_mask": mask, "impl": "does not terminate", "model": repr(g[mask])})
                break
            exp = [None if p is None else Some(p) for p in row[mask]]
            if _plain(g[mask]) != _plain(exp):
                bad.append({"snapshots": fam, "kept_mask": mask, "impl": row[mask], "model": repr(g[mask])})
                break
    ctx.correspondence("forests", ncases, bad)
    ctx.count(ncases, ("forests", len(fams)))
    ctx.stats["forest_parent_maps"] = len(fams)
    ctx.stats["forest_cases"] = ncases
    ctx.sample({"forest_case": {"snapshots": fams[len(fams) // 2], "all_kept_subsets": True}})


def forest_case_problem(fam: List[Tuple[int, Any]], mask: int, got: Any) -> Optional[str]:
    if isinstance(got, tuple):
        return f"repoint on {fam} with kept mask {mask} does not terminate"
    exp = expected_links(fam, mask)
    if exp is not None and got != exp:
        return f"repoint on {fam} with kept mask {mask}: survivors got parents {got}, nearest surviving ancestors are {exp}"
    return None


def oracle_forests(ctx) -> None:
    """Implementation-only: on every enumerated map/kept pair the real function terminates and leaves each survivor
    with nothing or the NEAREST kept id on its chain of parent links (None when the chain cycles first)."""
    fams, rows = forest_rows(ctx)
    n_cases = 0
    reported = 0
    for fam, row in zip(fams, rows):
        for mask, got in enumerate(row or []):
            n_cases += 1
            msg = forest_case_problem(fam, mask, got)
            if msg and reported < 5:
                reported += 1
                key = "repoint-hang" if isinstance(got, tuple) else "repoint-wrong"
                ctx.violation(key, msg, {"kind": "forest", "snapshots": fam, "kept_mask": mask})
    ctx.count(n_cases)
    ctx.stats["forest_oracle_cases"] = n_cases


# ================================================================================== unit correspondence
# The mutators, one call each, on ARBITRARY metadata records -- including states no history reaches (duplicated
# ids, dangling current / parents / log rows, unusable snapshot log), where the fall-back branches live.
def _rand_meta(rng: random.Random) -> Dict[str, Any]:
    n = rng.choice([0, 1, 2, 3, 3, 4, 5])
    pool = [1, 2, 3, 4, 5, 6]
    ids = [rng.choice(pool) for _ in range(n)] if rng.random() < 0.25 else rng.sample(pool, n)
    links = [None, -1, 9] + pool
    snaps = [{"id": i, "ts": rng.choice([1000, 1000, 1001, 1002, 999]), "parent": rng.choice(links)} for i in ids]
    r = rng.random()
    if r < 0.5:
        slog = [(s["ts"], s["id"]) for s in snaps]
    elif r < 0.8:
        slog = [(s["ts"], s["id"]) for s in snaps if rng.random() < 0.6] + ([(1000, 8)] if rng.random() < 0.3 else [])
        rng.shuffle(slog)
    else:
        slog = []
    cur = rng.choice([None, -1, 9] + (ids or [1]) * 3)
    mlog = [(rng.choice([1000, 1001]), k) for k in rng.sample(range(1, 8), rng.choice([0, 1, 2, 3, 4]))]
    return {"snaps": snaps, "slog": slog, "cur": cur, "ret": rng.choice(RET_VALUES + ["3", " 2 ", "-1", "2.0"]),
            "max": rng.choice(MAX_VALUES + ["3", "-2", "1.5"]), "mlog": mlog, "lu": rng.choice([1000, 1003])}


def _meta_coq(m: Dict[str, Any]) -> str:
    sn = "; ".join(f"mk {x['id']} ({x['ts']}) {_popt(x['parent'])}" for x in m["snaps"])
    sl = "; ".join(f"({a}, {b})" for a, b in m["slog"])
    ml = "; ".join(f"({a}, {b})" for a, b in m["mlog"])
    return (f"{{| cur := {_popt(m['cur'])}; snaps := [{sn}]; slog := [{sl}]; last_seq := 0; last_updated := {m['lu']}; "
            f"retention := {pval_coq(m['ret'])}; prevmax := {pval_coq(m['max'])}; mlog := [{ml}] |}}")


def _meta_real(m: Dict[str, Any]):
    from datashard.data_structures import HistoryEntry, Snapshot, TableMetadata
    props = {}
    if m["ret"] is not None:
        props[RET_KEY] = m["ret"]
    if m["max"] is not None:
        props[MAX_KEY] = m["max"]
    return TableMetadata(
        location="x", properties=props, current_snapshot_id=m["cur"], last_updated_ms=m["lu"],
        snapshots=[Snapshot(snapshot_id=x["id"], timestamp_ms=x["ts"], manifest_list="", parent_snapshot_id=x["parent"]) for x in m["snaps"]],
        snapshot_log=[HistoryEntry(timestamp_ms=a, snapshot_id=b) for a, b in m["slog"]],
        metadata_log=[{"timestamp-ms": a, "metadata-file": f"metadata/f{b}"} for a, b in m["mlog"]])


def _view(md) -> Any:
    o = lambda p: None if p is None else Some(p)
    return (o(md.current_snapshot_id), [(s.snapshot_id, s.timestamp_ms, o(s.parent_snapshot_id)) for s in md.snapshots],
            [(e.timestamp_ms, e.snapshot_id) for e in md.snapshot_log])


class _StubMM:
    def __init__(self, md):
        self.md = md
        self.committed = None

    def refresh(self):
        return copy.deepcopy(self.md)

    def commit(self, base, new):
        self.committed = new
        return new

    def get_all_snapshots(self):
        return self.md.snapshots


UNIT_PRE = """
Definition mk (i t : Z) (p : option Z) : snap := {| sid := i; ts := t; parent := p; seq := 0; mlist := [] |}.
Definition view (m : meta) := (cur m, map (fun s => (sid s, ts s, parent s)) (snaps m), slog m).
Definition sview (o : option snap) := option_map (fun s => (sid s, ts s, parent s)) o.
"""


def corr_units(ctx) -> None:
    patch_library()
    from datashard.metadata_manager import MetadataManager
    from datashard.snapshot_manager import SnapshotManager
    from datashard.transaction import Transaction
    rng = ctx.rng
    n = 400 if ctx.tier == "quick" else 3000
    exprs, impl, descr = [], [], []
    import signal
    current: Dict[str, Any] = {}

    def on_alarm(_sig, _frm):
        raise HistoryHang()

    old_handler = signal.signal(signal.SIGALRM, on_alarm)
    try:
        _corr_units_cases(ctx, rng, n, exprs, impl, descr, current, signal)
    except HistoryHang:
        ctx.violation("unit-hang", f"a metadata mutator did not return within 10 s on the record {current.get('meta')}",
                      {"kind": "unit", "case": current})
        return
    finally:
        signal.setitimer(signal.ITIMER_REAL, 0)
        signal.signal(signal.SIGALRM, old_handler)
    _corr_units_compare(ctx, n, exprs, impl, descr)


def _corr_units_cases(ctx, rng, n, exprs, impl, descr, current, signal) -> None:
    from datashard.metadata_manager import MetadataManager
    from datashard.snapshot_manager import SnapshotManager
    from datashard.transaction import Transaction
    for _ in range(n):
        m = _rand_meta(rng)
        current.clear()
        current["meta"] = m
        mc = _meta_coq(m)
        cutoff = rng.choice([999, 1000, 1001, 1002, 5000])
        tq = rng.choice([998, 999, 1000, 1001, 1002])
        did = rng.choice([1, 2, 3, 4, 5, 6, 9])
        prev = rng.choice([1, 2, 3, 9] + ([m["mlog"][-1][1]] * 3 if m["mlog"] else []))
        # real side (bounded: a mutator that loops on a corrupt record is a failing input, not a stuck check)
        signal.setitimer(signal.ITIMER_REAL, 10.0)
        md = _meta_real(m)
        SnapshotManager._apply_retention(SnapshotManager(_StubMM(None)), md)
        r_ret = _view(md)
        md = _meta_real(m)
        Transaction._make_expire_mutator(cutoff)(md)
        r_exp = _view(md)
        md = _meta_real(m)
        mr = SnapshotManager._most_recent_snapshot_id(md)
        r_mr = None if mr is None else Some(mr)
        stub = _StubMM(_meta_real(m))
        s = SnapshotManager(stub).get_snapshot_by_timestamp(tq)
        r_ts = None if s is None else Some((s.snapshot_id, s.timestamp_ms, None if s.parent_snapshot_id is None else Some(s.parent_snapshot_id)))
        stub = _StubMM(_meta_real(m))
        ok = SnapshotManager(stub).delete_snapshot(did)
        r_del = Some(_view(stub.committed)) if ok else None
        if bool(ok) != (stub.committed is not None):
            r_del = ("inconsistent", ok)
        mm = MetadataManager.__new__(MetadataManager)
        mm.metadata_path = "metadata"
        new_md, base_md = _meta_real(m), _meta_real(m)
        mm._append_metadata_log(new_md, base_md, f"f{prev}")
        r_ml = [(e["timestamp-ms"], int(e["metadata-file"][len("metadata/f"):])) for e in new_md.metadata_log]
        signal.setitimer(signal.ITIMER_REAL, 0)
        impl.append((r_ret, r_exp, r_mr, r_ts, r_del, r_ml))
        descr.append({"meta": m, "cutoff": cutoff, "t": tq, "delete": did, "prev_file": prev})
        exprs.append(f"let m := {mc} in (0, view (apply_retention m), view (expire ({cutoff}) m), most_recent m, "
                     f"sview (by_timestamp m ({tq})), option_map view (delete_snapshot m ({did})), "
                     f"append_mlog (prevmax m) (mlog m) (last_updated m) {prev})")


def _corr_units_compare(ctx, n, exprs, impl, descr) -> None:
    got = coq_eval_batched(exprs, preamble=UNIT_PRE, chunk=100)
    names = ["apply_retention", "expire", "most_recent", "by_timestamp", "delete_snapshot", "append_metadata_log"]
    bad = []
    for d, i, g in zip(descr, impl, got):
        ctx.count(6, ("unit", json.dumps(d, sort_keys=True, default=str)))
        for nm, a, b in zip(names, i, list(g)[1:]):
            if _plain(a) != _plain(b):
                bad.append({"function": nm, "case": d, "impl": repr(a), "model": repr(b)})
                break
    ctx.correspondence("units", 6 * n, bad)
    ctx.stats["unit_states"] = n
    ctx.stats["unit_states_with_duplicate_ids"] = sum(1 for d in descr if len({x["id"] for x in d["meta"]["snaps"]}) < len(d["meta"]["snaps"]))


# ================================================================================== driver
def check_histories(ctx) -> None:
    nh = 150 if ctx.tier == "quick" else 700
    max_steps = 20 if ctx.tier == "quick" else 45
    hists = [gen_history(ctx.rng, max_steps) for _ in range(nh)]
    hists += [gen_shape_history(ctx.rng, max_steps) for _ in range(60 if ctx.tier == "quick" else 400)]
    hists += [gen_pointer_history(ctx.rng, max_steps) for _ in range(60 if ctx.tier == "quick" else 400)]
    hists = CORPUS + hists
    results = run_histories(ctx, hists, "h")
    # ---- oracle (implementation only)
    steps = 0
    seen_keys = set()
    for r in results:
        steps += r["nsteps"]
        ctx.count(r["nsteps"], ("hist", json.dumps(r["hist"], sort_keys=True)))
        if r.get("oracle_error"):
            ctx.proof_problems.append("oracle crashed: " + r["oracle_error"][-600:])
        for key, what in r["oracle"]:
            if key in seen_keys:
                continue
            seen_keys.add(key)
            small = shrink(ctx, r["hist"], oracle_fails(ctx, key))
            rr = run_isolated(os.path.join(ctx.scratch, "final"), small)
            what2 = next((w for k, w in rr["oracle"] if k == key), what)
            ctx.violation(f"wf:{key}", what2, {"kind": "history", "history": small, "oracle_key": key})
    # ---- a library call that does not return / exhausts memory is a failing input, never a stuck check
    for kind in ("hang", "crash"):
        bad_runs = [r for r in results if r.get(kind)]
        ctx.stats[f"histories_{kind}"] = len(bad_runs)
        if bad_runs:
            first = min(bad_runs, key=lambda r: len(r["hist"]["ops"]))
            limit = 12.0

            def still(h: Dict[str, Any], kind=kind) -> bool:
                return bool(run_isolated(os.path.join(ctx.scratch, "shrink"), dict(h, _limit_s=limit)).get(kind))

            small = shrink(ctx, first["hist"], still, budget=8) if still(first["hist"]) else first["hist"]
            ctx.violation(f"history-{kind}",
                          (f"an operation of the history did not return within its time limit: {first[kind]}" if kind == "hang"
                           else f"the library failed outside its own error handling while running the history: {first[kind]}"),
                          {"kind": "history", "history": small, kind: first[kind]})
    ctx.stats["history_steps"] = steps
    ctx.stats["histories"] = len(results)
    ctx.stats["reregistrations"] = sum(r["shape"].get("reregistered", 0) for r in results)
    ctx.stats["pointer_faults"] = sum(r["shape"].get("pointer_faults", 0) for r in results)
    oc: Dict[str, int] = {}
    kinds: Dict[str, int] = {}
    for r in results:
        for o in r["outcomes"]:
            oc[o] = oc.get(o, 0) + 1
        for op in r["hist"]["ops"]:
            kinds[op["k"]] = kinds.get(op["k"], 0) + 1
    ctx.stats["step_outcomes"] = oc
    ctx.stats["op_mix"] = kinds
    ctx.stats["snapshots_committed_total"] = sum(r["shape"]["snapshots_committed"] for r in results)
    ctx.stats["histories_with_removal"] = sum(1 for r in results if r["shape"]["retained_at_end"] < r["shape"]["snapshots_committed"])
    ctx.stats["library_exceptions"] = sum(len(r["excs"]) for r in results)
    ctx.sample({"history": results[len(CORPUS)]["hist"], "model_ops": results[len(CORPUS)]["model_ops"][:6]})
    # ---- correspondence
    cases = [r for r in results if r["model_ops"] and not r.get("driver_error") and not r.get("hang") and not r.get("crash")]
    try:
        models = model_states(cases)
    except RuntimeError as e:
        ctx.proof_problems.append("model evaluation failed: " + str(e)[:800])
        return
    bad = []
    for r, m in zip(cases, models):
        d = compare_history(r, m)
        if d is not None:
            bad.append(d)
    for r in results:
        if r.get("driver_error"):
            bad.append({"history": r["hist"], "driver_error": r["driver_error"]})
    if bad:
        first = bad[0]
        if "step" in first:
            small = shrink(ctx, first["history"], corr_fails(ctx), budget=25)
            rr = run_isolated(os.path.join(ctx.scratch, "final"), small)
            try:
                d2 = compare_history(rr, model_states([rr])[0])
            except RuntimeError:
                d2 = None
            if d2 is not None:
                bad[0] = d2
    ctx.correspondence("histories", sum(len(r["observed"]) for r in cases), bad)
    # ---- lookups on the same states
    lk = [(r, k, e, a) for r in cases for (k, e, a) in r["lookups"]]
    cap = 3000 if ctx.tier == "quick" else 20000
    if len(lk) > cap:
        lk = ctx.rng.sample(lk, cap)
    by_case: Dict[int, List[Tuple[int, str, Any]]] = {}
    for r, k, e, a in lk:
        by_case.setdefault(id(r), []).append((k, e, a))
    exprs, answers, owners = [], [], []
    for r in cases:
        items = by_case.get(id(r))
        if not items:
            continue
        ops = "[" + "; ".join(r["model_ops"]) + "]"
        body = "; ".join(f"(let st := nth_state ({r['hist']['t0']}) ops {k} in {e})" for k, e, _a in items)
        exprs.append(f"let ops := {ops} in [{body}]")
        answers.append([a for _k, _e, a in items])
        owners.append((r, items))
    try:
        got = coq_eval_batched(exprs, preamble=SHOW, chunk=8 if len(exprs) <= 400 else 24)
    except RuntimeError as e:
        ctx.proof_problems.append("model evaluation (lookups) failed: " + str(e)[:800])
        return
    lbad = []
    nl = 0
    for (r, items), ans, g in zip(owners, answers, got):
        for (k, e, _a), a, gm in zip(items, ans, g):
            nl += 1
            if _plain(a) != _plain(gm):
                lbad.append({"history": r["hist"], "after_model_step": k, "lookup": e, "impl": repr(a), "model": repr(gm)})
    ctx.correspondence("lookups", nl, lbad)
    ctx.stats["lookups"] = nl


# minimised histories of past failures; always run first
CORPUS: List[Dict[str, Any]] = [
    # C15 delete-missed (fixed): a file registered as "data/x" was not removed by delete_files(["/data/x"])
    {"ops": [{"k": "txn", "ops": [["append", [0]]], "t": 1000, "tu": 1000},
             {"k": "txn", "ops": [["delete", [[1, 1]]]], "t": 1000, "tu": 1000}], "uuid_seed": 1, "t0": 1000},
    # both spellings on both sides, plus a doubled slash, in one transaction
    {"ops": [{"k": "txn", "ops": [["append", [0, 1, 0, 1]]], "t": 1000, "tu": 1000},
             {"k": "txn", "ops": [["delete", [[1, 1], [2, 0], [3, 2]]], ["append", ["auto"]]], "t": 999, "tu": 1000},
             {"k": "txn", "ops": [["delete", [[4, 0], [5, 1]]]], "t": 999, "tu": 998}], "uuid_seed": 2, "t0": 1000},
    # seed C15-b (a delete that stops reading manifests once every path was found once): one path registered by
    # two commits, a second file in between, then the delete -- every registration must go
    {"ops": [{"k": "txn", "ops": [["append", ["auto"]]], "t": 1000, "tu": 1000},
             {"k": "txn", "ops": [["append", ["auto"]]], "t": 1000, "tu": 1000},
             {"k": "txn", "ops": [["append", [["re", 0, 1]]]], "t": 1000, "tu": 1000},
             {"k": "txn", "ops": [["delete", [[1, 1]]]], "t": 1000, "tu": 1000}], "uuid_seed": 3, "t0": 1000},
    # the same file three times: twice inside one append_files call (one manifest), once more under the other
    # spelling by a later commit; deleted together with an unrelated file, re-registered in the deleting transaction
    {"ops": [{"k": "txn", "ops": [["append", [1]]], "t": 1000, "tu": 1000},
             {"k": "txn", "ops": [["append", [["re", 0, 0], ["re", 0, 1]]], ["append", ["auto"]]], "t": 1001, "tu": 1000},
             {"k": "txn", "ops": [["append", [["re", 1, 1], ["re", 0, 0]]]], "t": 1001, "tu": 1002},
             {"k": "txn", "ops": [["delete", [[1, 0]]], ["append", [["re", 0, 1]]]], "t": 1002, "tu": 1002},
             {"k": "txn", "ops": [["delete", [[1, 1], [2, 0]]]], "t": 1002, "tu": 1003}], "uuid_seed": 4, "t0": 1000},
    # seed C15-f (the superseded version taken from the pointer's bytes instead of the resolved current version):
    # a legacy numeric pointer, a pointer to a version that was never committed, and the newest version file lost
    # while the pointer naming it survives -- each followed by commits of different kinds
    {"ops": [{"k": "txn", "ops": [["append", ["auto"]]], "t": 1000, "tu": 1000},
             {"k": "ptr", "form": "legacy"},
             {"k": "txn", "ops": [["append", ["auto"]]], "t": 1000, "tu": 1001},
             {"k": "ptr", "form": "ahead"},
             {"k": "delsnap", "ref": 0, "pick": "current", "tu": 1002},
             {"k": "ptr", "form": "dangling"},
             {"k": "txn", "ops": [["expire", 5000]], "t": 1000, "tu": 1002}], "uuid_seed": 5, "t0": 1000},
    {"ops": [{"k": "txn", "ops": [["append", ["auto"]]], "t": 1000, "tu": 1000},
             {"k": "txn", "ops": [["append", ["auto"]]], "t": 1001, "tu": 1001},
             {"k": "lose"},
             {"k": "txn", "ops": [["append", ["auto"]]], "t": 1002, "tu": 1002},
             {"k": "setmax", "v": "1", "tu": 1003}], "uuid_seed": 6, "t0": 1000},
]


def run(ctx) -> None:
    ctx.rule = ("histories: random operation lists over {append, multi-op transaction, re-registration of listed files, delete_files (3 spellings), expire, "
                "delete_snapshot, retention property, metadata-log bound, empty transaction, garbage_collect, version-pointer faults, lost newest version} with scripted "
                "equal/decreasing/arbitrary timestamps; state compared after every step; a history is distinct by its full op list. "
                "forests: every parent map on <= 5 snapshots (cycles, self loops), maps with None/-1/dangling parents, duplicated ids, "
                "each x every kept subset")
    ctx.trusted_base += [
        "translator/gen_repoint.py (Python ast -> Gallina for the repointing walk; surrounding frame pinned by golden AST)",
        "harness: harness/props/c15.py, harness/lib/metareader.py (independent reader: json + fastavro), harness/lib/coqbuild.py",
    ]
    ctx.assumptions += [
        "fresh_ops: snapshot ids (uuid4 & (2^63-1)) are positive and never repeat; metadata file names never repeat",
        "single committer: histories are sequential (interleavings are property C01)",
        "metadata files named by the metadata log exist because nothing deletes metadata/v*.metadata.json (checked on disk by the oracle after every step, including after garbage_collect)",
    ]
    ctx.proofs(THEOREMS, gen_files=["GenRepoint.v", "GenMeta.v", "GenFileOps.v", "GenCommit.v", "GenEntryCodec.v"])
    ctx.allow_axioms([])
    # implementation-only oracles + correspondence share the history runs
    import time
    t0 = time.time()
    ctx.stats["t_proofs_s"] = round(t0 - ctx.t0, 1)
    try:
        oracle_forests(ctx)
    except Exception as e:  # pragma: no cover
        import traceback
        ctx.proof_problems.append("forest oracle crashed: " + traceback.format_exc()[-800:])
    t1 = time.time()
    ctx.stats["t_forest_oracle_s"] = round(t1 - t0, 1)
    check_histories(ctx)
    t2 = time.time()
    ctx.stats["t_histories_s"] = round(t2 - t1, 1)
    try:
        corr_forests(ctx)
    except RuntimeError as e:
        ctx.proof_problems.append("model evaluation failed: " + str(e)[:600])
    t3 = time.time()
    ctx.stats["t_forest_corr_s"] = round(t3 - t2, 1)
    try:
        corr_units(ctx)
    except RuntimeError as e:
        ctx.proof_problems.append("model evaluation (units) failed: " + str(e)[:600])
    ctx.stats["t_units_s"] = round(time.time() - t3, 1)


def replay(ctx, payload) -> int:
    case = payload.get("case", {})
    if case.get("kind") == "forest":
        patch_library()
        fam = [tuple(x) for x in case["snapshots"]]
        row = real_repoint_row(fam)
        mask = case["kept_mask"]
        got = row[mask] if mask < len(row) else ("hang", mask)
        msg = forest_case_problem(fam, mask, got)
        print("replay:", "STILL FAILS " + msg if msg else f"passes now (survivors' parents {got})")
        return 1 if msg else 0
    hist = case.get("history")
    if hist is None and "broken_correspondence" in payload:
        for name, ds in payload["broken_correspondence"].items():
            if ds and isinstance(ds[0], dict) and "history" in ds[0]:
                hist = ds[0]["history"]
                break
    if hist is None:
        print("replay: payload carries no history; re-run ./bin/check C15 thorough")
        return 2
    r = run_isolated(os.path.join(ctx.scratch, "replay"), hist)
    for kind in ("hang", "crash"):
        if r.get(kind):
            print(f"replay: {kind}: {r[kind]}")
    for k, w in r["oracle"]:
        print("replay: oracle", k, "-", w)
    rc = 1 if (r["oracle"] or r.get("hang") or r.get("crash")) else 0
    try:
        d = compare_history(r, model_states([r])[0]) if r["model_ops"] else None
        if d is not None:
            print("replay: model/implementation disagree:", json.dumps({k: v for k, v in d.items() if k != "history"}, default=str)[:2000])
            rc = 1
    except RuntimeError as e:
        print("replay: model evaluation failed:", str(e)[:300])
    print("replay:", "STILL FAILS" if rc else "passes now")
    return rc
