"""C07 -- Garbage collection fails closed.

Proof      : coq/Props/C07.v over Model/GC.v: for EVERY fault oracle (any number of faults, indexed by storage-call
             number) the collection either aborts before the first delete or deletes only unreferenced, unprotected,
             old files; every damage class of a reachable list / manifest aborts; markers whose stat / delete fails
             keep protecting.  normalize_path, the marker fallback and the constants are regenerated from the source
             (Gen/GenNorm.v); the try/except skeleton of collect & co. is pinned by translator/gen_norm.py.
Markers    : the per-marker decision kernel of _load_inflight_protection is REGENERATED (translator/gen_gcmarker.py ->
             Gen/GenGCMarker.v: age_ok as a function of the stat's answer, None = it raised; is the marker deleted; are its
             targets protected; the translator refuses a loader whose markers are not the result of storage.list_files itself,
             whose handlers are narrower than Exception, or that calls another storage operation).  C07_marker_loop_regenerated:
             Model/GC.v's markers_loop IS the loop built from that kernel; C07_marker_stat_failure_protects /
             C07_marker_kernel_fail_closed: a marker whose stat raises is fresh, not deleted, protects -- the only way a listed
             marker does not protect is a stat that ANSWERED older than the cutoff plus a successful delete;
             C07_marker_stat_fault_keeps_protection: for every fault oracle, a faulted stat of a listed marker leaves the store
             as it was and the marker's targets in the protected set the loop returns.
Tie        : correspondence `gc_faults`: tables with 1-4 retained snapshots (shared manifests, rewritten manifest,
             orphans, a live transaction, a commit in progress, an abandoned marker); a fault is injected at EVERY
             storage operation of the collection x EVERY exception class a backend raises for it {OSError EIO,
             FileNotFoundError / 404 for an object that IS there (listed, then unsearchable / not yet visible / vanished),
             PermissionError, TimeoutError, a non-OSError SDK exception, the local backend's ValueError} + an unusable result
             (exists->False, garbage bytes, listing + "../x").  The backend OBJECT is instrumented (gcsim.TracingStorage: a
             subclass of the backend's own class with list_files / get_modified_time / read_file / open_file / exists /
             delete_file / read_json overridden), not wrapped: a helper method of the backend that is composed from these
             operations (a default implementation in StorageBackend, a convenience added later) has its constituent
             operations recorded and faulted like the collector's own calls.  A sixth table runs on a THIRD-PARTY backend
             (gcsim.minimal_backend: a StorageBackend subclass implementing only the abstract methods, every helper being
             the base class's default).  The same fault plan drives the model; compared: abort phase / completion, exact
             deleted set, keep sets, call trace.
OS level   : BELOW the interface (OS_KINDS, gcsim.os_failing): while ONE operation of the collection runs, the operating system
             refuses the object it is about -- os.stat / os.lstat, os.scandir / os.listdir or open failing with EACCES / ESTALE /
             EIO for that path only (a directory that can be listed but not searched, a stale handle, a failing disk) -- at every
             exists / stat / read / open / listing call.  Oracle only: the collection raises, or its keep sets hold every
             reachable and live file and none of them is deleted.  (Finding on the unchanged library:
             findings/C07-failed-listing-reads-empty-unchanged-tree.log -- LocalStorageBackend.list_files answered [] for a
             marker directory it could not look at and the sweep removed the files of live transactions.)
             The two places where list_files can swallow an OS failure (the guard in front of the walk, os.walk's onerror) are
             REGENERATED (translator/gen_locallist.py -> Gen/GenLocalList.v) as predicates over the failure's class;
             Model/LocalList.v local_list_outcome; C07_local_listing_fails_closed (a listing that returns although something could
             not be looked at comes only from 'not there' failures), C07_marker_listing_raise_aborts (a raising marker listing
             aborts, store unchanged, for every oracle); correspondence `local_listing`: the real list_files under a failing
             stat / scandir of the prefix and of a directory below it x {EACCES, EIO, ESTALE, ENOENT, ENOTDIR} vs the model.
             `gc_damage`: every damage class {missing, garbage, empty, cut inside the Avro block, cut in the header}
             on every reachable list / manifest, plus BYTE-LEVEL damage anywhere in the file -- single-byte flips and
             truncations over the header, the block framing, EVERY record and every sync marker (quick: spread + structural
             offsets; thorough: every offset) -- on tables whose lists and manifests have several records and, in two
             variants, several Avro blocks; plus the STREAM of each list / manifest failing part-way (connection reset,
             short read) at spread / block-boundary offsets.  What a damaged file or faulty stream amounts to (records
             decoded before the failure, exception class) is decided by an independent record-by-record decode; the model
             gets the content class CPartialAvro (decoded, caught) resp. the fault FRaise / FRaiseX, real vs model.  The pointer plane: which
             metadata FILE a collection works from is Model/GCPointer.v (files identified by name, compared by content; the pointer
             resolved twice; collect_pointer = that resolution + Model/GCDoc.v collect_doc on the resolved document:
             C07_pointer_run_safe_partial; the residual lost-pointer window is C07_pointer_run_safe_refuted), tied by `gc_pointer`:
             a fault at every call of both resolutions (pointer exists / read, exists and read_json of the metadata file; raise
             kinds also failing every time) on tables with a dead writer's unpublished leftover, compared on the file worked from /
             abort; BYTE damage of the current metadata file {missing, garbage, empty, truncated} is judged by the oracle only (what
             json.loads makes of bytes is not modelled); what the decoder makes of the DOCUMENT is Model/Doc.v / GCDoc.v (below);
             a stale hint is recorded, not judged.
             Every library call runs under a time limit (SIGALRM) and a worker memory limit: a hang is a `hang:` violation.
Documents  : STRUCTURED damage (harness/lib/docdamage.py): the file stays well-formed JSON / a valid Avro container, but a key is
             dropped, null, of another JSON type (an empty and a non-empty representative of every other type: 0, 7, false, true,
             "", "x", [], [1], {}, {"a": 1}) or a value is emptied in place -- at EVERY key path (first / last array element) of
             the current metadata file, of reachable Avro manifest lists / manifests (schema and records changed together; null in
             all records or only the last) and of the same files in the legacy JSON format (fifth table variant).  The readers'
             demands on these documents are REGENERATED from the source (translator/gen_doc.py -> Gen/GenDoc.v: the shapes of
             _dict_to_metadata and of the record loops / JSON fallbacks of read_manifest(_list)_file as terms of Model/Doc.v) and
             Model/GCDoc.v puts the collector on top: C07_metadata_document_fail_closed (every document: refused = nothing
             deleted, or the collection worked from the manifest lists of ALL its snapshots and is safe for them),
             C07_lost_section_refused (snapshots section missing / null / not a list / a snapshot without a string manifest
             list is never "a table without snapshots"), C07_dangling_current_refused / C07_run_protects_current_snapshot (a
             metadata file whose current_snapshot_id names none of the snapshots it lists -- `snapshots: []`, the current snapshot
             gone from the list -- is refused by collect(); a run kept the current snapshot's list), C07_json_section_lost_aborts (a
             legacy JSON list / manifest without its `manifests` / `files` section, or with anything but a list there, is not an
             empty one), C07_readable_records_complete, C07_structured_damage_aborts.
             Tie: `doc_decode` (the regenerated shape vs the library's own decoder on every damaged metadata document: refused,
             or the same manifest lists), `doc_runs` (every structured-damage run vs collect_doc / gc_run with the document's
             content class: raise with nothing deleted and abort phase, or deleted set, keep sets, call trace).
             Oracle (property text): the collection raises -- any exception -- having deleted nothing, or every reachable and live
             file is still in its keep sets.  Emptied in place (same type; zero records), an array element gone = a well-formed
             document that says something else: recorded, not judged -- unless the metadata document contradicts ITSELF afterwards
             (its current_snapshot_id names none of the snapshots it lists: docdamage.dangling_current): judged.  A legacy JSON
             document without its `manifests` / `files` section (`{}` included) is not a list / manifest: judged.
Oracle /   : implementation only (independent reader): an unparseable reachable file / failing stream -> the collection
search       raises, or its keep sets (observed at _gc_prefix) still hold every reachable and live file; damage that still
             parses to different records is recorded, not judged; whenever collect raised -> GarbageCollectionAborted and the
search       data / manifest file set is unchanged when the fault precedes the first sweep (afterwards: only true
             orphans gone); always deleted & (reachable | live protected) = {}; a marker still present protects.
"""
from __future__ import annotations

import concurrent.futures as cf
import multiprocessing as mp
import os
import random
import shutil
import time
import traceback
from typing import Any, Dict, List, Optional, Tuple

from harness.lib import coqbuild, docdamage, gcsim
from harness.props import c05 as h5

LEVEL = "proof"
THEOREMS = ["C07_fail_closed", "C07_damage", "C07_transient", "C07_partial_decode",
            "C07_pointer_run_safe_partial", "C07_pointer_run_safe_refuted", "C07_pointer_lost_hint_partial", "C07_pointer_raise_aborts",
            "C07_pointer_unreadable_never_used", "C07_marker_keep", "C07_registered_marker_fallback_covers",
            "C07_registered_marker_key_denotes", "C07_basename_marker_fallback_refuted",
            "C07_metadata_document_fail_closed", "C07_lost_section_refused", "C07_dangling_current_refused", "C07_run_protects_current_snapshot",
            "C07_json_section_lost_aborts", "C07_readable_records_complete", "C07_structured_damage_aborts",
            "C07_list_record_without_path_refused",
            "C07_marker_stat_failure_protects", "C07_marker_kernel_fail_closed", "C07_marker_loop_regenerated",
            "C07_marker_stat_fault_keeps_protection", "C07_local_listing_fails_closed", "C07_marker_listing_raise_aborts"]
REQ = gcsim.REQ
TIMEOUT_MS = h5.TIMEOUT_MS

MANIFEST_ENTRY = {
    "level_text": "C07_metadata_document_fail_closed / C07_lost_section_refused / C07_dangling_current_refused / "
                  "C07_run_protects_current_snapshot / C07_json_section_lost_aborts / C07_readable_records_complete / "
                  "C07_structured_damage_aborts (every metadata document, every legacy JSON list / manifest document, every list of "
                  "decoded list / manifest records: a document that lost a section, a key or a string the reachable set is computed "
                  "from -- including a legacy JSON list / manifest without its `manifests` / `files` section, and a metadata file whose "
                  "current_snapshot_id names none of the snapshots it lists (`snapshots: []`) -- is refused: raise, nothing deleted; "
                  "a collection that runs worked from ALL the snapshots / entries the document carries, its current snapshot among "
                  "them) proved over the readers' demands and the collector's checks REGENERATED from _dict_to_metadata / "
                  "read_manifest(_list)_file / collect (Gen/GenDoc.v, Gen/GenNorm.v), tied by running every structured damage (drop / "
                  "null / retype / empty / drop-item at every key path of the metadata JSON, of Avro and legacy-JSON lists and "
                  "manifests) through the library and the model; "
                  "C07_fail_closed (every fault oracle: an abort raised while reachability / in-flight protection is established deletes "
                  "nothing; otherwise only unreferenced, unprotected, old files are deleted), C07_damage (missing or unparseable reachable "
                  "list / manifest aborts before the first sweep, under any additional faults), C07_transient (a run that reaches the sweeps "
                  "read every list and manifest without an effective fault), C07_marker_keep and C07_registered_marker_fallback_covers / C07_registered_marker_key_denotes (the "
                  "regenerated marker key the writer registers a file under and the regenerated fallback of the collector agree, for EVERY path the "
                  "regenerated append_files guard accepts -- any sub-directory of data/ -- and every table-relative path: what is protected when a "
                  "marker's payload cannot be read is exactly the registered file; C07_basename_marker_fallback_refuted: false for markers keyed "
                  "by the basename, the unchanged library) proved in Coq over the call-by-call "
                  "collector model with regenerated path kernel, for both orders of the two preparatory phases (regenerated MARKERS_FIRST); "
                  "C07_pointer_run_safe_partial (the pointer plane CONNECTED to the collector: pointer resolved twice over metadata FILES "
                  "identified by name and compared by content, any unpublished versions on storage, any exists / listing / stat / read "
                  "answers -- when the second pointer read is answered honestly and is not 'no pointer', the collection aborts or runs on "
                  "exactly the published document's manifest lists and satisfies C07_fail_closed's specification for them), "
                  "C07_pointer_raise_aborts, C07_pointer_unreadable_never_used, C07_pointer_lost_hint_partial; the model's "
                  "fault handling is tied to the code by injecting a fault at every storage call of real collections (4 fault kinds; thorough: "
                  "pairs; pointer plane: every call of both resolutions incl. read_json of the metadata file, compared on the FILE worked "
                  "from) and every damage class on every reachable metadata-plane file, comparing abort phase, deleted set and call trace; "
                  "C07_marker_stat_failure_protects / C07_marker_kernel_fail_closed / C07_marker_loop_regenerated / "
                  "C07_marker_stat_fault_keeps_protection (the per-marker decision kernel of _load_inflight_protection REGENERATED "
                  "from the source, Gen/GenGCMarker.v: a marker whose stat raises -- any exception class -- counts as fresh, is not "
                  "deleted and protects; the only way a listed marker does not protect is a stat that answered older than the cutoff "
                  "plus a successful delete; the model's marker loop is the loop built from that kernel; for every fault oracle a "
                  "faulted stat leaves the store unchanged and the marker's targets protected); faults are injected at the backend's "
                  "OWN operations (instrumented subclass: helper methods of the backend composed from them are exercised) with every "
                  "exception class per operation (EIO, 404 for a listed object, EACCES, timeout, SDK error, ValueError), on the local "
                  "backend and on a third-party backend implementing only the abstract interface; C07_local_listing_fails_closed / "
                  "C07_marker_listing_raise_aborts (which OS failures LocalStorageBackend.list_files turns into 'no files', REGENERATED "
                  "from its guard and its os.walk onerror handler, Gen/GenLocalList.v: only 'not there' failures; any other propagates, "
                  "and a raising marker listing aborts the collection with the store unchanged), tied by `local_listing`",
    "level_note": "C07_pointer_run_safe_partial carries the hypothesis `a_hint a2 <> PNone`; the statement without it "
                  "(C07_pointer_run_safe_full) is REFUTED in Coq (C07_pointer_run_safe_refuted): a pointer that looks absent at both "
                  "reads with a dead writer's unpublished higher version on storage makes the scan result the table and files the "
                  "published metadata references are deleted -- for the library a lost pointer is recovered by scanning (C10's known "
                  "finding `unpublished-surfaced`); the check reports it on the real library only when a fault makes the pointer LOOK "
                  "absent by swallowing a raised error (seeded change C07-g), a pointer that answers 'absent' at both reads is recorded, "
                  "not judged; hypothesis of the pointer theorems: `same` (the code's dict comparison of the two TableMetadata objects) "
                  "distinguishes documents with different snapshot manifest lists; "
                  "trusted: Coq kernel; translator/gen_norm.py (incl. the pinned try/except skeleton, the pinned body of "
                  "_require_current_snapshot_listed and where collect() calls it) and translator/gen_doc.py (reader "
                  "shapes; fail closed on any use of the document outside its subset, e.g. a helper that defaults a missing section); "
                  "wf_store; Schema.__post_init__ and the int()-keyed statistics maps are external validations (parameter `ext`, "
                  "measured per document); py_eqb (Python == on decoded values) treats floats that are not integers and bytes as "
                  "unequal to everything; json.loads / fastavro decoding themselves are not modelled: faults and BYTE damage of the "
                  "pointer plane (metadata_manager.refresh(), collect()'s re-read of the hinted file) are judged by the "
                  "implementation-only oracle (any exception, nothing deleted); a value emptied in place (a list / object / string of "
                  "the same type, an Avro container with zero records), or an array that lost an element, leaves a well-formed "
                  "document that says something else (a manifest list with zero records is an empty snapshot; `manifest_list: \"\"` "
                  "is skipped by collect()): recorded, not judged -- unless the metadata document contradicts itself afterwards "
                  "(dangling current_snapshot_id: judged); byte damage that still "
                  "decodes to DIFFERENT records (e.g. a flipped path character) is undetectable without checksums: recorded, not judged, "
                  "not compared; a short read ending exactly on an Avro block boundary likewise; failures BELOW the backend "
                  "interface (while one operation of the collection runs, os.stat / os.scandir / open fail for the object it is about with "
                  "EACCES / ESTALE / EIO: what LocalStorageBackend makes of that -- an exception, 'not a file', an empty listing -- is the "
                  "backend's own code) are injected at every call and judged by the oracle only (raise, or every reachable / live file in "
                  "the keep sets), not modelled and not injected for delete_file; a stale hint naming an older "
                  "existing version is C10's finding and only recorded; an abort raised by a sweep's own listing may follow deletions of "
                  "true orphans (the property's second disjunct) -- stated and proved as such; local backend and a third-party backend "
                  "over the same directory (S3: C09's harness)",
    "technique": "Coq proof for all fault oracles and all documents + reader shapes / collector checks / marker decision kernel regenerated "
                 "by the translator + exhaustive single-fault injection at every storage operation (every exception class; at the "
                 "backend's own operations, on the local and a third-party backend; OS-level refusals below the interface) and structured "
                 "damage at every key path of every metadata-plane document (differential)",
    "design_ref": "DESIGN.md section 5 C07",
}

# every exception class a backend raises for the operation (gcsim.raise_fault): EIO, 404 / ENOENT for an object that IS there
# (listed and then unsearchable / not yet visible / vanished), EACCES, timeout, an SDK error outside OSError, the local
# backend's own ValueError; "bad" = an unusable result
KINDS = {"E": ["raise", "raisex", "bad", "perm", "value"], "O": ["raise", "missing", "raisex", "bad", "perm", "timeout", "value"],
         "R": ["raise", "missing", "raisex", "bad", "perm", "timeout", "value"],
         "L": ["raise", "raisex", "bad", "missing", "perm", "timeout", "value"], "S": ["raise", "missing", "raisex", "perm", "timeout", "value"],
         "D": ["raise", "raisex", "missing", "perm"],
         "J": ["raise", "missing", "raisex", "bad"]}       # J = read_json of a metadata file (pointer plane only)
# BELOW the interface (local backend and backends delegating to it): while ONE operation of the collection runs, the
# operating system refuses the object it is about (gcsim.os_failing).  What the backend makes of that -- an exception, "not a
# file", an empty listing -- is the backend's own code, so these runs are judged by the oracle only (no model).  Not injected
# for delete_file: "cannot be deleted" is not among the property's conditions.
OS_KINDS = {"E": ["os:stat:EACCES", "os:stat:ESTALE"], "S": ["os:stat:EACCES", "os:stat:ESTALE"],
            "R": ["os:stat:EACCES", "os:open:EIO"], "O": ["os:stat:EACCES", "os:open:EIO"],
            "L": ["os:stat:EACCES", "os:scandir:EACCES", "os:scandir:EIO"]}
DAMAGES = ["missing", "garbage", "empty", "cut-block", "cut-header", "json-empty"]


def gcsim_op_name(code: str) -> str:
    return {v: k for k, v in gcsim.OPS.items()}[code]


def role_of(key: str, reach_lists: set, reach_mans: set) -> str:
    if key in reach_lists:
        return "list"
    if key in reach_mans:
        return "manifest"
    if key.startswith(gcsim.INFLIGHT + "/"):
        return "marker"
    if key in ("data", "metadata/manifests", gcsim.INFLIGHT):
        return "dir:" + key
    if key.startswith("data/"):
        return "data-file"
    if key.startswith("metadata/manifests/"):
        return "manifest-file"
    return "metadata"


# ------------------------------------------------------------------------------------------ base tables
ADOPTED_SUBDIR_KEYS = ["data/p1/x.parquet", "data/p2/deep/y.parquet"]


def build_base(base: str, spec: Dict[str, Any]) -> Tuple[str, float]:
    """A table with spec['snaps'] retained snapshots and every kind of protected / unprotected file; all aged old."""
    import logging
    logging.disable(logging.CRITICAL)
    from datashard import create_table
    rng = random.Random(spec["seed"])
    root = os.path.join(base, "tbl")
    t = create_table(root, h5._schema())
    reader = gcsim.IndepReader(root)
    for i in range(spec["snaps"]):
        if spec.get("multi_append") and i == spec["snaps"] - 1:
            tx = t.new_transaction().begin()          # one commit adding several files: a manifest with several records
            for j in range(spec["multi_append"]):
                tx.append_data([{"x": 100 * i + j}])
            tx.commit()
        else:
            t.append_records([{"x": i}])
    if spec.get("rewrite") and spec["snaps"] >= 2:
        cur = h5._current_files(reader)
        tx = t.new_transaction().begin()
        tx.delete_files([cur[rng.randrange(len(cur))]])
        tx.commit()
    if spec.get("expire"):
        snaps = reader.snapshots()
        if len(snaps) >= 2:
            t.snapshot_manager.delete_snapshot(snaps[0]["snapshot_id"])
    if spec.get("dead_writer"):
        leave_dead_writer(t, reader, root, spec["dead_writer"])
    if spec.get("multiblock"):
        reencode_multiblock(root, reader)
    if spec.get("legacy_json"):
        rewrite_legacy_json(root, reader)
    h5._plant(root, "data/orphan_a.parquet", b"PAR1 orphan")
    h5._plant(root, "metadata/manifests/orphan_m.avro", b"orphan manifest")
    if spec.get("live_tx", True):
        tx = t.new_transaction().begin()
        tx.append_data([{"x": 1000}])
        # the transaction object is dropped: its marker and data file stay (a live writer in another process)
    if spec.get("adopt_subdirs"):
        # a live transaction that has ADOPTED pre-built files (Transaction.append_files: any canonical path below data/, so also
        # files in sub-directories,) and has not committed yet: nothing but its markers protects them
        import glob
        from datashard.data_structures import DataFile, FileFormat
        src = sorted(glob.glob(os.path.join(root, "data", "*.parquet")))[0]
        for key in ADOPTED_SUBDIR_KEYS:
            h5._plant(root, key, open(src, "rb").read())
        tx2 = t.new_transaction().begin()
        tx2.append_files([DataFile(file_path=key, file_format=FileFormat.PARQUET, partition_values={}, record_count=1,
                                   file_size_in_bytes=os.path.getsize(src)) for key in ADOPTED_SUBDIR_KEYS])
        # (the transaction object is dropped like the one above)
    if spec.get("pending", True):
        # a commit in progress: manifest written and registered, metadata not yet flipped
        h5._plant(root, "metadata/manifests/manifest_pending_1.avro", b"pending manifest bytes")
        h5._plant(root, "metadata/inflight/manifest_pending_1.avro.inflight", b'{"file_path": "metadata/manifests/manifest_pending_1.avro"}')
    if spec.get("legacy_marker"):
        h5._plant(root, "data/legacy_tx.parquet", b"PAR1 legacy")
        h5._plant(root, "metadata/inflight/legacy_tx.parquet.inflight", b"")
    now = float(int(time.time()))
    if spec.get("abandoned", True):
        h5._plant(root, "data/old_tx.parquet", b"PAR1 abandoned")
        h5._plant(root, "metadata/inflight/old_tx.parquet.inflight", b'{"file_path": "data/old_tx.parquet"}')
        ts = now - 3 * 24 * 3600
        os.utime(os.path.join(root, "metadata/inflight/old_tx.parquet.inflight"), (ts, ts))
    for key in gcsim.list_tree(root):
        if key.startswith("data/") or key.startswith("metadata/manifests/"):
            ts = now - spec["grace"] / 1000.0 - 100.0
            os.utime(os.path.join(root, key), (ts, ts))
    return root, now


def leave_dead_writer(t: Any, reader: gcsim.IndepReader, root: str, kind: str) -> None:
    """Leftovers of a writer that died between writing its new metadata version and flipping the version pointer: the commit
    is carried out for real and the pointer is then put back, so an UNPUBLISHED higher-numbered metadata file (and, for an
    append, its manifest, list and data file) lies around while the table is still published at the old version."""
    hint_path = os.path.join(root, gcsim.HINT_KEY)
    published = open(hint_path, "rb").read()
    snaps = reader.snapshots()
    if kind == "expire" and len(snaps) >= 2:
        tx = t.new_transaction().begin()
        tx.expire_snapshots(max(s["timestamp_ms"] for s in snaps) + 1)       # would drop every snapshot but the current one
        tx.commit()
    elif kind == "delete_snapshot" and len(snaps) >= 2:
        t.snapshot_manager.delete_snapshot(snaps[0]["snapshot_id"])
    else:
        t.append_records([{"x": 7777}])
    with open(hint_path, "wb") as f:
        f.write(published)
    t.metadata_manager.refresh()


def reencode_multiblock(root: str, reader: gcsim.IndepReader) -> None:
    """Re-encode every reachable list / manifest with one Avro block per record: the same records in the layout a writer
    produces once a file outgrows one block (fastavro starts a new block every sync_interval bytes)."""
    import fastavro
    import io
    keys = set()
    for s in reader.snapshots():
        lk, mks, _dks = reader.snapshot_files(s)
        keys.add(lk)
        keys.update(mks)
    for key in keys:
        full = os.path.join(root, key)
        with open(full, "rb") as f:
            rd = fastavro.reader(f)
            schema, recs = rd.writer_schema, list(rd)
        bio = io.BytesIO()
        fastavro.writer(bio, schema, recs, sync_interval=1)
        with open(full, "wb") as f:
            f.write(bio.getvalue())


def rewrite_legacy_json(root: str, reader: gcsim.IndepReader) -> None:
    """Every reachable list / manifest in the legacy JSON format (what a table written by an old version looks like; the
    readers accept it through their JSON fallback)."""
    import fastavro
    todo = []
    for s in reader.snapshots():
        lk, mks, _dks = reader.snapshot_files(s)
        todo += [("list", lk)] + [("manifest", mk) for mk in mks]
    for kind, key in dict((k, (kd, k)) for kd, k in todo).values():
        full = os.path.join(root, key)
        with open(full, "rb") as f:
            recs = list(fastavro.reader(f))
        with open(full, "wb") as f:
            f.write(docdamage.to_legacy_json(kind, recs))


def byte_damages(bs: bytes, thorough: bool, rng: random.Random, exhaustive: bool = True) -> List[Tuple[Any, ...]]:
    """Byte-level damage of an Avro container: single-byte flips and truncations, spread over the whole file and aimed at
    the structure (block counts / sizes, every sync marker, the last record)."""
    n = len(bs)
    sync = bs[-16:] if n >= 32 else b""
    ends, i = [], 0
    while sync:
        j = bs.find(sync, i)
        if j < 0:
            break
        ends.append(j + 16)
        i = j + 16
    body = ends[0] if ends else 0                  # end of the header = start of the first block
    if thorough and exhaustive and n <= 1600:
        offs = list(range(n))
    else:
        m = 160 if thorough else 14
        cand = ({body + (n - body) * q // m for q in range(m)} | {e + d for e in ends[:-1] for d in (0, 1, 2, 3)}
                | {n - 1, n - 16, n - 17, n - 20, body, body + 1, body + 2, body // 2})
        offs = sorted(o for o in cand if 0 <= o < n)
    out: List[Tuple[Any, ...]] = [("flip", o, 0xFF) for o in offs if bs[o] != 0xFF]
    xo = offs[::3] if thorough else rng.sample(offs, min(4, len(offs)))
    out += [("flip", o, bs[o] ^ 0x01) for o in xo]
    if thorough:
        cuts = sorted(set(range(1, n, 7)) | {e + d for e in ends for d in (-17, -16, -1, 0, 1)})
    else:
        cuts = sorted({n * q // 6 for q in range(1, 6)} | {n - 1, n - 17, body + 1} | set(ends[:-1]))
    out += [("cut", c) for c in cuts if 0 < c < n]
    return out


def stream_positions(bs: bytes, thorough: bool) -> List[int]:
    n = len(bs)
    sync = bs[-16:] if n >= 32 else b""
    ends, i = [], 0
    while sync:
        j = bs.find(sync, i)
        if j < 0:
            break
        ends.append(j + 16)
        i = j + 16
    ks = {n * q // 8 for q in range(1, 8)} | {e + d for e in ends for d in (-1, 0, 1, 3)} | {n - 1, n - 8}
    if thorough:
        ks |= set(range(1, n, max(1, n // 60)))
    return sorted(k for k in ks if 0 < k < n)


def judge(spec_grace: int, now: float, reach: set, live: set, markers_before: Dict[str, Any], before: Dict[str, float], after: Dict[str, float],
          real: Dict[str, Any], fault_pos: str, what: str) -> List[Dict[str, str]]:
    """The implementation-only oracle for one (possibly faulted / damaged) collection."""
    viol = []
    gone = set(before) - set(after)
    deleted = {k for k in gone if not k.startswith(gcsim.INFLIGHT + "/")}
    orphans = {k for k in before if (k.startswith("data/") or k.startswith("metadata/manifests/")) and k not in reach and k not in live
               and before[k] * 1000 < now * 1000 - spec_grace}
    lost = sorted(deleted & (reach | live))
    if lost:
        cls = "reachable" if set(lost) & reach else "live-protected"
        viol.append({"key": f"deleted-{cls}:{what}", "what": f"{what}: collection deleted {cls} file(s) {lost[:3]} (raised={real['raised']} {real.get('exc_type')})"})
    if real["raised"]:
        if fault_pos not in ("refresh", "doc") and not real.get("aborted_type_ok"):
            viol.append({"key": f"wrong-exception:{what}", "what": f"{what}: collection raised {real['exc_type']} instead of GarbageCollectionAborted: {real['exc']}"})
        if fault_pos in ("refresh", "pre", "doc") and deleted:
            viol.append({"key": f"abort-after-delete:{what}", "what": f"{what}: collection raised {real['exc_type']} but had already deleted {sorted(deleted)[:3]}"})
        if deleted - orphans:
            viol.append({"key": f"abort-deleted-non-orphan:{what}", "what": f"{what}: raised, and deleted files that are not old unreferenced orphans: {sorted(deleted - orphans)[:3]}"})
    # a marker that is still there protected everything it denotes
    for mk, (_mt, den) in markers_before.items():
        if mk in after and (den & deleted):
            viol.append({"key": f"marker-ignored:{what}", "what": f"{what}: marker {mk} is still present but its target {sorted(den & deleted)} was deleted"})
    return viol


def protection_kept(real: Dict[str, Any], reach: set, live: set) -> bool:
    """The property's second disjunct for a collection that did NOT raise: the sets the sweeps were told to keep still
    contain every reachable and every live-protected file (observed at _gc_prefix, independent of file ages)."""
    import posixpath
    kept = {posixpath.normpath(k) for _prefix, ks in real.get("keep_sets") or [] for k in ks}
    need = {k for k in (reach | live) if k.startswith("data/") or k.startswith("metadata/manifests/")}
    return need <= kept


def run_table(spec: Dict[str, Any]) -> Dict[str, Any]:
    """All injections and damages on one base table (runs in a worker process).  spec["only"]: one descriptor (replay)."""
    import logging
    logging.disable(logging.CRITICAL)
    out: Dict[str, Any] = {"runs": [], "violations": [], "stats": {"calls": 0, "fault_runs": 0, "damage_runs": 0, "byte_damage_runs": 0,
                                                                    "stream_fault_runs": 0, "raised": 0, "absorbed": 0, "still_parses_not_judged": 0,
                                                                    "stream_faults_undetectable_short_read": 0, "timeouts": 0}}
    base = spec["base"]
    only = spec.get("only")
    thorough = bool(spec.get("thorough"))
    limit = float(spec.get("case_timeout", 30))
    shutil.rmtree(base, ignore_errors=True)
    os.makedirs(base)
    try:
        from datashard import load_table
        with gcsim.bounded(120):
            root, now = build_base(os.path.join(base, "base"), spec)
        grace = spec["grace"]
        reader0 = gcsim.IndepReader(root)
        reach = reader0.reachable()
        snaps_meta = reader0.snapshots()
        list_keys: List[str] = []
        man_keys: List[str] = []
        for sm in snaps_meta:
            if not sm.get("manifest_list"):
                continue
            lk, mks, _d = reader0.snapshot_files(sm)
            if lk not in list_keys:
                list_keys.append(lk)
            for mk in mks:
                if mk not in man_keys:
                    man_keys.append(mk)
        reach_lists, reach_mans = set(list_keys), set(man_keys)
        targets = [("list", i, k) for i, k in enumerate(list_keys)] + [("manifest", i, k) for i, k in enumerate(man_keys)]
        live = reader0.live_protected(now, TIMEOUT_MS)
        if spec.get("adopt_subdirs"):
            # what the live adopting transaction REGISTERED (ground truth, not what the markers on disk happen to say)
            live |= set(ADOPTED_SUBDIR_KEYS)
        markers0 = reader0.markers()
        snaps = [sm.get("manifest_list") or "" for sm in snaps_meta]
        base_store = gcsim.store_term(root)
        n = [0]

        def fresh_copy() -> str:
            n[0] += 1
            dst = os.path.join(base, f"run{n[0]}", "tbl")
            os.makedirs(os.path.dirname(dst))
            gcsim.copy_table(root, dst)
            return dst

        def one(plan: Optional[List[Dict[str, Any]]], damage: Optional[Tuple[str, Any]], pos: str, what: str,
                desc: Optional[Dict[str, Any]] = None) -> Dict[str, Any]:
            dst = fresh_copy()
            store = None
            before: Dict[str, float] = {}
            try:
                with gcsim.bounded(limit):
                    t = load_table(dst)          # opened while intact; the damage happens before the collection
                    if damage is not None:
                        apply_damage(dst, *damage)
                        if not isinstance(damage[1], dict):      # structured damage: the document goes to Model/Doc.v, not the store
                            store = gcsim.store_term(dst)
                    before = gcsim.list_tree(dst)
                    real = gcsim.run_collect(t, grace, now, plan, backend=spec.get("backend"))
                after = gcsim.list_tree(dst)
                viol = judge(grace, now, reach, live, markers0, before, after, real, pos, what)
            except (gcsim.CaseTimeout, MemoryError) as e:
                out["stats"]["timeouts"] += 1
                real = {"raised": True, "exc_type": type(e).__name__, "exc": str(e), "phase": -1, "trace": [], "keep_sets": [], "unknown": [],
                        "aborted_type_ok": False}
                after = gcsim.list_tree(dst)
                viol = [{"key": f"hang:{what}", "what": f"{what}: the collection did not finish within {limit:.0f} s / its memory limit ({type(e).__name__})"}]
            shutil.rmtree(os.path.dirname(dst), ignore_errors=True)
            for v in viol:
                v["desc"] = desc
            return {"real": {k: real.get(k) for k in ("raised", "exc_type", "exc", "phase", "trace", "keep_sets", "unknown", "aborted_type_ok")},
                    "before": before, "after": after, "plan": plan, "damage": damage, "pos": pos, "what": what, "violations": viol, "store": store,
                    "desc": desc}

        def wanted(desc: Dict[str, Any]) -> bool:
            if only is None:
                return True
            return all(only.get(k) == v for k, v in desc.items() if k in only)

        clean = one(None, None, "none", "fault-free")
        out["clean"] = clean
        T = clean["real"]["trace"]
        out["stats"]["calls"] = len(T)

        def pos_of(op: str, key: str) -> str:
            """'sweep': a call of _gc_prefix (its listing, or stat / delete of a listed file); 'pre': reachability / markers."""
            if op == "L":
                return "sweep" if key in ("data", "metadata/manifests") else "pre"
            if op in ("S", "D") and not key.startswith(gcsim.INFLIGHT + "/"):
                return "sweep"
            return "pre"
        # ---- single faults at every call
        occ: Dict[Tuple[str, str], int] = {}
        rng = random.Random(spec["seed"] + 1)
        for i, (op, key, _f) in enumerate(T):
            o = occ.get((op, key), 0)
            occ[(op, key)] = o + 1
            pos = pos_of(op, key)
            kinds = KINDS[op] if spec["all_kinds"] else ["raise"] + rng.sample(KINDS[op][1:], 1)
            for kind in kinds:
                what = f"{kind}@{op}:{role_of(key, reach_lists, reach_mans)}"
                desc = {"type": "fault", "what": what}
                if not wanted(desc):
                    continue
                r = one([{"op": op, "key": key, "occ": o, "kind": kind}], None, pos, what, desc)
                out["runs"].append(r)
                out["stats"]["fault_runs"] += 1
            for kind in OS_KINDS.get(op, []):
                what = f"{kind}@{op}:{role_of(key, reach_lists, reach_mans)}"
                desc = {"type": "fault", "what": what}
                if not wanted(desc):
                    continue
                r = one([{"op": op, "key": key, "occ": o, "kind": kind}], None, pos, what, desc)
                r["os_level"] = True
                if not r["real"]["raised"] and not protection_kept(r["real"], reach, live):
                    gone = sorted((set(r["before"]) - set(r["after"])) & (reach | live))
                    r["violations"].append({"key": f"os-failure-ignored:{what}", "desc": desc,
                                            "what": f"{what}: while {gcsim_op_name(op)}({key}) ran, the operating system refused the object "
                                                    f"({kind.split(':')[2]} on {kind.split(':')[1]}); the collection completed with reachable / live "
                                                    f"files missing from its keep sets, deleting {gone[:4]}"})
                out["runs"].append(r)
                out["stats"]["os_fault_runs"] = out["stats"].get("os_fault_runs", 0) + 1
        # ---- double faults (thorough)
        for _ in range(spec.get("pairs", 0) if only is None else 0):
            i, j = sorted(rng.sample(range(len(T)), 2))
            plan = []
            occ2: Dict[Tuple[str, str], int] = {}
            for idx, (op, key, _f) in enumerate(T):
                o = occ2.get((op, key), 0)
                occ2[(op, key)] = o + 1
                if idx in (i, j):
                    plan.append({"op": op, "key": key, "occ": o, "kind": rng.choice(KINDS[op])})
            pos = "sweep" if any(pos_of(p["op"], p["key"]) == "sweep" for p in plan) else "pre"
            what = "double:" + "+".join(f"{p['kind']}@{p['op']}:{role_of(p['key'], reach_lists, reach_mans)}" for p in plan)
            out["runs"].append(one(plan, None, pos, what, {"type": "fault", "what": what}))
            out["stats"]["fault_runs"] += 1
        # ---- the stream of a reachable list / manifest misbehaves PART-WAY (connection reset, short read): what that amounts to
        #      is decided by decoding the same faulty stream independently (fastavro only)
        avro_targets = [] if spec.get("legacy_json") or spec.get("faults_only") else targets        # byte positions / "still parses" are decided by an Avro decode
        for role, ordinal, key in avro_targets:
            bs = open(os.path.join(root, key), "rb").read()
            orig = gcsim.avro_probe(gcsim.as_file(bs))
            for mode in ("raise", "eof"):
                seen_effect = set()
                for k in stream_positions(bs, thorough):
                    desc = {"type": "stream", "target": [role, ordinal], "mode": mode, "k": k}
                    if not wanted(desc):
                        continue
                    pr = gcsim.avro_probe(gcsim.FaultyStream(bs, mode, k))
                    if pr["state"] == "complete":
                        if pr["paths"] != orig["paths"]:
                            out["stats"]["stream_faults_undetectable_short_read"] += 1     # ends exactly on a block boundary
                        continue
                    effect = (len(pr["paths"]), pr["caught"])
                    if not thorough and only is None and effect in seen_effect:
                        continue                     # quick: one position per (records decoded before the failure, exception class)
                    seen_effect.add(effect)
                    code = 1 if pr["caught"] else 2
                    what = f"stream-{mode}@O:{role}"
                    r = one([{"op": "O", "key": key, "occ": 0, "kind": "stream", "mode": mode, "k": k, "code": code}], None, "pre", what, desc)
                    r["decoded_before_failure"] = len(pr["paths"])
                    if not r["real"]["raised"] and not protection_kept(r["real"], reach, live):
                        r["violations"].append({"key": f"stream-fault-ignored:{mode}:{role}", "desc": desc,
                                                "what": f"the stream of reachable {role} #{ordinal} ({len(orig['paths'])} records) failed at byte {k} of {len(bs)} "
                                                        f"({mode}; {len(pr['paths'])} record(s) decoded first; {pr['error']}) and the collection completed with reachable files missing from its keep sets, "
                                                        f"deleting {sorted(set(r['before']) - set(r['after']))[:4]}"})
                    out["runs"].append(r)
                    out["stats"]["stream_fault_runs"] += 1
        # ---- every damage class on every reachable list / manifest
        for role, ordinal, key in targets:
            for dmg in DAMAGES:
                what = f"damage:{dmg}:{role}"
                desc = {"type": "damage", "target": [role, ordinal], "damage": dmg}
                if not wanted(desc):
                    continue
                r = one(None, (key, dmg), "pre", what, desc)
                # "json-empty" (the file now holds `{}`): a JSON object without the `manifests` / `files` section is not a list /
                # manifest without entries -- it does not parse as a list / manifest at all: judged like every other class
                if not r["real"]["raised"] and not protection_kept(r["real"], reach, live):
                    gone = sorted((set(r["before"]) - set(r["after"])) & (reach | live))
                    r["violations"].append({"key": f"damage-not-detected:{dmg}:{role}", "desc": desc,
                                            "what": f"reachable {role} {key} damaged ({dmg}) and the collection completed with reachable / live files "
                                                    f"missing from its keep sets, deleting {gone[:4]} ({len(gone)} reachable / live file(s) in all)"})
                out["runs"].append(r)
                out["stats"]["damage_runs"] += 1
        # ---- byte-level damage anywhere in the file: single-byte flips and truncations (header, block framing, EVERY record,
        #      every sync marker).  Whether the damaged bytes still parse is decided by an independent full decode.
        for role, ordinal, key in avro_targets:
            bs = open(os.path.join(root, key), "rb").read()
            orig = gcsim.avro_probe(gcsim.as_file(bs))
            seen_effect = set()
            for dmg in byte_damages(bs, thorough, rng, bool(spec.get("exhaustive", True))):
                desc = {"type": "damage", "target": [role, ordinal], "damage": list(dmg)}
                if not wanted(desc):
                    continue
                new = damaged_bytes(bs, dmg)
                pr = gcsim.avro_probe(gcsim.as_file(new))
                still = pr["state"] == "complete"
                same_prefix = pr["records"] == orig["records"][:len(pr["records"])]
                effect = (dmg[0], pr["state"], len(pr["paths"]), pr["caught"], same_prefix)
                if not thorough and only is None and effect in seen_effect and dmg[0] == "flip" and rng.random() < 0.5:
                    continue
                seen_effect.add(effect)
                what = f"damage:{dmg[0]}:{role}"
                r = one(None, (key, dmg), "pre", what, desc)
                r["decoded_before_failure"] = len(pr["paths"])
                if not same_prefix:
                    r["no_model"] = True     # records that decode to something else: what the library's own field checks make of
                    #                          them is not modelled (the oracle below still applies when the file is unparseable)
                if still and pr["records"] != orig["records"]:
                    r["violations"], r["not_judged"] = [], True        # damage that still parses to something else: not judged
                    out["stats"]["still_parses_not_judged"] += 1
                elif not still and not r["real"]["raised"] and not protection_kept(r["real"], reach, live):
                    r["violations"].append({"key": f"damage-not-detected:{dmg[0]}:{role}", "desc": desc,
                                            "what": f"reachable {role} #{ordinal} ({len(orig['paths'])} records, {len(bs)} bytes) damaged by {list(dmg)}: an independent "
                                                    f"decode fails after {len(pr['paths'])} record(s) ({pr['error']}), yet the collection completed with reachable files missing from its keep sets, "
                                                    f"deleting {sorted(set(r['before']) - set(r['after']))[:4]}"})
                out["runs"].append(r)
                out["stats"]["byte_damage_runs"] += 1
        # ---- the pointer plane (oracle only: metadata_manager.refresh is outside the model): the current metadata file missing
        # or unparseable must make the collection raise without deleting; a stale hint is F-C10c territory (recorded only)
        hint = open(os.path.join(root, gcsim.HINT_KEY)).read().strip()
        cur_meta = "metadata/" + (f"v{hint}.metadata.json" if hint.isdigit() else hint)
        older = sorted(k for k in gcsim.list_tree(root) if gcsim.is_pointer_plane(k) and k.startswith("metadata/v") and k != cur_meta)
        for dmg in ["missing", "garbage", "empty", "cut-header"]:
            what = f"damage:{dmg}:current-metadata"
            desc = {"type": "damage", "target": ["current-metadata", 0], "damage": dmg}
            if not wanted(desc):
                continue
            r = one(None, (cur_meta, dmg), "refresh", what, desc)
            r["store"], r["pointer_plane"] = None, True
            if not r["real"]["raised"]:
                r["violations"].append({"key": f"damage-not-detected:{dmg}:current-metadata", "desc": desc,
                                        "what": f"the current metadata file {cur_meta} is damaged ({dmg}) and the collection completed "
                                                f"(deleted {sorted(set(r['before']) - set(r['after']))[:3]})"})
            out["runs"].append(r)
            out["stats"]["damage_runs"] += 1
        if older and only is None:
            r = one(None, (gcsim.HINT_KEY, "stale:" + older[0].split("/", 1)[1]), "refresh", "damage:stale-hint")
            r["store"], r["pointer_plane"], r["not_judged"], r["violations"] = None, True, True, []
            out["stats"]["stale_hint_completed_deleting"] = len(set(r["before"]) - set(r["after"])) if not r["real"]["raised"] else -1
            out["runs"].append(r)
        # ---- STRUCTURED damage of the documents (harness/lib/docdamage.py): the file is still good JSON / a good Avro container,
        #      but a key is gone, null, of another type, or a list is emptied -- at every key path of the current metadata file
        #      and of reachable lists / manifests.  Judged by the property's text: the collection raises (any exception) having
        #      deleted nothing, or every reachable and live file is still in its keep sets and on storage.  A value emptied in
        #      place (same type) leaves a well-formed document that says something else: recorded, not judged.
        import json
        full_ops = (thorough and bool(spec.get("exhaustive", True))) or only is not None

        def doc_run(key: str, fmt: str, role: str, ordinal: int, op: Dict[str, Any], size: str) -> None:
            desc = {"type": "doc", "target": [role, ordinal], "op": op}
            if not wanted(desc):
                return
            lab, pl = docdamage.op_label(op), docdamage.path_label(op["path"])
            what = f"doc:{lab}:{role}:{pl}"
            r = one(None, (key, dict(op, doc=fmt)), "doc", what, desc)
            r["store"], r["no_model"], r["doc"] = None, True, {"fmt": fmt, "role": role, "op": op, "key": key}
            try:
                r["doc"]["model"] = doc_model_inputs(fmt, role, doc_damaged_bytes(open(os.path.join(root, key), "rb").read(), dict(op, doc=fmt)))
            except Exception as e:  # noqa: BLE001 - reported by the correspondence as a case without a model
                r["doc"]["model_error"] = f"{type(e).__name__}: {e}"[:200]
            out["stats"]["doc_damage_runs"] = out["stats"].get("doc_damage_runs", 0) + 1
            gone = sorted((set(r["before"]) - set(r["after"])) & (reach | live))
            # A legacy JSON list / manifest that LOST its `manifests` / `files` section (key dropped, null, or anything but a list
            # there) is not a list / manifest without entries: the document no longer says what the snapshot consists of --
            # unparseable as a list / manifest, judged like every other drop / null / retype.
            # A value emptied in place, an array that lost an element, an Avro container without records is a well-formed
            # document that says something else: not judged -- UNLESS the document contradicts itself afterwards: a metadata
            # file whose current_snapshot_id names none of the snapshots it still lists (`snapshots: []`, the current snapshot
            # gone from the list) cannot be trusted about its snapshots (commits and reads refuse it as inconsistent).
            says_something_else = op["op"] in ("empty", "zero-records", "drop-item")
            dangling = False
            if role == "current-metadata" and says_something_else:
                try:
                    dangling = docdamage.dangling_current(json.loads(doc_damaged_bytes(open(os.path.join(root, key), "rb").read(), dict(op, doc=fmt))))
                except Exception:  # noqa: BLE001
                    dangling = False
                if dangling:
                    out["stats"]["doc_dangling_current_judged"] = out["stats"].get("doc_dangling_current_judged", 0) + 1
            if says_something_else and not dangling:
                r["violations"], r["not_judged"] = [], True
                out["stats"]["doc_emptied_in_place_not_judged"] = out["stats"].get("doc_emptied_in_place_not_judged", 0) + 1
                if gone:
                    out["stats"]["doc_emptied_in_place_deleted_reachable"] = out["stats"].get("doc_emptied_in_place_deleted_reachable", 0) + 1
            elif not r["real"]["raised"] and not protection_kept(r["real"], reach, live):
                why = (f"its current_snapshot_id names none of the snapshots it lists after {lab} at {'/'.join(map(str, op['path']))}"
                       if dangling else f"its key path {'/'.join(map(str, op['path']))} was damaged ({lab})")
                r["violations"].append({"key": f"doc-damage-not-detected:{lab}:{role}:{pl}", "desc": desc,
                                        "what": f"{role} #{ordinal} ({key}, {size}) is still well-formed {fmt.upper()} but {why}: "
                                                f"the collection completed with reachable / live "
                                                f"files missing from its keep sets, deleting {gone[:4]} ({len(gone)} reachable / live file(s) in all)"})
            out["runs"].append(r)

        if not (only is not None and only.get("type") not in (None, "doc")) and not spec.get("faults_only"):
            meta_doc = json.loads(open(os.path.join(root, cur_meta)).read())
            # quick: every operation on the paths reachability flows through on every table; the other paths of the (same) metadata
            # format are covered completely on the tables with 1 and 2 snapshots and by a seeded third of them on the larger ones
            thin = (not full_ops) and (spec["snaps"] > 2 or bool(spec.get("legacy_json")))
            for op in docdamage.json_ops(meta_doc, full_ops, rng):
                if thin and not docdamage.is_focus(op["path"]) and rng.random() < 0.67:
                    continue
                doc_run(cur_meta, "json", "current-metadata", 0, op, f"{len(meta_doc.get('snapshots') or [])} snapshot(s)")
            doc_targets = list(targets)
            if not full_ops:
                # quick: the newest list, the manifest with the most records, and one more of each chosen by the seed
                by_role = {"list": [t for t in targets if t[0] == "list"], "manifest": [t for t in targets if t[0] == "manifest"]}
                doc_targets = []
                for role in ("list", "manifest"):
                    ts = by_role[role]
                    if not ts:
                        continue
                    sizes = {t: len(gcsim.avro_probe(open(os.path.join(root, t[2]), "rb"))["paths"]) for t in ts}
                    first = ts[-1] if role == "list" else max(ts, key=lambda t: sizes[t])
                    rest = [t for t in ts if t != first]
                    doc_targets += [first] + (rng.sample(rest, 1) if rest else [])
            for role, ordinal, key in doc_targets:
                bs = open(os.path.join(root, key), "rb").read()
                try:
                    schema, recs = docdamage.avro_load(bs)
                except Exception:  # noqa: BLE001 - a legacy JSON file
                    jdoc = json.loads(bs.decode("utf-8"))
                    for op in docdamage.json_ops(jdoc, full_ops, rng):
                        doc_run(key, "json", role, ordinal, op, "legacy JSON")
                    continue
                for op in docdamage.avro_ops(schema, recs, full_ops, rng):
                    if docdamage.apply_avro_op(schema, recs, op) is None:
                        continue
                    doc_run(key, "avro", role, ordinal, op, f"{len(recs)} record(s)")
        for r in out["runs"]:
            out["stats"]["raised" if r["real"]["raised"] else "absorbed"] += 1
            out["violations"].extend(r["violations"])
        entries = []
        for key, mt in sorted(gcsim.list_tree(root).items()):
            with open(os.path.join(root, key), "rb") as f:
                entries.append([key, int(round(mt * 1000)), gcsim.content_term(gcsim.classify(key, f.read()))])
        out["model"] = {"snaps": snaps, "store": base_store, "now_ms": int(now * 1000), "grace": grace, "tp": root, "entries": entries}
        out["shape"] = {"lists": [len(gcsim.avro_probe(open(os.path.join(root, k), "rb"))["paths"]) for k in list_keys],
                        "manifests": [len(gcsim.avro_probe(open(os.path.join(root, k), "rb"))["paths"]) for k in man_keys]}
    except (gcsim.CaseTimeout, MemoryError) as e:
        out["violations"].append({"key": "hang:build", "what": f"building the base table did not finish ({type(e).__name__}: {e})", "desc": None})
    except Exception:
        out["harness_error"] = traceback.format_exc()[-1500:]
    finally:
        shutil.rmtree(base, ignore_errors=True)
    return out


def damaged_bytes(bs: bytes, dmg: Tuple[Any, ...]) -> bytes:
    if dmg[0] == "flip":
        return bs[:dmg[1]] + bytes([dmg[2]]) + bs[dmg[1] + 1:]
    if dmg[0] == "cut":
        return bs[:dmg[1]]
    raise ValueError(dmg)


def schema_ext(doc: Any) -> bool:
    """The external validation of Model/Doc.v `SExt "Schema.fields"`, measured: does Schema(...) accept every item of the
    document's schemas section (vacuously true when the section cannot be walked: the reader refuses the document anyway)."""
    from datashard import Schema
    try:
        items = [it for it in doc["schemas"] if isinstance(it, dict) and "schema_id" in it and "fields" in it]
    except Exception:  # noqa: BLE001
        return True
    for it in items:
        try:
            Schema(schema_id=it["schema_id"], fields=it["fields"], schema_string=it.get("schema_string", ""))
        except Exception:  # noqa: BLE001
            return False
    return True


def intkey_ext(recs: List[Any]) -> bool:
    """SExt "intkey_map": an optional statistics map is falsy, or a dict whose keys int() accepts."""
    for r in recs:
        d = r.get("data_file") if isinstance(r, dict) else None
        if not isinstance(d, dict):
            continue
        for k in ("lower_bounds", "upper_bounds", "column_sizes", "value_counts", "null_value_counts"):
            v = d.get(k)
            if not v:
                continue
            if not isinstance(v, dict):
                return False
            for kk in v:
                try:
                    int(kk)
                except Exception:  # noqa: BLE001
                    return False
    return True


def doc_model_inputs(fmt: str, role: str, new: bytes) -> Dict[str, Any]:
    """The damaged document as input of Model/GCDoc.v: the decoded document (json / fastavro, independent of datashard) as a
    `jv` term, the external validations measured, and -- for the metadata file -- what the library's own decoder makes of it."""
    import json
    if role == "current-metadata":
        doc = json.loads(new.decode("utf-8"))
        from datashard.metadata_manager import MetadataManager
        try:
            md = MetadataManager._dict_to_metadata(MetadataManager.__new__(MetadataManager), doc)
            real = [1, [sn.manifest_list for sn in md.snapshots]]
        except Exception as e:  # noqa: BLE001
            real = [0, [], type(e).__name__]
        return {"kind": "metadata", "term": docdamage.jv(doc), "ext": schema_ext(doc), "real_decode": real}
    if fmt == "json":
        return {"kind": role + "-json", "term": docdamage.jv(json.loads(new.decode("utf-8"))), "ext": True}
    _schema, recs = docdamage.avro_load(new)
    return {"kind": role + "-avro", "term": "[" + "; ".join(docdamage.jv(r) for r in recs) + "]", "ext": intkey_ext(recs)}


def doc_damaged_bytes(bs: bytes, dmg: Dict[str, Any]) -> bytes:
    """Structured damage (harness/lib/docdamage.py) of a JSON document or an Avro container."""
    import json
    if dmg["doc"] == "json":
        return json.dumps(docdamage.apply_json_op(json.loads(bs.decode("utf-8")), dmg), indent=2).encode("utf-8")
    schema, recs = docdamage.avro_load(bs)
    new = docdamage.apply_avro_op(schema, recs, dmg)
    if new is None:
        raise ValueError(f"no such container: {dmg}")
    return new


def apply_damage(root: str, key: str, dmg: Any) -> None:
    full = os.path.join(root, key)
    st = os.stat(full)
    bs = open(full, "rb").read()
    if isinstance(dmg, dict):
        with open(full, "wb") as f:
            f.write(doc_damaged_bytes(bs, dmg))
        os.utime(full, (st.st_mtime, st.st_mtime))
        return
    if isinstance(dmg, (tuple, list)):
        with open(full, "wb") as f:
            f.write(damaged_bytes(bs, tuple(dmg)))
        os.utime(full, (st.st_mtime, st.st_mtime))
        return
    if dmg == "missing":
        os.remove(full)
        return
    if dmg.startswith("stale:"):
        with open(full, "w") as f:
            f.write(dmg[6:])
        return
    new = {"garbage": b"\x00\xff this is not a manifest \x01", "empty": b"", "cut-block": bs[:-20], "cut-header": bs[: len(bs) // 2], "json-empty": b"{}"}[dmg]
    with open(full, "wb") as f:
        f.write(new)
    os.utime(full, (st.st_mtime, st.st_mtime))


# ------------------------------------------------------------------------------------------ refresh-phase faults (oracle only)
def version_of(key: str) -> int:
    import re
    return int(re.match(r"^metadata/v(\d+)", key).group(1))


def pointer_expr(files: List[List[Any]], published: str, rec: Dict[str, Any]) -> str:
    """The fault of one pointer-plane run as the answers of Model/GCPointer.v (layer 1, D := string: a file's content is
    its own name, `same` := String.eqb -- no two metadata files of these tables hold the same metadata).  Occurrence 0 of a
    call is refresh()'s resolution (answers a1), occurrence 1 the collector's own (a2); "*" both.  A raising kind on the
    pointer = PRaise, an unusable result = PNone; exists: XRaise / XFalse; listing / stat / read_json: raises."""
    from harness.lib.coqio import to_coq
    ans = {i: {"hint": f"(PSome {to_coq(published)})", "ex": "(fun _ : string => XTrue)", "list": "false", "stat": "(fun _ : string => false)",
               "read": "(fun _ : string => false)"} for i in (0, 1)}
    which = [0, 1] if rec["occ"] == "*" else [rec["occ"]]
    name = rec["key"].split("/", 1)[1] if "/" in rec["key"] else rec["key"]
    only = f"(fun n : string => String.eqb n {to_coq(name)})"
    for i in which:
        if i not in (0, 1):
            continue
        if rec["role"] == "hint":
            ans[i]["hint"] = "PNone" if rec["kind"] == "bad" else "PRaise"
        elif rec["role"] == "metadata-file" and rec["op"] == "E":
            ans[i]["ex"] = f"(fun n : string => if String.eqb n {to_coq(name)} then {'XFalse' if rec['kind'] == 'bad' else 'XRaise'} else XTrue)"
        elif rec["role"] == "metadata-file" and rec["op"] == "J":
            ans[i]["read"] = only
        elif rec["role"] == "metadata-file" and rec["op"] == "S":
            ans[i]["stat"] = only
        elif rec["role"] == "metadata-dir" and rec["op"] == "L" and rec["kind"] != "bad":
            ans[i]["list"] = "true"
    fs = "[" + "; ".join(f"mkMF {to_coq(n)} {v}%nat ({mt})%Z (Some {to_coq(n)})" for n, v, mt in files) + "]"
    a = [f"(mkA {ans[i]['hint']} {ans[i]['ex']} {ans[i]['list']} {ans[i]['stat']} {ans[i]['read']})" for i in (0, 1)]
    return f"render_resolve (collect_resolve String.eqb {a[0]} {a[1]} {fs})"


def refresh_faults(spec: Dict[str, Any]) -> Dict[str, Any]:
    import logging
    logging.disable(logging.CRITICAL)
    out: Dict[str, Any] = {"violations": [], "runs": 0, "records": []}
    base = spec["base"] + "-refresh"
    shutil.rmtree(base, ignore_errors=True)
    os.makedirs(base)
    try:
        from datashard import load_table
        root, now = build_base(os.path.join(base, "base"), spec)
        reader0 = gcsim.IndepReader(root)
        reach, live, markers0 = reader0.reachable(), reader0.live_protected(now, TIMEOUT_MS), reader0.markers()
        probe = os.path.join(base, "probe", "tbl")
        os.makedirs(os.path.dirname(probe))
        gcsim.copy_table(root, probe)
        pre = gcsim.run_collect(load_table(probe), spec["grace"], now, backend=spec.get("backend"))["pre_trace"]   # refresh() + the hint check
        hint = open(os.path.join(root, gcsim.HINT_KEY)).read().strip()
        out["published"] = f"v{hint}.metadata.json" if hint.isdigit() else hint
        # the metadata files on storage in the order the backend lists them (the scan keeps the first among equals)
        listed = [k.replace(os.sep, "/") for k in load_table(root).storage.list_files("metadata")]
        out["files"] = [[k.split("/", 1)[1], version_of(k), int(round(os.path.getmtime(os.path.join(root, k)) * 1000))]
                        for k in listed if gcsim.is_pointer_plane(k) and k.startswith("metadata/v")]
        occ: Dict[Tuple[str, str], int] = {}
        k = 0
        for (op, key, _f) in pre:
            if op.startswith("?"):
                continue
            o = occ.get((op, key), 0)
            occ[(op, key)] = o + 1
            prole = "hint" if key == gcsim.HINT_KEY else "metadata-dir" if key == "metadata" else "metadata-file"
            # one occurrence failing (transient), and -- for the kinds that RAISE, i.e. are visibly failures -- the call failing
            # every time during this collection (a pointer that merely LOOKS absent or garbled every time is, for the library,
            # a lost pointer: recovered by scanning, C10; not judged here)
            plans = [(kind, o, f"{kind}@refresh:{op}:{prole}#{o}") for kind in KINDS[op]]
            if o == 0:
                plans += [(kind, "*", f"{kind}*@refresh:{op}:{prole}") for kind in KINDS[op] if kind != "bad"]
            for kind, o_sel, what in plans:
                if spec.get("only") and spec["only"].get("what") != what:
                    continue
                k += 1
                dst = os.path.join(base, f"r{k}", "tbl")
                os.makedirs(os.path.dirname(dst))
                gcsim.copy_table(root, dst)
                before = gcsim.list_tree(dst)
                try:
                    with gcsim.bounded(30):
                        t2 = load_table(dst)
                        real = gcsim.run_collect(t2, spec["grace"], now, [{"op": op, "key": key, "occ": o_sel, "kind": kind}], backend=spec.get("backend"))
                except (gcsim.CaseTimeout, MemoryError) as e:
                    out["violations"].append({"key": f"hang:{what}", "what": f"{what}: the collection did not finish ({type(e).__name__})", "desc": {"what": what}})
                    continue
                after = gcsim.list_tree(dst)
                loaded = [c[1] for c in real["pre_trace"] if c[0] == "J"]
                out["records"].append({"what": what, "op": op, "key": key, "role": prole, "occ": o_sel, "kind": kind, "raised": real["raised"],
                                       "used": loaded[0].split("/", 1)[1] if loaded else None})
                vs = judge(spec["grace"], now, reach, live, markers0, before, after, real, "refresh" if real["raised"] else "none", what)
                for v in vs:
                    v["desc"] = {"what": what}
                    v["what"] += f" [dead-writer leftover: {spec.get('dead_writer')}; pointer-plane calls: {[(c[0], c[1]) for c in pre][:8]}]"
                out["violations"].extend(vs)
                out["runs"] += 1
                shutil.rmtree(os.path.dirname(dst), ignore_errors=True)
    except Exception:
        out["harness_error"] = traceback.format_exc()[-1500:]
    finally:
        shutil.rmtree(base, ignore_errors=True)
    return out


# ------------------------------------------------------------------------------------------ campaign
def make_specs(ctx) -> List[Dict[str, Any]]:
    quick = ctx.tier == "quick"
    specs = []
    # dead_writer: an unpublished higher metadata version (+ strays) left by a writer that died before flipping the pointer
    # multi_append: the newest commit adds several files (a manifest with several records); multiblock: lists and manifests
    # laid out with one Avro block per record (what a writer produces once a file outgrows a block)
    variants = [
        {"snaps": 1, "rewrite": False, "expire": False, "multi_append": 3, "adopt_subdirs": True},
        {"snaps": 2, "rewrite": True, "expire": False, "dead_writer": "append"},
        {"snaps": 3, "rewrite": False, "expire": True, "legacy_marker": True, "multiblock": True, "dead_writer": "delete_snapshot", "adopt_subdirs": True},
        {"snaps": 4, "rewrite": True, "expire": True, "multi_append": 2, "multiblock": True, "dead_writer": "expire"},
        # every reachable list / manifest in the legacy JSON format (JSON fallback of the readers)
        {"snaps": 2, "rewrite": True, "expire": False, "multi_append": 2, "legacy_json": True},
        # the collection runs on a third-party backend: a StorageBackend subclass implementing only the abstract methods, so
        # every helper with a default implementation in the base class is the default, composed from the primitives (faults_only:
        # byte / stream / structured damage of documents is a matter of the decoders, not of the backend: not repeated here)
        {"snaps": 2, "rewrite": False, "expire": True, "legacy_marker": True, "backend": "thirdparty", "faults_only": True, "adopt_subdirs": True},
    ]
    graces = [0] if quick else [0, 3600000]
    for vi, v in enumerate(variants):
        for g in graces:
            specs.append(dict(v, seed=ctx.rng.randrange(1 << 30), grace=g, all_kinds=True, pairs=int(os.environ.get("VERIF_C07_PAIRS", 0 if quick else 250)),
                              thorough=not quick, exhaustive=(g == 0), case_timeout=30,
                              base=os.path.join(ctx.scratch, f"f{vi}_{g}")))
    return specs


EVAL_STATS = {"requested": 0, "distinct": 0}


DREQ = REQ + ["DS.Model.Doc", "DS.Gen.GenDoc", "DS.Model.GCDoc"]


def eval_dedup(exprs: List[str], pre: str, req: Optional[List[str]] = None) -> List[Any]:
    """coq_eval, evaluating each distinct expression once (many damaged files fall into the same content class)."""
    uniq: Dict[str, int] = {}
    for e in exprs:
        uniq.setdefault(e, len(uniq))
    order = sorted(uniq, key=uniq.get)
    EVAL_STATS["requested"] += len(exprs)
    EVAL_STATS["distinct"] += len(order)
    vals = coqbuild.coq_eval(req or REQ, order, preamble=pre, chunk=gcsim.chunk_for(len(order)), timeout=2400) if order else []
    return [vals[uniq[e]] for e in exprs]


DOC_CONTENT = {"list-avro": "list_records_content", "manifest-avro": "manifest_records_content",
               "list-json": "list_json_content", "manifest-json": "manifest_json_content"}


def doc_correspondence(ctx, recs: List[Tuple[Dict[str, Any], Dict[str, Any]]], pre: str) -> None:
    """Structured damage through Model/GCDoc.v.  Stage A evaluates what the regenerated reader shapes make of each damaged
    document (metadata: refused, or the manifest lists of its snapshots; list / manifest: its content class); `doc_decode`
    compares that with the library's own decoder on the metadata documents.  Stage B runs the collector model on it
    (collect_doc / gc_run on the store with the damaged file's content class replaced); `doc_runs` compares with the real
    collection: refused / aborted = the real one raised having deleted nothing (same phase when it raised
    GarbageCollectionAborted); completed = abort phase, deleted set, keep sets, call trace as for every other run."""
    from harness.lib.coqio import to_coq
    docruns = [(ri, run) for ri, (_spec, res) in enumerate(recs) for run in res["runs"] if run.get("doc")]
    bad_runs: List[Dict[str, Any]] = []
    stage_a, idx_a = [], []
    for ri, run in docruns:
        m = run["doc"].get("model")
        if m is None:
            bad_runs.append({"damage": run["what"], "diffs": ["no model input: " + str(run["doc"].get("model_error"))]})
            continue
        ext = f"(fun _ _ => {'true' if m['ext'] else 'false'})"
        if m["kind"] == "metadata":
            stage_a.append(f"render_collect_decision {ext} {m['term']}")
        else:
            stage_a.append(f"content_code ({DOC_CONTENT[m['kind']]} {ext} {m['term']})")
        idx_a.append((ri, run))
    t_a = time.time()
    try:
        vals_a = eval_dedup(stage_a, "", DREQ)
    except RuntimeError as e:
        ctx.proof_problems.append("model evaluation failed (documents): " + str(e)[:600])
        return
    bad_decode: List[Dict[str, Any]] = []
    n_decode = 0
    stage_b, idx_b = [], []
    for (ri, run), va in zip(idx_a, vals_a):
        spec, res = recs[ri]
        m, mm = run["doc"]["model"], res["model"]
        code, strs = int(va[0]), list(va[1])
        pspec = {k: spec[k] for k in spec if k != "base"}
        if m["kind"] == "metadata":
            # code 0: the reader refuses the document; 1: the collection runs on these lists; 2: the reader accepts it and the
            # collector refuses it (its current_snapshot_id names none of the snapshots it lists)
            n_decode += 1
            real = m["real_decode"]
            if [min(code, 1), strs] != [real[0], list(real[1])]:
                bad_decode.append({"spec": pspec, "damage": run["what"], "op": run["doc"]["op"], "library": real, "model": [code, strs]})
            if code in (0, 2):
                run["doc"]["expect"] = "refused" if code == 0 else "refused-by-collector"
                idx_b.append((ri, run, None))
                continue
            expr = gcsim.gc_expr(mm["tp"], mm["grace"], mm["now_ms"], TIMEOUT_MS, [], strs, f"base{ri}")
        else:
            avro = m["kind"].endswith("avro")
            cterm = {0: "(CPartialAvro [] false)" if avro else "CGarbage", 1: f"(CList FAvro {to_coq(strs)})", 2: f"(CList FJson {to_coq(strs)})",
                     3: f"(CManifest FAvro {to_coq(strs)})", 4: f"(CManifest FJson {to_coq(strs)})", 5: "CJsonEmpty"}[code]
            store = "[" + "; ".join(f"({to_coq(k)}, mkObj ({mt})%Z {cterm if k == run['doc']['key'] else ct})" for k, mt, ct in mm["entries"]) + "]"
            expr = gcsim.gc_expr(mm["tp"], mm["grace"], mm["now_ms"], TIMEOUT_MS, [], mm["snaps"], store)
        stage_b.append(expr)
        idx_b.append((ri, run, len(stage_b) - 1))
    ctx.correspondence("doc_decode", n_decode, bad_decode)
    t_b = time.time()
    ctx.stats["doc_model_stage_a_s"] = round(t_b - t_a, 1)
    try:
        vals_b = eval_dedup(stage_b, pre, DREQ)
        ctx.stats["doc_model_stage_b_s"] = round(time.time() - t_b, 1)
    except RuntimeError as e:
        ctx.proof_problems.append("model evaluation failed (documents): " + str(e)[:600])
        return
    for ri, run, bi in idx_b:
        spec = recs[ri][0]
        real = run["real"]
        gone = {k for k in set(run["before"]) - set(run["after"]) if not k.startswith(gcsim.INFLIGHT + "/")}
        if bi is None:
            who = "the collector refuses the document (dangling current_snapshot_id)" if run["doc"].get("expect") == "refused-by-collector" else "the reader refuses the document"
            d = [] if real["raised"] and not gone else [f"model: {who} (raise, nothing deleted); code: raised={real['raised']} deleted={sorted(gone)[:4]}"]
            if not d and run["doc"].get("expect") == "refused-by-collector" and not real.get("aborted_type_ok"):
                d = [f"model: {who} with GarbageCollectionAborted; code raised {real.get('exc_type')}"]
        else:
            model = gcsim.parse_render(vals_b[bi])
            if model["out"] in (1, 2):
                d = []
                if not real["raised"] or gone:
                    d.append(f"model: aborted in phase {model['out']} with nothing deleted; code: raised={real['raised']} ({real.get('exc_type')}) deleted={sorted(gone)[:4]}")
                elif real.get("aborted_type_ok") and real["phase"] != model["out"]:
                    d.append(f"abort phase: code={real['phase']} model={model['out']}")
            else:
                d = gcsim.compare(real, run["before"], run["after"], model)
        if d:
            bad_runs.append({"spec": {k: spec[k] for k in spec if k != "base"}, "damage": run["what"], "op": run["doc"]["op"], "diffs": d[:4]})
    ctx.correspondence("doc_runs", len(docruns), bad_runs)


def run_campaign(ctx) -> None:
    specs = make_specs(ctx)
    t0 = time.time()
    workers = min(12, max(1, (os.cpu_count() or 2) - 2))
    budget = 600 if ctx.tier == "quick" else 3000          # backstop: a worker that is stuck beyond its own per-case limits
    ex = cf.ProcessPoolExecutor(max_workers=workers, mp_context=mp.get_context("spawn"), initializer=gcsim.limit_worker_memory)
    try:
        futs = [ex.submit(run_table, s) for s in specs]
        rfut = [ex.submit(refresh_faults, s) for s in specs]
        results, rres = [], []
        for f, sp in list(zip(futs, specs)) + list(zip(rfut, specs)):
            try:
                res = f.result(timeout=max(5.0, budget - (time.time() - t0)))
            except Exception as e:  # noqa: BLE001 - TimeoutError, BrokenProcessPool (worker killed by its memory limit)
                res = {"violations": [{"key": "hang:worker", "desc": None,
                                       "what": f"the fault campaign on table {({k: sp[k] for k in sp if k != 'base'})} did not finish: {type(e).__name__}"}],
                       "runs": [] if f in futs else 0, "dead": True}
            (results if f in futs else rres).append(res)
    finally:
        for proc in list(getattr(ex, "_processes", {}).values()):
            if any(r.get("dead") for r in results + rres):
                proc.kill()
        ex.shutdown(wait=False, cancel_futures=True)
    ctx.stats["campaign_wall_s"] = round(time.time() - t0, 1)
    agg = {"tables": len(specs), "storage_calls_per_collection": [], "fault_runs": 0, "damage_runs": 0, "raised": 0, "absorbed_or_completed": 0,
           "refresh_fault_runs": sum(r.get("runs", 0) for r in rres), "not_judged_still_parses_to_other_records": 0}
    for sp, r in zip(specs, rres):
        if "harness_error" in r:
            ctx.proof_problems.append("refresh-fault harness raised: " + r["harness_error"][-600:])
        for v in r["violations"]:
            ctx.violation(v["key"], v["what"], {"spec": {k: sp[k] for k in sp if k != "base"}, "campaign": "refresh", "only": v.get("desc")})
    # ---- correspondence of the pointer plane: which version the collection worked from (or that it aborted), real vs Model/GCPointer.v
    # which metadata FILE the collection worked from (or that it aborted / found no table): every fault at every call of the two
    # resolutions (pointer exists / read, exists of the hinted file, the scan's listing and stats, read_json of the metadata file)
    pexprs, precs = [], []
    for sp, r in zip(specs, rres):
        for rec in r.get("records", []):
            if rec["occ"] in (0, 1, "*"):
                pexprs.append(pointer_expr(r["files"], r["published"], rec))
                precs.append((sp, r, rec))
    try:
        pvals = coqbuild.coq_eval(["DS.Model.GCPointer"], pexprs, chunk=gcsim.chunk_for(len(pexprs))) if pexprs else []
    except RuntimeError as e:
        ctx.proof_problems.append("model evaluation failed: " + str(e)[:600])
        pvals = []
    pbad = []
    for (sp, r, rec), mv in zip(precs, pvals):
        real_v = "!abort" if rec["raised"] else (rec["used"] if rec["used"] is not None else "!notable")
        ctx.count(1, ("pointer", sp.get("dead_writer"), rec["what"]))
        if real_v != mv:
            pbad.append({"spec": {k: sp[k] for k in sp if k != "base"}, "fault": rec["what"], "files": r["files"], "published": r["published"],
                         "code_used_or_abort": real_v, "model": mv})
    ctx.correspondence("gc_pointer", len(pvals), pbad)
    stage1, recs = [], []
    for spec, res in zip(specs, results):
        if res.get("dead"):
            for v in res["violations"]:
                ctx.violation(v["key"], v["what"], {"spec": {k: spec[k] for k in spec if k != "base"}, "campaign": "faults"})
            continue
        if "harness_error" in res:
            ctx.proof_problems.append("fault harness raised: " + res["harness_error"][-600:])
            continue
        agg["storage_calls_per_collection"].append(res["stats"]["calls"])
        agg["fault_runs"] += res["stats"]["fault_runs"]
        agg["damage_runs"] += res["stats"]["damage_runs"]
        for k2 in ("byte_damage_runs", "stream_fault_runs", "still_parses_not_judged", "stream_faults_undetectable_short_read", "timeouts",
                   "os_fault_runs", "doc_damage_runs", "doc_emptied_in_place_not_judged", "doc_emptied_in_place_deleted_reachable",
                   "doc_dangling_current_judged"):
            agg[k2] = agg.get(k2, 0) + res["stats"].get(k2, 0)
        agg.setdefault("records_per_list", []).append(res.get("shape", {}).get("lists"))
        agg.setdefault("records_per_manifest", []).append(res.get("shape", {}).get("manifests"))
        agg["raised"] += res["stats"]["raised"]
        agg["absorbed_or_completed"] += res["stats"]["absorbed"]
        if "stale_hint_completed_deleting" in res["stats"]:
            agg.setdefault("not_judged_stale_hint_files_deleted", []).append(res["stats"]["stale_hint_completed_deleting"])
        pspec = {k: spec[k] for k in spec if k != "base"}
        for v in res["violations"]:
            ctx.violation(v["key"], v["what"], {"spec": pspec, "campaign": "faults", "only": v.get("desc")})
        for run in res["runs"]:
            if run.get("doc"):
                ctx.count(1, ("doc", len(recs), run["what"], repr(run["doc"]["op"])))
            elif run.get("os_level"):
                ctx.count(1, ("os", len(recs), run["what"], repr(run["plan"])))
        m = res["model"]
        stage1.append(gcsim.gc_expr(m["tp"], m["grace"], m["now_ms"], TIMEOUT_MS, [], m["snaps"], f"base{len(recs)}"))
        recs.append((spec, res))
    ctx.stats["faults"] = agg
    # ---- correspondence: same fault plans through the model
    pre = "\n".join(f"Definition base{i} : store := {res['model']['store']}." for i, (_s, res) in enumerate(recs))
    try:
        clean_models = [gcsim.parse_render(v) for v in coqbuild.coq_eval(REQ, stage1, preamble=pre, chunk=1)]
    except RuntimeError as e:
        ctx.proof_problems.append("model evaluation failed: " + str(e)[:600])
        return
    bad_clean = []
    for (spec, res), cm in zip(recs, clean_models):
        d = gcsim.compare(res["clean"]["real"], res["clean"]["before"], res["clean"]["after"], cm)
        if d:
            bad_clean.append({"spec": {k: spec[k] for k in spec if k != "base"}, "diffs": d[:4]})
    ctx.correspondence("gc_faultfree", len(recs), bad_clean)

    # iterative mapping of fault plans (real: keyed by (op,key,occurrence); model: by call index)
    pending = []   # (rec index, run, mapped faults so far, remaining plan)
    for ri, (spec, res) in enumerate(recs):
        for run in res["runs"]:
            if run["damage"] is not None or run.get("os_level"):
                continue
            pending.append([ri, run, [], list(run["plan"]), clean_models[ri]])
    done: List[Tuple[int, Dict[str, Any], Dict[str, Any]]] = []
    for _stage in range(3):
        exprs, idx = [], []
        for p in pending:
            ri, run, mapped, remaining, last_model = p
            # take the plan entry that fires first in the model's current trace
            best = None
            for f in remaining:
                mi = gcsim.map_fault_index(last_model["trace"], f["op"], f["key"], f["occ"])
                if mi is not None and (best is None or mi < best[0]):
                    best = (mi, f)
            if best is None:
                done.append((ri, run, last_model))
                p[3] = []
                continue
            mapped.append((best[0], best[1]["kind"] if best[1]["kind"] != "stream" else f"stream{best[1]['code']}"))
            remaining.remove(best[1])
            m = recs[ri][1]["model"]
            exprs.append(gcsim.gc_expr(m["tp"], m["grace"], m["now_ms"], TIMEOUT_MS, mapped, m["snaps"], f"base{ri}"))
            idx.append(p)
        if not exprs:
            break
        try:
            vals = eval_dedup(exprs, pre)
        except RuntimeError as e:
            ctx.proof_problems.append("model evaluation failed: " + str(e)[:600])
            return
        nxt = []
        for p, v in zip(idx, vals):
            p[4] = gcsim.parse_render(v)
            if p[3]:
                nxt.append(p)
            else:
                done.append((p[0], p[1], p[4]))
        pending = nxt
    for p in pending:
        done.append((p[0], p[1], p[4]))
    bad = []
    for ri, run, model in done:
        ctx.count(1, ("fault", ri, run["what"], repr(run["plan"])))
        d = gcsim.compare(run["real"], run["before"], run["after"], model, nplan=len(run["plan"] or []))
        if d:
            bad.append({"spec": {k: recs[ri][0][k] for k in recs[ri][0] if k != "base"}, "fault": run["what"], "plan": run["plan"], "diffs": d[:4]})
    ctx.correspondence("gc_faults", len(done), bad)

    # damage classes
    exprs, druns = [], []
    for ri, (spec, res) in enumerate(recs):
        m = res["model"]
        for run in res["runs"]:
            if run["damage"] is None or run.get("pointer_plane") or run.get("no_model"):
                continue
            if run.get("not_judged"):
                agg["not_judged_still_parses_to_other_records"] += 1
            exprs.append(gcsim.gc_expr(m["tp"], m["grace"], m["now_ms"], TIMEOUT_MS, [], m["snaps"], run["store"]))
            druns.append((ri, run))
    try:
        vals = eval_dedup(exprs, "")
    except RuntimeError as e:
        ctx.proof_problems.append("model evaluation failed: " + str(e)[:600])
        return
    ctx.stats["model_evaluations_distinct"] = dict(EVAL_STATS)
    bad = []
    for (ri, run), v in zip(druns, vals):
        ctx.count(1, ("damage", ri, run["what"], run["damage"][0], repr(run["damage"][1])))
        d = gcsim.compare(run["real"], run["before"], run["after"], gcsim.parse_render(v))
        if d:
            bad.append({"spec": {k: recs[ri][0][k] for k in recs[ri][0] if k != "base"}, "damage": run["what"], "file": run["damage"][0], "diffs": d[:4]})
    ctx.correspondence("gc_damage", len(druns), bad)
    doc_correspondence(ctx, recs, pre)
    ctx.stats["model_evaluations_distinct"] = dict(EVAL_STATS)
    if done:
        ri, run, model = done[len(done) // 2]
        ctx.sample({"fault_case": {"fault": run["what"], "plan": run["plan"], "raised": run["real"]["raised"], "exception": run["real"]["exc_type"],
                                   "model_outcome_code": model["out"], "deleted": sorted(model["deleted"])}})


# ------------------------------------------------------------------------------------------ the local backend's listing under OS failures
LISTING_ERRNOS = ["EACCES", "EIO", "ESTALE", "ENOENT", "ENOTDIR"]
ABSENT_ERRNOS = ("ENOENT", "ENOTDIR")


def listing_cases() -> List[Dict[str, Any]]:
    """Where the operating system fails while LocalStorageBackend.list_files(prefix) runs: looking at the prefix itself (stat),
    scanning the prefix directory, scanning a directory below it -- with every errno class."""
    out = []
    for err in LISTING_ERRNOS:
        out.append({"fn": "stat", "at": "prefix", "errno": err})
        out.append({"fn": "scandir", "at": "prefix", "errno": err})
        out.append({"fn": "scandir", "at": "sub", "errno": err})
    return out


def listing_case(base: str, case: Dict[str, Any]) -> Dict[str, Any]:
    from datashard.storage_backend import LocalStorageBackend
    root = os.path.join(base, "tbl")
    shutil.rmtree(base, ignore_errors=True)
    for rel in ("pre/a.inflight", "pre/b.inflight", "pre/sub/c.inflight", "pre/sub/deep/d.inflight", "other/e"):
        h5._plant(root, rel, b"x")
    be = LocalStorageBackend(root)
    truth = sorted(p.replace(os.sep, "/") for p in be.list_files("pre"))
    target = os.path.join(root, "pre" if case["at"] == "prefix" else "pre/sub")
    try:
        with gcsim.os_failing(case["fn"], case["errno"], target):
            got = sorted(p.replace(os.sep, "/") for p in be.list_files("pre"))
        outcome = 0 if got == truth else 1
        detail = f"returned {got} (true listing: {truth})"
    except Exception as e:  # noqa: BLE001
        outcome, detail = 2, f"raised {type(e).__name__}: {e}"[:200]
    shutil.rmtree(base, ignore_errors=True)
    return {"outcome": outcome, "detail": detail, "truth": truth}


def listing_expr(case: Dict[str, Any]) -> str:
    absent = "true" if case["errno"] in ABSENT_ERRNOS else "false"
    # a failing stat of the prefix is the probe; a directory that cannot be scanned (the prefix's own or one below) is the walk
    args = f"(Some {absent}) None" if case["fn"] == "stat" else f"None (Some {absent})"
    return f"match local_list_outcome {args} with LComplete => 0%nat | LShort => 1%nat | LRaise => 2%nat end"


def run_listing(ctx, only: Optional[Dict[str, Any]] = None) -> List[Dict[str, Any]]:
    """Oracle: a failure that does not mean 'not there' must not read as a complete-looking (short / empty) listing.
    Correspondence `local_listing`: outcome {complete, short, raise} of the real list_files vs Model/LocalList.v."""
    cases = [c for c in listing_cases() if only is None or c == only]
    hits = []
    res = []
    for c in cases:
        r = listing_case(os.path.join(ctx.scratch, "listing"), c)
        res.append(r)
        if r["outcome"] == 1 and c["errno"] not in ABSENT_ERRNOS:
            what = (f"LocalStorageBackend.list_files('pre') while {c['fn']} of the {'prefix' if c['at'] == 'prefix' else 'directory pre/sub'} "
                    f"fails with {c['errno']}: {r['detail']} -- a failed listing reads as a short one (the collector takes an empty marker "
                    f"listing as 'no transaction in flight')")
            hits.append({"key": f"listing-failure-reads-short:{c['fn']}:{c['at']}:{c['errno']}", "what": what, "case": c})
    if only is not None:
        return hits
    for h in hits:
        ctx.violation(h["key"], h["what"], {"listing": h["case"]})
    try:
        vals = coqbuild.coq_eval(["DS.Gen.GenLocalList", "DS.Model.LocalList"], [listing_expr(c) for c in cases])
    except RuntimeError as e:
        ctx.proof_problems.append("model evaluation failed (local listing): " + str(e)[:400])
        return hits
    bad = []
    for c, r, v in zip(cases, res, vals):
        ctx.count(1, ("listing", c["fn"], c["at"], c["errno"]))
        # a sub-directory that is "not there" for the walk is skipped: the model says short, the real listing lacks its files
        if int(v) != r["outcome"]:
            bad.append({"case": c, "code": r["outcome"], "model": int(v), "detail": r["detail"]})
    ctx.correspondence("local_listing", len(cases), bad)
    return hits


def run(ctx) -> None:
    import logging
    logging.disable(logging.CRITICAL)
    ctx.rule = ("one evaluation = one real collection with one fault plan (a fault at one storage call: 4 kinds, or the stream failing "
                "part-way; an OS-level refusal of the object of one operation; thorough: pairs) or one damaged reachable file (6 whole-file classes; single-byte flips and truncations at "
                "many offsets; one structured operation -- drop / null / retype / empty / drop-item -- at one key path of the document), judged by "
                "the independent oracle and compared with the model; distinct by (table, fault kind, call, file role, offset / "
                "operation and key path)")
    ctx.trusted_base += [
        "translator/gen_norm.py (regenerated path kernel; try/except skeleton of collect / _load_inflight_protection / _marker_targets / _gc_prefix pinned)",
        "translator/gen_locallist.py (which exception classes LocalStorageBackend.list_files' guard and os.walk onerror handler swallow; "
        "classification of OS failures into 'not there' = FileNotFoundError / NotADirectoryError and everything else)",
        "translator/gen_gcmarker.py (per-marker decision kernel of _load_inflight_protection; fail closed on a listing other than storage.list_files, "
        "a handler narrower than Exception, any other storage operation)",
        "harness: harness/props/c07.py, harness/lib/gcsim.py (fault injection at the backend's own operations through an instrumented subclass of "
        "the backend's class; third-party backend = StorageBackend subclass with only the abstract methods; independent reader; frozen clock)",
        "fault model: FRaise = an exception of the class the readers' Avro attempt catches (OSError incl. FileNotFoundError / PermissionError / "
        "TimeoutError, ValueError), FRaiseX = any other exception, FBad = unusable result; one fault changes one call",
        "translator/gen_doc.py (reader shapes of _dict_to_metadata / read_manifest(_list)_file; which dataclasses validate); harness/lib/docdamage.py",
        "external validations measured per document and passed to the model as the parameter `ext`: Schema(...) on the items of `schemas`; "
        "the int()-keyed statistics maps of a manifest entry",
    ]
    ctx.assumptions += [
        "writer-side path forms (wf_store) -- see C05",
        "metadata_manager.refresh() and the collector's re-check of the pointer are Model/GCPointer.v (which file is worked from); byte damage of "
        "the metadata file is judged by the oracle only",
        "an abort raised by a sweep's own listing (failure or '../' entry) may follow deletions of true orphans: the property's second disjunct",
        "a value emptied in place (same type), an array that lost an element or an Avro container with zero records is a well-formed document "
        "saying something else: not judged, unless the metadata document then names a current snapshot it does not list (judged)",
        "pointer plane: `same` (the dict comparison of the two TableMetadata objects) distinguishes documents with different snapshot lists; a "
        "pointer that answers 'absent' at both reads is a lost pointer for the library (scan result = the table): C07_pointer_run_safe_refuted",
    ]
    ctx.proofs(THEOREMS, gen_files=["GenNorm.v", "GenDoc.v", "GenGCMarker.v", "GenLocalList.v"])
    ctx.allow_axioms([])
    run_listing(ctx)
    run_campaign(ctx)


def replay(ctx, payload) -> int:
    case = payload.get("case", {})
    spec = case.get("spec")
    if case.get("listing"):
        hits = run_listing(ctx, case["listing"])
        for v in hits:
            print("replay: STILL FAILS", v["key"], "-", v["what"])
        if not hits:
            print("replay: passes now")
        return 1 if hits else 0
    if not spec:
        print("replay: payload names a broken proof / correspondence; re-run ./bin/check C07 thorough")
        return 2
    spec = dict(spec, base=os.path.join(ctx.scratch, "replay"))
    if case.get("only"):
        spec["only"] = case["only"]          # exactly this fault / damage on a table rebuilt from the same spec
    res = refresh_faults(spec) if case.get("campaign") == "refresh" else run_table(spec)
    if "harness_error" in res:
        print("replay: harness error", res["harness_error"][-400:])
        return 2
    key = payload.get("key")
    hits = [v for v in res["violations"] if v["key"] == key] or res["violations"]
    for v in hits[:5]:
        print("replay: STILL FAILS", v["key"], "-", v["what"])
    if not hits:
        print("replay: passes now")
    return 1 if hits else 0
