"""C07 -- Garbage collection fails closed.

Proof      : coq/Props/C07.v over Model/GC.v: for EVERY fault oracle (any number of faults, indexed by storage-call
             number) the collection either aborts before the first delete or deletes only unreferenced, unprotected,
             old files; every damage class of a reachable list / manifest aborts; markers whose stat / delete fails
             keep protecting.  normalize_path, the marker fallback and the constants are regenerated from the source
             (Gen/GenNorm.v); the try/except skeleton of collect & co. is pinned by translator/gen_norm.py.
Tie        : correspondence `gc_faults`: tables with 1-4 retained snapshots (shared manifests, rewritten manifest,
             orphans, a live transaction, a commit in progress, an abandoned marker); a fault is injected at EVERY
             storage call of the collection x {OSError, FileNotFoundError, non-OSError exception, unusable result
             (exists->False, garbage bytes, listing + "../x")} by wrapping the storage object; the same fault plan
             drives the model; compared: abort phase / completion, exact deleted set, keep sets, call trace.
             `gc_damage`: every damage class {missing, garbage, empty, cut inside the Avro block, cut in the header}
             on every reachable list / manifest, real directory vs model.  The pointer plane (version hint, metadata JSON)
             is outside the model: faults at every call of refresh() / the hint check and damage of the current metadata
             file {missing, garbage, empty, truncated} are judged by the oracle only; a stale hint is recorded, not judged.
Oracle /   : implementation only (independent reader): whenever collect raised -> GarbageCollectionAborted and the
search       data / manifest file set is unchanged when the fault precedes the first sweep (afterwards: only true
             orphans gone); always deleted & (reachable | live protected) = {}; a marker still present protects.
"""
from __future__ import annotations

import concurrent.futures as cf
import multiprocessing as mp
import os
import random
import shutil
import time
import traceback
from typing import Any, Dict, List, Optional, Tuple

from harness.lib import coqbuild, gcsim
from harness.props import c05 as h5

LEVEL = "proof"
THEOREMS = ["C07_fail_closed", "C07_damage", "C07_transient", "C07_marker_keep"]
REQ = gcsim.REQ
TIMEOUT_MS = h5.TIMEOUT_MS

MANIFEST_ENTRY = {
    "level_text": "C07_fail_closed (every fault oracle: an abort raised while reachability / in-flight protection is established deletes "
                  "nothing; otherwise only unreferenced, unprotected, old files are deleted), C07_damage (missing or unparseable reachable "
                  "list / manifest aborts before the first sweep, under any additional faults), C07_transient (a run that reaches the sweeps "
                  "read every list and manifest without an effective fault) and C07_marker_keep proved in Coq over the call-by-call collector "
                  "model with regenerated path kernel, for both orders of the two preparatory phases (regenerated MARKERS_FIRST); the model's "
                  "fault handling is tied to the code by injecting a fault at every storage call of real collections (4 fault kinds; thorough: "
                  "pairs) and every damage class on every reachable metadata-plane file, comparing abort phase, deleted set and call trace",
    "level_note": "trusted: Coq kernel; translator/gen_norm.py (incl. the pinned try/except skeleton); wf_store; the pointer plane "
                  "(metadata_manager.refresh(), collect()'s check that the hinted metadata file exists) is outside the model: faults and "
                  "damage there are judged by the implementation-only oracle (any exception, nothing deleted); a stale hint naming an older "
                  "existing version is C10's finding and only recorded; an abort raised by a sweep's own listing may follow deletions of "
                  "true orphans (the property's second disjunct) -- stated and proved as such; damage that still parses (a JSON object "
                  "without 'manifests' / 'files' reads as an EMPTY manifest) is modelled, recorded and not judged; local backend only",
    "technique": "Coq proof for all fault oracles + exhaustive single-fault injection at every storage call (differential)",
    "design_ref": "DESIGN.md section 5 C07",
}

KINDS = {"E": ["raise", "raisex", "bad"], "O": ["raise", "missing", "raisex", "bad"], "R": ["raise", "missing", "raisex", "bad"],
         "L": ["raise", "raisex", "bad"], "S": ["raise", "missing", "raisex"], "D": ["raise", "raisex"]}
DAMAGES = ["missing", "garbage", "empty", "cut-block", "cut-header", "json-empty"]


def role_of(key: str, reach_lists: set, reach_mans: set) -> str:
    if key in reach_lists:
        return "list"
    if key in reach_mans:
        return "manifest"
    if key.startswith(gcsim.INFLIGHT + "/"):
        return "marker"
    if key in ("data", "metadata/manifests", gcsim.INFLIGHT):
        return "dir:" + key
    if key.startswith("data/"):
        return "data-file"
    if key.startswith("metadata/manifests/"):
        return "manifest-file"
    return "metadata"


# ------------------------------------------------------------------------------------------ base tables
def build_base(base: str, spec: Dict[str, Any]) -> Tuple[str, float]:
    """A table with spec['snaps'] retained snapshots and every kind of protected / unprotected file; all aged old."""
    import logging
    logging.disable(logging.CRITICAL)
    from datashard import create_table
    rng = random.Random(spec["seed"])
    root = os.path.join(base, "tbl")
    t = create_table(root, h5._schema())
    reader = gcsim.IndepReader(root)
    for i in range(spec["snaps"]):
        t.append_records([{"x": i}])
    if spec.get("rewrite") and spec["snaps"] >= 2:
        cur = h5._current_files(reader)
        tx = t.new_transaction().begin()
        tx.delete_files([cur[rng.randrange(len(cur))]])
        tx.commit()
    if spec.get("expire"):
        snaps = reader.snapshots()
        if len(snaps) >= 2:
            t.snapshot_manager.delete_snapshot(snaps[0]["snapshot_id"])
    h5._plant(root, "data/orphan_a.parquet", b"PAR1 orphan")
    h5._plant(root, "metadata/manifests/orphan_m.avro", b"orphan manifest")
    if spec.get("live_tx", True):
        tx = t.new_transaction().begin()
        tx.append_data([{"x": 1000}])
        # the transaction object is dropped: its marker and data file stay (a live writer in another process)
    if spec.get("pending", True):
        # a commit in progress: manifest written and registered, metadata not yet flipped
        h5._plant(root, "metadata/manifests/manifest_pending_1.avro", b"pending manifest bytes")
        h5._plant(root, "metadata/inflight/manifest_pending_1.avro.inflight", b'{"file_path": "metadata/manifests/manifest_pending_1.avro"}')
    if spec.get("legacy_marker"):
        h5._plant(root, "data/legacy_tx.parquet", b"PAR1 legacy")
        h5._plant(root, "metadata/inflight/legacy_tx.parquet.inflight", b"")
    now = float(int(time.time()))
    if spec.get("abandoned", True):
        h5._plant(root, "data/old_tx.parquet", b"PAR1 abandoned")
        h5._plant(root, "metadata/inflight/old_tx.parquet.inflight", b'{"file_path": "data/old_tx.parquet"}')
        ts = now - 3 * 24 * 3600
        os.utime(os.path.join(root, "metadata/inflight/old_tx.parquet.inflight"), (ts, ts))
    for key in gcsim.list_tree(root):
        if key.startswith("data/") or key.startswith("metadata/manifests/"):
            ts = now - spec["grace"] / 1000.0 - 100.0
            os.utime(os.path.join(root, key), (ts, ts))
    return root, now


def judge(spec_grace: int, now: float, reach: set, live: set, markers_before: Dict[str, Any], before: Dict[str, float], after: Dict[str, float],
          real: Dict[str, Any], fault_pos: str, what: str) -> List[Dict[str, str]]:
    """The implementation-only oracle for one (possibly faulted / damaged) collection."""
    viol = []
    gone = set(before) - set(after)
    deleted = {k for k in gone if not k.startswith(gcsim.INFLIGHT + "/")}
    orphans = {k for k in before if (k.startswith("data/") or k.startswith("metadata/manifests/")) and k not in reach and k not in live
               and before[k] * 1000 < now * 1000 - spec_grace}
    lost = sorted(deleted & (reach | live))
    if lost:
        cls = "reachable" if set(lost) & reach else "live-protected"
        viol.append({"key": f"deleted-{cls}:{what}", "what": f"{what}: collection deleted {cls} file(s) {lost[:3]} (raised={real['raised']} {real.get('exc_type')})"})
    if real["raised"]:
        if fault_pos != "refresh" and not real.get("aborted_type_ok"):
            viol.append({"key": f"wrong-exception:{what}", "what": f"{what}: collection raised {real['exc_type']} instead of GarbageCollectionAborted: {real['exc']}"})
        if fault_pos in ("refresh", "pre") and deleted:
            viol.append({"key": f"abort-after-delete:{what}", "what": f"{what}: collection raised {real['exc_type']} but had already deleted {sorted(deleted)[:3]}"})
        if deleted - orphans:
            viol.append({"key": f"abort-deleted-non-orphan:{what}", "what": f"{what}: raised, and deleted files that are not old unreferenced orphans: {sorted(deleted - orphans)[:3]}"})
    # a marker that is still there protected everything it denotes
    for mk, (_mt, den) in markers_before.items():
        if mk in after and (den & deleted):
            viol.append({"key": f"marker-ignored:{what}", "what": f"{what}: marker {mk} is still present but its target {sorted(den & deleted)} was deleted"})
    return viol


def run_table(spec: Dict[str, Any]) -> Dict[str, Any]:
    """All injections and damages on one base table (runs in a worker process)."""
    import logging
    logging.disable(logging.CRITICAL)
    out: Dict[str, Any] = {"runs": [], "violations": [], "stats": {"calls": 0, "fault_runs": 0, "damage_runs": 0, "raised": 0, "absorbed": 0}}
    base = spec["base"]
    shutil.rmtree(base, ignore_errors=True)
    os.makedirs(base)
    try:
        from datashard import load_table
        root, now = build_base(os.path.join(base, "base"), spec)
        grace = spec["grace"]
        reader0 = gcsim.IndepReader(root)
        reach = reader0.reachable()
        snaps_meta = reader0.snapshots()
        reach_lists = {gcsim.resolve(s["manifest_list"]) for s in snaps_meta if s.get("manifest_list")}
        reach_mans = set()
        for s in snaps_meta:
            reach_mans.update(reader0.snapshot_files(s)[1])
        live = reader0.live_protected(now, TIMEOUT_MS)
        markers0 = reader0.markers()
        snaps = [s.get("manifest_list") or "" for s in snaps_meta]
        base_store = gcsim.store_term(root)
        n = [0]

        def fresh_copy() -> str:
            n[0] += 1
            dst = os.path.join(base, f"run{n[0]}", "tbl")
            os.makedirs(os.path.dirname(dst))
            gcsim.copy_table(root, dst)
            return dst

        def one(plan: Optional[List[Dict[str, Any]]], damage: Optional[Tuple[str, str]], pos: str, what: str) -> Dict[str, Any]:
            dst = fresh_copy()
            store = None
            t = load_table(dst)          # opened while intact; the damage happens before the collection
            if damage is not None:
                apply_damage(dst, *damage)
                store = gcsim.store_term(dst)
            before = gcsim.list_tree(dst)
            real = gcsim.run_collect(t, grace, now, plan)
            after = gcsim.list_tree(dst)
            viol = judge(grace, now, reach, live, markers0, before, after, real, pos, what)
            shutil.rmtree(os.path.dirname(dst), ignore_errors=True)
            return {"real": {k: real.get(k) for k in ("raised", "exc_type", "exc", "phase", "trace", "keep_sets", "unknown", "aborted_type_ok")},
                    "before": before, "after": after, "plan": plan, "damage": damage, "pos": pos, "what": what, "violations": viol, "store": store}

        clean = one(None, None, "none", "fault-free")
        out["clean"] = clean
        T = clean["real"]["trace"]
        out["stats"]["calls"] = len(T)

        def pos_of(op: str, key: str) -> str:
            """'sweep': a call of _gc_prefix (its listing, or stat / delete of a listed file); 'pre': reachability / markers."""
            if op == "L":
                return "sweep" if key in ("data", "metadata/manifests") else "pre"
            if op in ("S", "D") and not key.startswith(gcsim.INFLIGHT + "/"):
                return "sweep"
            return "pre"
        # single faults at every call
        occ: Dict[Tuple[str, str], int] = {}
        rng = random.Random(spec["seed"] + 1)
        for i, (op, key, _f) in enumerate(T):
            o = occ.get((op, key), 0)
            occ[(op, key)] = o + 1
            pos = pos_of(op, key)
            kinds = KINDS[op] if spec["all_kinds"] else ["raise"] + rng.sample(KINDS[op][1:], 1)
            for kind in kinds:
                what = f"{kind}@{op}:{role_of(key, reach_lists, reach_mans)}"
                r = one([{"op": op, "key": key, "occ": o, "kind": kind}], None, pos, what)
                out["runs"].append(r)
                out["stats"]["fault_runs"] += 1
        # double faults (thorough)
        for _ in range(spec.get("pairs", 0)):
            i, j = sorted(rng.sample(range(len(T)), 2))
            plan = []
            occ2: Dict[Tuple[str, str], int] = {}
            for idx, (op, key, _f) in enumerate(T):
                o = occ2.get((op, key), 0)
                occ2[(op, key)] = o + 1
                if idx in (i, j):
                    plan.append({"op": op, "key": key, "occ": o, "kind": rng.choice(KINDS[op])})
            pos = "sweep" if any(pos_of(p["op"], p["key"]) == "sweep" for p in plan) else "pre"
            what = "double:" + "+".join(f"{p['kind']}@{p['op']}:{role_of(p['key'], reach_lists, reach_mans)}" for p in plan)
            out["runs"].append(one(plan, None, pos, what))
            out["stats"]["fault_runs"] += 1
        # every damage class on every reachable list / manifest
        for key in sorted(reach_lists | reach_mans):
            for dmg in DAMAGES:
                what = f"damage:{dmg}:{role_of(key, reach_lists, reach_mans)}"
                r = one(None, (key, dmg), "pre", what)
                if dmg == "json-empty":
                    r["violations"] = []          # damage that still parses: recorded, not judged
                    r["not_judged"] = True
                elif not r["real"]["raised"]:
                    r["violations"].append({"key": f"damage-not-detected:{dmg}:{role_of(key, reach_lists, reach_mans)}",
                                            "what": f"reachable {role_of(key, reach_lists, reach_mans)} {key} damaged ({dmg}) and the collection completed"})
                out["runs"].append(r)
                out["stats"]["damage_runs"] += 1
        # the pointer plane (oracle only: metadata_manager.refresh is outside the model): the current metadata file missing
        # or unparseable must make the collection raise without deleting; a stale hint is F-C10c territory (recorded only)
        hint = open(os.path.join(root, gcsim.HINT_KEY)).read().strip()
        cur_meta = "metadata/" + (f"v{hint}.metadata.json" if hint.isdigit() else hint)
        older = sorted(k for k in gcsim.list_tree(root) if gcsim.is_pointer_plane(k) and k.startswith("metadata/v") and k != cur_meta)
        for dmg in ["missing", "garbage", "empty", "cut-header"]:
            what = f"damage:{dmg}:current-metadata"
            r = one(None, (cur_meta, dmg), "refresh", what)
            r["store"], r["pointer_plane"] = None, True
            if not r["real"]["raised"]:
                r["violations"].append({"key": f"damage-not-detected:{dmg}:current-metadata",
                                        "what": f"the current metadata file {cur_meta} is damaged ({dmg}) and the collection completed "
                                                f"(deleted {sorted(set(r['before']) - set(r['after']))[:3]})"})
            out["runs"].append(r)
            out["stats"]["damage_runs"] += 1
        if older:
            r = one(None, (gcsim.HINT_KEY, "stale:" + older[0].split("/", 1)[1]), "refresh", "damage:stale-hint")
            r["store"], r["pointer_plane"], r["not_judged"], r["violations"] = None, True, True, []
            out["stats"]["stale_hint_completed_deleting"] = len(set(r["before"]) - set(r["after"])) if not r["real"]["raised"] else -1
            out["runs"].append(r)
        for r in out["runs"]:
            out["stats"]["raised" if r["real"]["raised"] else "absorbed"] += 1
            out["violations"].extend(r["violations"])
        out["model"] = {"snaps": snaps, "store": base_store, "now_ms": int(now * 1000), "grace": grace, "tp": root}
    except Exception:
        out["harness_error"] = traceback.format_exc()[-1500:]
    finally:
        shutil.rmtree(base, ignore_errors=True)
    return out


def apply_damage(root: str, key: str, dmg: str) -> None:
    full = os.path.join(root, key)
    st = os.stat(full)
    bs = open(full, "rb").read()
    if dmg == "missing":
        os.remove(full)
        return
    if dmg.startswith("stale:"):
        with open(full, "w") as f:
            f.write(dmg[6:])
        return
    new = {"garbage": b"\x00\xff this is not a manifest \x01", "empty": b"", "cut-block": bs[:-20], "cut-header": bs[: len(bs) // 2], "json-empty": b"{}"}[dmg]
    with open(full, "wb") as f:
        f.write(new)
    os.utime(full, (st.st_mtime, st.st_mtime))


# ------------------------------------------------------------------------------------------ refresh-phase faults (oracle only)
def refresh_faults(spec: Dict[str, Any]) -> Dict[str, Any]:
    import logging
    logging.disable(logging.CRITICAL)
    out: Dict[str, Any] = {"violations": [], "runs": 0}
    base = spec["base"] + "-refresh"
    shutil.rmtree(base, ignore_errors=True)
    os.makedirs(base)
    try:
        from datashard import load_table
        root, now = build_base(os.path.join(base, "base"), spec)
        reader0 = gcsim.IndepReader(root)
        reach, live, markers0 = reader0.reachable(), reader0.live_protected(now, TIMEOUT_MS), reader0.markers()
        probe = os.path.join(base, "probe", "tbl")
        os.makedirs(os.path.dirname(probe))
        gcsim.copy_table(root, probe)
        pre = gcsim.run_collect(load_table(probe), spec["grace"], now)["pre_trace"]   # refresh() + the hint check
        occ: Dict[Tuple[str, str], int] = {}
        k = 0
        for (op, key, _f) in pre:
            if op.startswith("?"):
                continue
            o = occ.get((op, key), 0)
            occ[(op, key)] = o + 1
            for kind in KINDS[op]:
                k += 1
                dst = os.path.join(base, f"r{k}", "tbl")
                os.makedirs(os.path.dirname(dst))
                gcsim.copy_table(root, dst)
                before = gcsim.list_tree(dst)
                t2 = load_table(dst)
                real = gcsim.run_collect(t2, spec["grace"], now, [{"op": op, "key": key, "occ": o, "kind": kind}])
                after = gcsim.list_tree(dst)
                out["violations"].extend(judge(spec["grace"], now, reach, live, markers0, before, after, real, "refresh" if real["raised"] else "none",
                                               f"{kind}@refresh:{op}"))
                out["runs"] += 1
                shutil.rmtree(os.path.dirname(dst), ignore_errors=True)
    except Exception:
        out["harness_error"] = traceback.format_exc()[-1500:]
    finally:
        shutil.rmtree(base, ignore_errors=True)
    return out


# ------------------------------------------------------------------------------------------ campaign
def make_specs(ctx) -> List[Dict[str, Any]]:
    quick = ctx.tier == "quick"
    specs = []
    variants = [
        {"snaps": 1, "rewrite": False, "expire": False},
        {"snaps": 2, "rewrite": True, "expire": False},
        {"snaps": 3, "rewrite": False, "expire": True, "legacy_marker": True},
        {"snaps": 4, "rewrite": True, "expire": True},
    ]
    graces = [0] if quick else [0, 3600000]
    for vi, v in enumerate(variants):
        for g in graces:
            specs.append(dict(v, seed=ctx.rng.randrange(1 << 30), grace=g, all_kinds=True, pairs=int(os.environ.get("VERIF_C07_PAIRS", 0 if quick else 250)),
                              base=os.path.join(ctx.scratch, f"f{vi}_{g}")))
    return specs


def run_campaign(ctx) -> None:
    specs = make_specs(ctx)
    t0 = time.time()
    workers = min(12, max(1, (os.cpu_count() or 2) - 2))
    with cf.ProcessPoolExecutor(max_workers=workers, mp_context=mp.get_context("spawn")) as ex:
        futs = [ex.submit(run_table, s) for s in specs]
        rfut = [ex.submit(refresh_faults, s) for s in specs[:2]]
        results = [f.result() for f in futs]
        rres = [f.result() for f in rfut]
    ctx.stats["campaign_wall_s"] = round(time.time() - t0, 1)
    agg = {"tables": len(specs), "storage_calls_per_collection": [], "fault_runs": 0, "damage_runs": 0, "raised": 0, "absorbed_or_completed": 0,
           "refresh_fault_runs": sum(r.get("runs", 0) for r in rres), "not_judged_parses_as_empty": 0}
    for r in rres:
        if "harness_error" in r:
            ctx.proof_problems.append("refresh-fault harness raised: " + r["harness_error"][-600:])
        for v in r["violations"]:
            ctx.violation(v["key"], v["what"], {"spec": {k: specs[0][k] for k in specs[0] if k != "base"}, "campaign": "refresh"})
    stage1, recs = [], []
    for spec, res in zip(specs, results):
        if "harness_error" in res:
            ctx.proof_problems.append("fault harness raised: " + res["harness_error"][-600:])
            continue
        agg["storage_calls_per_collection"].append(res["stats"]["calls"])
        agg["fault_runs"] += res["stats"]["fault_runs"]
        agg["damage_runs"] += res["stats"]["damage_runs"]
        agg["raised"] += res["stats"]["raised"]
        agg["absorbed_or_completed"] += res["stats"]["absorbed"]
        if "stale_hint_completed_deleting" in res["stats"]:
            agg.setdefault("not_judged_stale_hint_files_deleted", []).append(res["stats"]["stale_hint_completed_deleting"])
        pspec = {k: spec[k] for k in spec if k != "base"}
        for v in res["violations"]:
            ctx.violation(v["key"], v["what"], {"spec": pspec, "campaign": "faults"})
        m = res["model"]
        stage1.append(gcsim.gc_expr(m["tp"], m["grace"], m["now_ms"], TIMEOUT_MS, [], m["snaps"], f"base{len(recs)}"))
        recs.append((spec, res))
    ctx.stats["faults"] = agg
    # ---- correspondence: same fault plans through the model
    pre = "\n".join(f"Definition base{i} : store := {res['model']['store']}." for i, (_s, res) in enumerate(recs))
    try:
        clean_models = [gcsim.parse_render(v) for v in coqbuild.coq_eval(REQ, stage1, preamble=pre, chunk=1)]
    except RuntimeError as e:
        ctx.proof_problems.append("model evaluation failed: " + str(e)[:600])
        return
    bad_clean = []
    for (spec, res), cm in zip(recs, clean_models):
        d = gcsim.compare(res["clean"]["real"], res["clean"]["before"], res["clean"]["after"], cm)
        if d:
            bad_clean.append({"spec": {k: spec[k] for k in spec if k != "base"}, "diffs": d[:4]})
    ctx.correspondence("gc_faultfree", len(recs), bad_clean)

    # iterative mapping of fault plans (real: keyed by (op,key,occurrence); model: by call index)
    pending = []   # (rec index, run, mapped faults so far, remaining plan)
    for ri, (spec, res) in enumerate(recs):
        for run in res["runs"]:
            if run["damage"] is not None:
                continue
            pending.append([ri, run, [], list(run["plan"]), clean_models[ri]])
    done: List[Tuple[int, Dict[str, Any], Dict[str, Any]]] = []
    for _stage in range(3):
        exprs, idx = [], []
        for p in pending:
            ri, run, mapped, remaining, last_model = p
            # take the plan entry that fires first in the model's current trace
            best = None
            for f in remaining:
                mi = gcsim.map_fault_index(last_model["trace"], f["op"], f["key"], f["occ"])
                if mi is not None and (best is None or mi < best[0]):
                    best = (mi, f)
            if best is None:
                done.append((ri, run, last_model))
                p[3] = []
                continue
            mapped.append((best[0], best[1]["kind"]))
            remaining.remove(best[1])
            m = recs[ri][1]["model"]
            exprs.append(gcsim.gc_expr(m["tp"], m["grace"], m["now_ms"], TIMEOUT_MS, mapped, m["snaps"], f"base{ri}"))
            idx.append(p)
        if not exprs:
            break
        try:
            vals = coqbuild.coq_eval(REQ, exprs, preamble=pre, chunk=gcsim.chunk_for(len(exprs)), timeout=2400)
        except RuntimeError as e:
            ctx.proof_problems.append("model evaluation failed: " + str(e)[:600])
            return
        nxt = []
        for p, v in zip(idx, vals):
            p[4] = gcsim.parse_render(v)
            if p[3]:
                nxt.append(p)
            else:
                done.append((p[0], p[1], p[4]))
        pending = nxt
    for p in pending:
        done.append((p[0], p[1], p[4]))
    bad = []
    for ri, run, model in done:
        ctx.count(1, ("fault", ri, run["what"], repr(run["plan"])))
        d = gcsim.compare(run["real"], run["before"], run["after"], model, nplan=len(run["plan"] or []))
        if d:
            bad.append({"spec": {k: recs[ri][0][k] for k in recs[ri][0] if k != "base"}, "fault": run["what"], "plan": run["plan"], "diffs": d[:4]})
    ctx.correspondence("gc_faults", len(done), bad)

    # damage classes
    exprs, druns = [], []
    for ri, (spec, res) in enumerate(recs):
        m = res["model"]
        for run in res["runs"]:
            if run["damage"] is None or run.get("pointer_plane"):
                continue
            if run.get("not_judged"):
                agg["not_judged_parses_as_empty"] += 1
            exprs.append(gcsim.gc_expr(m["tp"], m["grace"], m["now_ms"], TIMEOUT_MS, [], m["snaps"], run["store"]))
            druns.append((ri, run))
    try:
        vals = coqbuild.coq_eval(REQ, exprs, chunk=gcsim.chunk_for(len(exprs)), timeout=2400)
    except RuntimeError as e:
        ctx.proof_problems.append("model evaluation failed: " + str(e)[:600])
        return
    bad = []
    for (ri, run), v in zip(druns, vals):
        ctx.count(1, ("damage", ri, run["what"], run["damage"][0]))
        d = gcsim.compare(run["real"], run["before"], run["after"], gcsim.parse_render(v))
        if d:
            bad.append({"spec": {k: recs[ri][0][k] for k in recs[ri][0] if k != "base"}, "damage": run["what"], "file": run["damage"][0], "diffs": d[:4]})
    ctx.correspondence("gc_damage", len(druns), bad)
    if done:
        ri, run, model = done[len(done) // 2]
        ctx.sample({"fault_case": {"fault": run["what"], "plan": run["plan"], "raised": run["real"]["raised"], "exception": run["real"]["exc_type"],
                                   "model_outcome_code": model["out"], "deleted": sorted(model["deleted"])}})


def run(ctx) -> None:
    import logging
    logging.disable(logging.CRITICAL)
    ctx.rule = ("one evaluation = one real collection with one fault plan (a fault at one storage call: 4 kinds; thorough: pairs) or one "
                "damaged reachable file (6 classes), judged by the independent oracle and compared with the model; distinct by "
                "(table, fault kind, call, file role)")
    ctx.trusted_base += [
        "translator/gen_norm.py (regenerated path kernel; try/except skeleton of collect / _load_inflight_protection / _marker_targets / _gc_prefix pinned)",
        "harness: harness/props/c07.py, harness/lib/gcsim.py (fault injection by wrapping the storage backend object; independent reader; frozen clock)",
        "fault model: FRaise = OSError/FileNotFoundError, FRaiseX = any non-OSError exception, FBad = unusable result; one fault changes one call",
    ]
    ctx.assumptions += [
        "writer-side path forms (wf_store) -- see C05",
        "metadata_manager.refresh() is outside the collector model: faults inside it are judged by the oracle only (C10 / C14 own pointer and metadata damage)",
        "an abort raised by a sweep's own listing (failure or '../' entry) may follow deletions of true orphans: the property's second disjunct",
        "damage that still parses as an empty JSON manifest is not judged (DESIGN.md section 7 interpretation, as for C14)",
    ]
    ctx.proofs(THEOREMS, gen_files=["GenNorm.v"])
    ctx.allow_axioms([])
    run_campaign(ctx)


def replay(ctx, payload) -> int:
    case = payload.get("case", {})
    spec = case.get("spec")
    if not spec:
        print("replay: payload names a broken proof / correspondence; re-run ./bin/check C07 thorough")
        return 2
    spec = dict(spec, base=os.path.join(ctx.scratch, "replay"))
    res = refresh_faults(spec) if case.get("campaign") == "refresh" else run_table(spec)
    key = payload.get("key")
    hits = [v for v in res["violations"] if v["key"] == key] or res["violations"]
    for v in hits[:5]:
        print("replay: STILL FAILS", v["key"], "-", v["what"])
    if not hits:
        print("replay: passes now")
    return 1 if hits else 0
