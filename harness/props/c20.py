"""C20 -- Both storage backends implement the same contract.

Proof      : coq/Props/C20.v -- C20_refine_s3 / C20_refine_local / C20_backends_agree (every operation
             sequence over canonical keys; every S3 prefix; any foreign objects in the bucket).  The operation
             alphabet is write / read / exists / list / delete / size / mtime / open_file / read_file_with_etag /
             the CAS writer, and  Open k prog = open_seekable(k) followed by ANY seek/read program on the reader it
             returned -- one operation of the history, so it interleaves with writes, overwrites and deletes of
             the same key on the same backend.  The local theorems constrain only the keys a history WRITES (no
             written key is a directory of another): probes -- exists / read / size / mtime / delete / open -- may
             name anything, also a directory of a written key or a path below one ("existence of exact keys only").
             C20_open_after_history (open_seekable after ANY history answers from the key's CURRENT content,
             FileNotFoundError exactly when the key holds nothing now), C20_open_ranges_in_objects (every ranged GET
             of every open of every history names an object that exists, within its size);
             C20_range_equiv / C20_range_negative_seek / C20_seek_invalid_whence (every content, every seek/read
             program), C20_retry_* / C20_s3_retry_* (every outcome script), C20_s3_retry_definitive (every error on an
             INDEPENDENT list of definitive S3 answers -- Model/Retry.v definitive_codes, from the S3 error-code reference,
             NOT a subset of the library's table as it was found: access / credentials / bucket and the request itself
             refused (InvalidArgument, InvalidRequest, InvalidURI, KeyTooLongError, InvalidRange, MethodNotAllowed) --
             surfaces with the attempt that met it; proved against the REGENERATED table, so it holds only of a library
             whose table has them all: finding retry-contract:definitive-client-error-retried, repaired by a fix: commit).
             Faults inside histories (Model/BackendFault.v = the retry loop composed with every backend method as the
             source wraps it, a positional fault plan per operation, faults BEFORE or AFTER the request took effect):
             C20_s3_faulty_masks_partial -- transient faults, at most max_retries per operation, at any request (a PUT
             that landed and was answered with an error, any page of a listing, get_size's HEAD, any ranged GET of a
             reader) change no result of any history, PROVIDED the request with index max_retries (the operation's last
             attempt) is answered and CAS writes are fault-free.  The property's sentence itself, with NO proviso
             (C20_s3_faulty_masks_full: transient faults, at most max_retries per operation, any operation incl. the CAS
             writer, any request) is FALSE of the code as it is, for two independent reasons: C20_s3_faulty_masks_refuted
             -- a not-found answer is retried like a transient error (C20_not_found_retried,
             C20_not_found_immediate_refuted) and uses up the budget, so one transient error on request max_retries+1 of a
             read of a missing key surfaces instead of FileNotFoundError (finding
             retry-contract:not-found-uses-up-budget, reported by the oracle below on every run);
             C20_s3_faulty_masks_refuted_by_cas -- write_file_cas is not under the retry (C20_cas_put_fault_surfaces), one
             transient error on its conditional PUT surfaces.  Each proviso alone does not suffice:
             C20_s3_faulty_masks_modulo_cas_refuted (the statement formerly called _full),
             C20_s3_faulty_masks_modulo_last_attempt_refuted.
             Regenerated from the source on every run:  Gen/GenS3.v (key mapping, listing Prefix, prefix
             stripping, constructor prefix, create_storage_backend's join, not-found / CAS / permanent code
             literals, retry defaults) and Gen/GenRange.v (S3RangeFile.seek / readinto / readall integer kernels,
             open_seekable's wiring: which key the reader reads and whose get_size() it is given; translator/
             gen_range.py fails closed when open_seekable takes the size from anywhere but a get_size() of this
             call); the remaining hand-modelled functions are pinned by golden AST digests.
Tie        : correspondence, real code vs Coq model (vm_compute):
               gen-kernels   _get_s3_key / list_files Prefix / rel_path stripping / __init__ prefix /
                             create_storage_backend join  vs  Gen/GenS3.v, all strings over {a,b,/} len<=4
               backends      every S3 request issued per operation (kind, key/prefix, count; for an Open on the raw
                             reader every ranged GET's first/last) vs Model/BackendTrace.v;
                             LocalStorageBackend (temp dir) and S3StorageBackend (fakes3) vs Model/Backend.v
                             on enumerated + random op sequences over a 13-key space with sibling-prefix
                             names and 8 probe-only names (directories of keys, paths below keys), issued through
                             up to four backend instances over ONE or TWO stores that use the same bucket, prefix
                             and key names (compared store by store); also raw-string sequences OUTSIDE the
                             canonical domain (leading/trailing slashes, a key that is a directory of another,
                             exists("dir/"), key = prefix)
               faults        S3StorageBackend under positional fault plans (ANY faults: transient / permanent /
                             not-found / precondition codes, transport exceptions; before / after the effect; any
                             request index; every operation incl. the CAS writer and the raw reader) vs
                             Model/BackendFault.v: every result (value, contract error, WHICH exception surfaced)
                             and the final bucket
               range         S3RangeFile vs Model/Range.v (over Gen/GenRange.v): all programs up to a length bound
                             on sizes 0,1,2, sampled programs on 1 MiB+1; bytes, positions, every Range header
               retry         real with_s3_retry (time.sleep virtualised) vs Model/Retry.v: all outcome
                             scripts of length <= 6 (+ length 7) over {good, transient, permanent, non-retryable};
                             attempts, result, sleeps;  is_permanent_s3_error vs the model on a code list
Oracles    : implementation only, judged by the property text (no model involved):
               backends-differ / spec   local vs S3 vs a dict store (one per store) + a 15-line reference file on every
                                        sequence: histories mix write / CAS write / overwrite / delete with
                                        open_seekable + seek/read program (through the BufferedReader and on the raw
                                        reader underneath), open_file, size, read, exists ... on hot keys AND on names
                                        that are not keys (a directory of a key must not exist, has no size, cannot be
                                        read or opened, deleting it is a no-op), with empty and non-empty prefixes and
                                        leading-slash spellings, on one to four instances over one or two stores with
                                        the same names (nothing learnt about one store may show in another's answers)
               range-not-in-object      every ranged GET an Open issues must name an existing object, within its size
               range-file               S3RangeFile and open_seekable()'s BufferedReader vs a real local file
                                        (FileIO / buffered) on the same content; every Range header in range
               process configuration    every fault campaign below runs under PROCESS-WIDE CONFIGURATIONS (harness/lib/procconf.py):
                                        every class of transient failure (S3 error response, OSError below botocore,
                                        BotoCoreError without a response) x every operation x every attempt index x before /
                                        after  x  {library as imported, process at DEBUG}; random histories, listings and retry
                                        scripts rotate through DEBUG via set_level / module loggers / root logger, quieter
                                        levels and logging.disable; the library is never run with logging switched off
                                        (records are formatted and written to a sink)
               definitive codes         a store answering every request with a code of DEFINITIVE_CLIENT_CODES (independent of
                                        the library's table): 9 operations x default / DEBUG must raise that ClientError after
                                        exactly ONE request and no sleep
               retry-contract           attempts / result / sleeps of with_s3_retry judged directly; transient faults
                                        (<= max_retries per operation, before / after the effect) at ANY request index
                                        of an operation -- no index is exempt, also not the one that is the retry
                                        loop's last attempt -- incl. open_seekable's HEAD and ranged GETs, and
                                        systematically at every
                                        page of multi-page listings (3..7 keys, page size 2; within / beyond the budget;
                                        permanent errors): listing compared as a sorted LIST (duplicates count), request counts
               paged-listing (corr)     the same listings vs Model/Paged.v (retry restarts the whole listing; C20_paged_listing_*)
"""
from __future__ import annotations

import io
import itertools
import logging
import os
import shutil
import tempfile
import types
from fractions import Fraction
from typing import Any, Dict, List, Optional, Tuple

from harness.lib import coqbuild, procconf
from harness.lib.coqio import C, Some

LEVEL = "proof"
THEOREMS = [
    "C20_refine_s3", "C20_refine_local", "C20_backends_agree", "C20_leading_slash_same",
    "C20_open_after_history", "C20_open_ranges_in_objects",
    "C20_range_equiv", "C20_range_negative_seek", "C20_seek_invalid_whence",
    "C20_retry_masks", "C20_retry_permanent", "C20_retry_nonretryable", "C20_retry_exhaust",
    "C20_retry_returns_own_value", "C20_retry_raises_own_error",
    "C20_s3_retry_masks", "C20_s3_retry_permanent", "C20_s3_retry_exhaust", "C20_s3_retry_definitive",
    "C20_s3_faulty_masks_partial", "C20_s3_faulty_masks_refuted", "C20_s3_faulty_masks_refuted_by_cas",
    "C20_s3_faulty_masks_modulo_cas_refuted", "C20_s3_faulty_masks_modulo_last_attempt_refuted",
    "C20_not_found_retried", "C20_not_found_immediate_refuted",
    "C20_cas_put_fault_surfaces",
    "C20_paged_listing_masks", "C20_paged_listing_permanent",
]
REQ = ["DS.Model.Str", "DS.Gen.GenS3", "DS.Gen.GenRange", "DS.Model.Backend", "DS.Model.Range", "DS.Model.Retry", "DS.Model.BackendTrace", "DS.Model.Paged", "DS.Model.BackendFault", "DS.Model.C20IO"]

MANIFEST_ENTRY = {
    "level_text": "C20_refine_s3 / C20_refine_local / C20_backends_agree proved in Coq for every operation sequence over canonical "
                  "keys (unbounded length and key space; every S3 prefix; arbitrary foreign objects in the bucket) whose "
                  "alphabet includes open_seekable + any seek/read program as ONE operation of the history (so it interleaves "
                  "with writes, CAS writes, overwrites and deletes of the same key), open_file and read_file_with_etag; the local "
                  "theorems constrain the WRITTEN keys only (probes may name directories of keys or paths below keys: exact keys only); "
                  "C20_open_after_history (open_seekable after any history answers from the key's current content), "
                  "C20_open_ranges_in_objects (every ranged GET of every open names an existing object within its size), "
                  "C20_range_equiv for every content and seek/read program (bytes, positions, negative target = error, every "
                  "Range within 0<=first<=last<size), C20_retry_* for every outcome script (masking within budget, permanent "
                  "errors surface at once, exhaustion after exactly max+1 attempts, nothing swallowed or invented), "
                  "C20_s3_retry_definitive (a list of definitive S3 errors taken from the S3 error reference, not from the library's table -- "
                  "access / credentials / bucket and request-refused codes InvalidArgument, InvalidRequest, InvalidURI, KeyTooLongError, "
                  "InvalidRange, MethodNotAllowed -- surfaces with the attempt that met it; proved against the regenerated table: false of "
                  "the library as found, which retried the request-refused codes max_retries times -- repaired by a fix: commit); "
                  "C20_s3_faulty_masks_partial: the retry loop composed with every backend method (Model/BackendFault.v) -- transient "
                  "faults before or after the effect, at most max_retries per operation, at any request of any operation of any "
                  "history change no result, PROVIDED the request with index max_retries of each operation is answered and CAS "
                  "writes are fault-free; the property's sentence without any proviso (C20_s3_faulty_masks_full: no CAS exemption, no "
                  "exempt request) is REFUTED twice (C20_s3_faulty_masks_refuted: a not-found "
                  "answer is retried and uses up the budget -- C20_not_found_retried -- so one transient error on request "
                  "max_retries+1 of a read of a missing key surfaces; finding retry-contract:not-found-uses-up-budget; "
                  "C20_s3_faulty_masks_refuted_by_cas: one transient error on write_file_cas's conditional PUT surfaces -- "
                  "C20_cas_put_fault_surfaces, write_file_cas is not under the retry), and so is the statement with either proviso alone "
                  "(C20_s3_faulty_masks_modulo_cas_refuted, C20_s3_faulty_masks_modulo_last_attempt_refuted); key "
                  "mapping, listing Prefix, prefix stripping, code literals, retry defaults, S3RangeFile's seek / readinto / "
                  "readall kernels and open_seekable's wiring (key and size source of the reader) are regenerated from the "
                  "source on every run; models tied to LocalStorageBackend / S3StorageBackend / S3RangeFile / with_s3_retry by "
                  "differential execution over in-memory S3 stores through one to four backend instances over one or two stores "
                  "with the same names, with and without injected faults, the fault campaigns under process-wide configurations (every "
                  "transient fault class x library default / DEBUG, other logging configurations in rotation; logging never disabled by "
                  "the harness); implementation-only oracles search for a failing input",
    "level_note": "trusted: Coq kernel; translator/gen_s3.py, translator/gen_range.py (+ golden AST digests of the hand-modelled "
                  "functions); a reader is used within one operation (the object does not change while it is read); the CAS "
                  "writer is modelled only as used correctly in a sequential history (tag just read) and its conditional PUT is "
                  "outside the masking theorem: it is not retried BY DESIGN (a re-sent conditional PUT whose first copy landed is refused "
                  "and would be reported as a conflict; the local backend has no CAS writer to compare with), so its surfacing transient "
                  "error is stated (C20_s3_faulty_masks_refuted_by_cas) and not reported as a violation; the process configuration "
                  "(log levels) is a dimension of the oracles only -- the Coq model of the retry loop has no logging, the loop's text is "
                  "pinned by a golden AST digest; the S3 "
                  "object-store model (strong consistency, GET/HEAD/PUT/DELETE/list-by-string-prefix, NoSuchKey/404) as "
                  "implemented by harness/lib/fakes3.py; local theorem assumes no WRITTEN key is a directory of another written key and no "
                  "'.'/'..'/empty segments (path normalisation is C17); LocalStorageBackend is hand-modelled (no translator; tied by the "
                  "backend-local correspondences only); a path spelled with a trailing '/' (exists('data/')) is outside the canonical "
                  "domain: compared per backend with its model, differences between the backends counted, not judged; "
                  "BufferedReader is covered by oracles only (its ranged GETs are judged in range, not predicted); the masking theorem "
                  "carries the proviso stated in level_text -- without it the statement is false of the code (known finding, no small "
                  "repair: not retrying not-found answers would remove the library's documented tolerance of eventually consistent stores)",
    "technique": "Coq refinement proofs (simulation + induction over operation lists whose alphabet includes open_seekable with "
                 "a seek/read program; the retry loop composed with every backend method under per-request fault plans) over "
                 "translator-regenerated kernels + differential correspondence against real "
                 "backends (up to four instances over one or two stores, with and without injected faults) over in-memory S3",
    "design_ref": "DESIGN.md section 5 C20",
}

KEYS = ["data/x", "data/y.parquet", "data2/x", "database", "dat", "metadata/v1.metadata.json", "metadata/v2.metadata.json",
        "metadata.version-hint.text", "metadata/manifests/m1.avro", "metadata/manifests2", "metadata/inflight/t.inflight", "x", "p"]
DIRS = ["", "data", "data2", "dat", "metadata", "metadata/manifests", "metadata/inflight", "database", "nosuch", "data/x", "meta"]
# names that are never WRITTEN but probed (exists / read / size / mtime / delete / open): directories of KEYS, paths below
# KEYS, nothing at all.  "existence of exact keys only": both backends must answer them as the contract does for a
# key that holds nothing.
PROBE_ONLY = ["data", "metadata", "metadata/manifests", "data2", "data/x/below", "x/y", "database/z", "nosuch/k"]
CONTENTS = [b"", b"a", b"bc", b"xyz1"]
PREFIXES = [("", []), ("p", []), ("wh/t1", [("wh/t10/data/y", b"o"), ("wh/t1", b"s"), ("zz", b"")]),
            ("wh/t1/", [("wh/t10/data/x", b"o"), ("wh/t1data/x", b"q")]), ("/lead//", [("lead/data/x", b"n")])]
OPS = ["Write", "Read", "Exists", "ListDir", "Delete", "Size", "Mtime", "Open", "Stream", "WriteCas", "ReadTag"]
OP_WEIGHTS = [5, 3, 3, 4, 3, 2, 1, 5, 1, 2, 1]
# seek/read programs run on the reader an Open operation obtains (contents are 0..4 bytes long)
PROG_OFFS = [-5, -2, -1, 0, 1, 2, 3, 4, 5, 7]
PROG_READS = [0, 1, 2, 3, 5]


# ======================================================================================== plumbing
def ceval(exprs: List[str], chunk: int = 400) -> List[Any]:
    """coq_eval in groups of at most JOBS chunks.  coqbuild.coq_eval collects a job's output only after it
    exits (or once every job has been launched); with more chunks than JOBS and a chunk output larger than
    the pipe buffer all running jobs block on their pipes and the launcher waits forever.  Launching at most
    JOBS chunks per call avoids that without touching the shared file."""
    out: List[Any] = []
    group = chunk * max(1, coqbuild.JOBS)
    for i in range(0, len(exprs), group):
        out.extend(coqbuild.coq_eval(REQ, exprs[i:i + group], chunk=chunk))
    return out


class VirtualSleep:
    """Replaces the `time` module seen by datashard.s3_consistency: sleeps are recorded, not slept."""

    def __init__(self) -> None:
        import time as _t
        self.sleeps: List[float] = []
        self.time = _t.time
        self.monotonic = _t.monotonic

    def sleep(self, d: float) -> None:
        self.sleeps.append(d)


def quiet_library() -> VirtualSleep:
    """The library as a fresh process configures itself (its logger at its default level, nothing disabled): every log
    record is formatted as in production and written to a sink.  Never logging.disable / a raised level: what the library
    does while it logs is part of what is checked."""
    procconf.quiet()
    procconf.baseline()
    import datashard.s3_consistency as sc
    vs = VirtualSleep()
    sc.time = vs  # type: ignore[assignment]
    return vs


# ---- process-wide configuration as a dimension of every fault campaign (harness/lib/procconf.py events): the library as
# imported, and the configurations an application can put the process in (DEBUG through the library's own set_level, through
# the module loggers, through the root logger; quieter levels; logging.disable)
CONF_BOTH: List[Tuple[str, List[List[Any]]]] = [("default", []), ("debug", [["set_level", 10]])]
CONF_RING: List[str] = ["default", "debug", "mod-debug", "default", "debug", "app-root-debug", "warning", "debug", "app-disable-info", "critical"]


def conf_of(index: int) -> List[List[Any]]:
    """Configuration of the index-th case of a campaign: default and DEBUG most often, the other named ones in rotation."""
    return [list(e) for e in procconf.NAMED[CONF_RING[index % len(CONF_RING)]]]


def err_kind(e: BaseException) -> Tuple[str, ...]:
    from botocore.exceptions import ClientError
    if isinstance(e, FileNotFoundError):
        return ("err", "NotFound")
    if isinstance(e, IsADirectoryError):
        return ("err", "IsDir")
    if isinstance(e, (NotADirectoryError, FileExistsError)):
        return ("err", "NotDir")
    if isinstance(e, ClientError):
        return ("err", "ClientErr")
    if type(e).__name__ == "CASConflictError":
        return ("err", "Conflict")
    return ("exc", type(e).__name__)


def apply_op(be: Any, op: Tuple[Any, ...], local_root: Optional[str] = None, exc_obs: Any = None) -> Tuple[Any, ...]:
    """exc_obs: how an exception becomes an observation (default err_kind)."""
    name, path = op[0], op[1]
    try:
        if name == "Write":
            be.write_file(path, op[2])
            return ("unit",)
        if name == "Read":
            return ("bytes", bytes(be.read_file(path)))
        if name == "Exists":
            return ("bool", bool(be.exists(path)))
        if name == "ListDir":
            return ("list", tuple(sorted(p.replace(os.sep, "/") for p in be.list_files(path))))
        if name == "Delete":
            be.delete_file(path)
            return ("unit",)
        if name == "Size":
            n = be.get_size(path)
            if local_root is not None and os.path.isdir(be._resolve_path(path)):
                return ("sizedir",)
            return ("size", int(n))
        if name == "Mtime":
            float(be.get_modified_time(path))
            return ("unit",)
        if name == "Open":
            # open_seekable() on THIS backend instance, then a seek/read program on what it returned: through the
            # BufferedReader ("buf") or on the raw reader underneath it ("raw": S3RangeFile / io.FileIO)
            f = be.open_seekable(path)
            try:
                raw = op[3] == "raw"
                obs, final = run_reader(f.raw if raw else f, op[2], raw=raw)
            finally:
                f.close()
            return ("opened", tuple(obs), final)
        if name == "Stream":
            f = be.open_file(path)
            try:
                return ("bytes", bytes(f.read()))
            finally:
                f.close()
        if name == "ReadTag":
            return ("bytes", bytes(be.read_file_with_etag(path)[0]))
        if name == "WriteCas":
            # the compare-and-swap writer, used correctly: current tag (or create-if-absent), then the conditional write;
            # a backend without CAS writes plainly
            if be.supports_cas:
                try:
                    tag = be.read_file_with_etag(path)[1]
                except FileNotFoundError:
                    tag = None
                be.write_file_cas(path, op[2], tag)
            else:
                be.write_file(path, op[2])
            return ("unit",)
    except Exception as e:  # noqa: BLE001 - the error kind IS the observation
        return (exc_obs or err_kind)(e)
    raise ValueError(name)


def gen_prog(rng, maxlen: int = 5) -> Tuple[Tuple[Any, ...], ...]:
    prog: List[Tuple[Any, ...]] = []
    for _ in range(rng.randint(0, maxlen)):
        c = rng.random()
        if c < 0.45:
            prog.append(("Seek", rng.choice(PROG_OFFS), rng.choice(["SeekSet", "SeekCur", "SeekEnd"]) if rng.random() < 0.95 else "SeekBad"))
        elif c < 0.75:
            prog.append(("ReadInto", rng.choice(PROG_READS)))
        elif c < 0.9:
            prog.append(("ReadAll",))
        else:
            prog.append(("Tell",))
    return tuple(prog)


def gen_op(rng, keys: List[str], dirs: List[str], weights: Optional[List[int]] = None, probes: Optional[List[str]] = None,
           modes: Tuple[str, ...] = ("buf", "raw")) -> Tuple[Any, ...]:
    """probes: names only ever probed, never written (directories of keys, paths below keys)."""
    name = rng.choices(OPS, weights=weights or OP_WEIGHTS)[0]
    if name == "ListDir":
        return (name, rng.choice(dirs))
    if name in ("Write", "WriteCas"):
        return (name, rng.choice(keys), rng.choice(CONTENTS))
    k = rng.choice(probes) if probes and rng.random() < 0.18 else rng.choice(keys)
    if name == "Open":
        return (name, k, gen_prog(rng), rng.choice(modes))
    return (name, k)


def ref_file(data: bytes, prog) -> Tuple[Any, ...]:
    """What a file holding `data` answers to a seek/read program, from the property text: bytes and positions of
    a plain file, a negative target position is an error (and leaves the position alone)."""
    pos, out = 0, []
    for op in prog:
        if op[0] == "Seek":
            base = {"SeekSet": 0, "SeekCur": pos, "SeekEnd": len(data)}.get(op[2])
            if base is None or base + op[1] < 0:
                out.append(("err",))
            else:
                pos = base + op[1]
                out.append(("pos", pos))
        elif op[0] == "Tell":
            out.append(("pos", pos))
        else:
            d = data[pos:] if op[0] == "ReadAll" else data[pos:pos + op[1]]
            pos += len(d)
            out.append(("data", d))
    return ("opened", tuple(out), pos)


def model_obs(o: Any) -> Tuple[Any, ...]:
    """A parsed `pobs` term -> the same canonical shape apply_op produces."""
    if isinstance(o, C):
        if o.name == "PUnit":
            return ("unit",)
        if o.name == "PBytes":
            return ("bytes", o.args[0].encode("latin-1"))
        if o.name == "PBool":
            return ("bool", o.args[0])
        if o.name == "PList":
            return ("list", tuple(sorted(o.args[0])))
        if o.name == "PSize":
            return ("size", o.args[0])
        if o.name == "PSizeDir":
            return ("sizedir",)
        if o.name == "PErr":
            return ("err", o.args[0].name)
        if o.name == "POpened":
            return ("opened", tuple(model_sobs(x) for x in o.args[0]), o.args[1])
    raise ValueError(f"unexpected model observation {o!r}")


def model_sobs(o: Any) -> Tuple[Any, ...]:
    if o.name == "PPos":
        return ("pos", o.args[0])
    if o.name == "PRErr":
        return ("err",)
    if o.name == "PStr":
        return ("data", o.args[0].encode("latin-1"))
    raise ValueError(f"unexpected reader observation {o!r}")


def cstr(s: str) -> str:
    assert all(32 <= ord(c) < 127 and c != '"' for c in s), s
    return '"' + s + '"'


def op_coq(op: Tuple[Any, ...], keyfn: str) -> str:
    """keyfn: 'kk' (canonical keys as segment lists) or '' (raw strings)."""
    k = f"({keyfn} {cstr(op[1])})" if keyfn else cstr(op[1])
    if op[0] in ("Write", "WriteCas"):
        return f"({op[0]} {k} (lit {cstr(op[2].decode('latin-1'))}))"
    if op[0] == "Open":
        return f"(Open {k} {prog_coq(op[2])})"
    return f"({op[0]} {k})"


def foreign_coq(F: List[Tuple[str, bytes]]) -> str:
    return "[" + "; ".join(f"({cstr(k)}, {cstr(v.decode('latin-1'))})" for k, v in F) + "]"


_BUCKET_SEQ = itertools.count(1)


def fresh_bucket() -> str:
    """A bucket name no earlier evaluation of this process has used.  Every evaluation of a case gets its own, so that
    whatever a defective library keeps OUTSIDE the store (keyed by bucket / key names) cannot leak from one case into the
    next one -- a reported case then fails on its own, in a fresh process too (its replay).  Inside one case all stores
    share the name: that is where such state must not show."""
    return f"bucket{next(_BUCKET_SEQ)}"


def store_of(h: int) -> int:
    """Handles 0,1 are two backend instances over store 0; handles 2,3 two instances over store 1, ...: SEPARATE
    stores (another endpoint / another warehouse directory) that use the same bucket, prefix and key names."""
    return h // 2


def run_local(ctx, ops: List[Tuple[Any, ...]], hs: Optional[List[int]] = None) -> List[Tuple[Any, ...]]:
    """hs[i] = which backend INSTANCE (handle) issues operation i; the instances of one store share one directory.
    An instance is created when its handle is first used (so some are created in the middle of a history)."""
    from datashard.storage_backend import LocalStorageBackend
    roots: Dict[int, str] = {}
    bes: Dict[int, Any] = {}
    out = []
    try:
        for i, op in enumerate(ops):
            h = hs[i] if hs else 0
            st = store_of(h)
            if st not in roots:
                roots[st] = tempfile.mkdtemp(prefix="loc-", dir=ctx.scratch)
            if h not in bes:
                bes[h] = LocalStorageBackend(roots[st])
            out.append(apply_op(bes[h], op, local_root=roots[st]))
        return out
    finally:
        for r in roots.values():
            shutil.rmtree(r, ignore_errors=True)


def req_tuple(r: Dict[str, Any]) -> Tuple[Any, ...]:
    if r["op"] == "get_object" and r.get("Range"):
        return ("get_range", r["Key"]) + parse_range(r["Range"])
    return (r["op"], r.get("Key") if r.get("Key") is not None else r.get("Prefix"), r.get("MaxKeys") == 1)


def run_s3(ops: List[Tuple[Any, ...]], raw_prefix: str, foreign: List[Tuple[str, bytes]], page_size: int = 2, hs: Optional[List[int]] = None):
    """hs[i] = which S3StorageBackend instance issues operation i; the instances of one store share one client;
    every store is its own FakeS3 with the SAME bucket name, prefix and foreign objects.  An instance is created
    when its handle is first used.  Returns the observations and the first store (all stores' dumps in .dumps)."""
    from harness.lib.fakes3 import FakeS3, make_s3_backend
    stores: Dict[int, Any] = {}
    bes: Dict[int, Any] = {}
    bname = fresh_bucket()

    def store(st: int) -> Any:
        if st not in stores:
            c = FakeS3(buckets=(bname,), page_size=page_size)
            for k, v in foreign:
                c.seed(k, v)
            stores[st] = c
        return stores[st]

    first = store(0)
    out = []
    traces: List[List[Tuple[Any, ...]]] = []
    bad_ranges: List[Dict[str, Any]] = []
    for i, op in enumerate(ops):
        h = hs[i] if hs else 0
        s3 = store(store_of(h))
        if h not in bes:
            bes[h] = make_s3_backend(s3, bucket=bname, prefix=raw_prefix)
        for c in stores.values():
            c.clear_log()
        before = s3.dump() if op[0] == "Open" else None
        out.append(apply_op(bes[h], op))
        traces.append([req_tuple(r) for r in s3.log])
        for st2, c in stores.items():
            if c is not s3 and c.log:
                # an operation on one store must not talk to another one
                bad_ranges.append({"index": i, "key": None, "range": None, "object_size": None, "wrong_store": st2})
        if before is not None:
            # "requesting only in-range bytes": every ranged GET names an object that exists, within its size
            for r in s3.log:
                if r["op"] == "get_object" and r.get("Range"):
                    a, b = parse_range(r["Range"])
                    size = len(before[r["Key"]]) if r["Key"] in before else None
                    if size is None or not (0 <= a <= b < size):
                        bad_ranges.append({"index": i, "key": r["Key"], "range": [a, b], "object_size": size})
    first.traces = traces  # type: ignore[attr-defined]
    first.bad_ranges = bad_ranges  # type: ignore[attr-defined]
    first.dumps = {st: c.dump() for st, c in stores.items()}  # type: ignore[attr-defined]
    return out, first


def spec_oracle(ops: List[Tuple[Any, ...]], hs: Optional[List[int]] = None) -> List[Tuple[Any, ...]]:
    """The contract as the property states it, on a dict per store: exact keys, listings confined to the named
    directory, a reader that behaves like a file holding the key's CURRENT content.
    A leading "/" is the library's table-absolute spelling of the same key ("/data/x.parquet")."""
    sts: Dict[int, Dict[str, bytes]] = {}
    out: List[Tuple[Any, ...]] = []
    for i, op in enumerate(ops):
        st = sts.setdefault(store_of(hs[i]) if hs else 0, {})
        n, p = op[0], op[1].lstrip("/")
        if n in ("Write", "WriteCas"):
            st[p] = op[2]
            out.append(("unit",))
        elif n in ("Read", "Stream", "ReadTag"):
            out.append(("bytes", st[p]) if p in st else ("err", "NotFound"))
        elif n == "Exists":
            out.append(("bool", p in st))
        elif n == "ListDir":
            out.append(("list", tuple(sorted(k for k in st if p == "" or k.startswith(p + "/")))))
        elif n == "Delete":
            st.pop(p, None)
            out.append(("unit",))
        elif n == "Size":
            out.append(("size", len(st[p])) if p in st else ("err", "NotFound"))
        elif n == "Mtime":
            out.append(("unit",) if p in st else ("err", "NotFound"))
        elif n == "Open":
            out.append(ref_file(st[p], op[2]) if p in st else ("err", "NotFound"))
        else:
            raise ValueError(n)
    return out


# ======================================================================================== backend cases
# a case = (raw S3 prefix, foreign objects, operations, handle of each operation)
Case = Tuple[str, List[Tuple[str, bytes]], List[Tuple[Any, ...]], List[int]]
PROBE_PROGS = [(("Seek", 0, "SeekEnd"), ("Seek", -1, "SeekCur"), ("ReadInto", 5), ("Tell",)),
               (("ReadInto", 1), ("Seek", -2, "SeekEnd"), ("ReadAll",), ("Seek", -1, "SeekSet")),
               (("ReadAll",), ("Seek", 1, "SeekSet"), ("ReadInto", 2)),
               ()]


def gen_handles(rng, n: int, stores: bool = True) -> List[int]:
    """Which backend instance issues each operation: one instance throughout; two instances over the same store
    (two processes / a writer and a scanner), switching at random; or up to four instances over TWO stores that use
    the same bucket, prefix and key names (see store_of)."""
    c = rng.random()
    if c < 0.4:
        return [0] * n
    if c < 0.7 or not stores:
        return [rng.randrange(2) for _ in range(n)]
    return [rng.choice([0, 0, 2, 2, 1, 3]) for _ in range(n)]


def gen_two_store_cases(ctx) -> List["Case"]:
    """Enumerated: the same key written with contents of different lengths in two stores, then sized / opened / read /
    listed / deleted / overwritten in one store and probed in the other -- nothing learnt from one store (or kept by a
    backend instance that is gone) may show in the answers about the other."""
    cases: List[Case] = []
    keys = ["data/x", "data/y.parquet", "metadata/v1.metadata.json", "x"]
    for i, k in enumerate(keys):
        for j, (pfx, F) in enumerate(PREFIXES):
            if ctx.tier == "quick" and (i + j) % 2:
                continue
            a, b, c = CONTENTS[1 + (i + j) % 3], CONTENTS[1 + (i + j + 1) % 3], CONTENTS[(i + j + 2) % 4]
            pg = PROBE_PROGS[(i + j) % 3]
            mode = "raw" if (i + j) % 2 else "buf"
            ops = [("Write", k, a), ("Write", k, b), ("Size", k), ("Size", k), ("Open", k, pg, mode), ("Open", k, pg, mode), ("Read", k), ("Exists", k),
                   ("Delete", k), ("Size", k), ("Exists", k), ("Read", k), ("Open", k, pg, mode), ("ListDir", ""), ("ListDir", ""),
                   ("Write", k, c), ("Size", k), ("Size", k), ("Open", k, pg, mode), ("Mtime", k), ("Stream", k), ("Delete", k), ("Size", k), ("Size", k)]
            hs = [0, 2, 0, 2, 0, 2, 2, 2,
                  0, 2, 2, 2, 2, 0, 2,
                  1, 1, 3, 3, 2, 2, 3, 1, 2]
            cases.append((pfx, F, ops, hs))
    return cases


def gen_domain_cases(ctx) -> List[Case]:
    rng = ctx.rng
    cases: List[Case] = gen_two_store_cases(ctx)
    # enumerated: every ordered pair of keys x every directory, a fixed probe sequence
    pairs = list(itertools.product(KEYS, KEYS))
    if ctx.tier == "quick":
        pairs = [p for i, p in enumerate(pairs) if i % 2 == 0]
    for i, (k1, k2) in enumerate(pairs):
        for j, d in enumerate(DIRS):
            if ctx.tier == "quick" and (i + j) % 3:
                continue
            pfx, F = PREFIXES[(i + j) % len(PREFIXES)]
            pg = PROBE_PROGS[(i + j) % len(PROBE_PROGS)]
            mode = "raw" if (i + j) % 3 == 0 else "buf"
            ops = [("Write", k1, CONTENTS[(i + j) % 4]), ("Write", k2, CONTENTS[(i + 1) % 4]), ("ListDir", d), ("Exists", k1), ("Open", k1, pg, mode),
                   ("Delete", k1), ("ListDir", d), ("Exists", k1), ("Size", k2), ("Read", k1), ("Read", k2), ("Mtime", k1),
                   ("Open", k1, pg, mode), ("Open", k2, pg, mode), ("Stream", k1), ("Stream", k2),
                   ("Write" if (i + j) % 2 else "WriteCas", k2, CONTENTS[(i + 2) % 4]), ("Open", k2, pg, mode), ("ReadTag", k1)]
            if d and d not in (k1, k2):
                # the directory name (or a name that is nothing at all) probed as if it were a key: "exact keys only"
                probe = [("Exists", d), ("Size", d), ("Mtime", d), ("Read", d), ("Open", d, pg, mode), ("Stream", d), ("Delete", d), ("Exists", d)]
                at = 2 if (i + j) % 3 else len(ops) - 3
                ops = ops[:at] + probe[(i + j) % 4:] + probe[:(i + j) % 4] + ops[at:]
            cases.append((pfx, F, ops, [0] * len(ops) if (i + j) % 4 else [(x * 7 + i) % 2 for x in range(len(ops))]))
    # random; most operations of a case go to a few "hot" keys, so that one key sees write / overwrite / delete /
    # open / size / read in many orders on the same backend instance(s)
    for _ in range(600 if ctx.tier == "quick" else 3000):
        pfx, F = rng.choice(PREFIXES)
        hot = rng.sample(KEYS, rng.randint(1, 3))
        ops = []
        for _ in range(rng.randint(1, 25)):
            ops.append(gen_op(rng, hot if rng.random() < 0.7 else KEYS, DIRS, probes=PROBE_ONLY))
        cases.append((pfx, F, ops, gen_handles(rng, len(ops))))
    return cases


RAW_S3_PATHS = ["a", "a/b", "a/b/c", "/a", "a/", "a//b", "", "p", "p/a", "data", "data/", "data/x", "/data/x", "data2/x", "database",
                "metadata/manifests/", "dat", "/"]
RAW_LOCAL_PATHS = ["a", "a/b", "a/b/c", "/a", "a/", "a//b", "b", "b/c", "data/x", "/data/x", "data", "data/", "ab", ""]


def gen_raw_cases(ctx, paths: List[str], n: int) -> List[List[Tuple[Any, ...]]]:
    rng = ctx.rng
    cases = []
    for _ in range(n):
        ops = []
        for _ in range(rng.randint(1, 14)):
            ops.append(gen_op(rng, paths, paths))
        cases.append(ops)
    return cases


def first_diff(a: List[Any], b: List[Any]) -> Optional[int]:
    for i, (x, y) in enumerate(zip(a, b)):
        if x != y:
            return i
    return None if len(a) == len(b) else min(len(a), len(b))


def judge_domain_case(ctx, pfx: str, F, ops, hs: Optional[List[int]] = None) -> Optional[Dict[str, Any]]:
    """Implementation-only: local vs S3 vs the dict spec. Returns a failure description or None."""
    lo = run_local(ctx, ops, hs)
    s3o, s3c = run_s3(ops, pfx, F, hs=hs)
    sp = spec_oracle(ops, hs)
    i = first_diff(lo, s3o)
    which = "backends-differ"
    if i is None:
        i = first_diff(s3o, sp)
        which = "s3-vs-contract"
    if i is None:
        if s3c.bad_ranges:
            br = s3c.bad_ranges[0]
            return {"which": "request-to-another-store" if br.get("wrong_store") is not None else "range-not-in-object",
                    "index": br["index"], "op": list(ops[br["index"]][:2]), "bad_range": br}
        return None
    return {"which": which, "index": i, "op": list(ops[i][:2]), "local": lo[i], "s3": s3o[i], "contract": sp[i]}


def shrink_ops(ctx, pfx, F, ops, hs, fails) -> Tuple[List[Tuple[Any, ...]], List[int]]:
    """Greedy: drop operations (with their handles), then shorten the programs of Open operations, then fold
    everything onto one handle if the failure survives."""
    cur = list(zip(ops, hs))
    changed = True
    while changed and len(cur) > 1:
        changed = False
        for i in range(len(cur)):
            cand = cur[:i] + cur[i + 1:]
            if cand and fails([c[0] for c in cand], [c[1] for c in cand]):
                cur = cand
                changed = True
                break
    changed = True
    while changed:
        changed = False
        for i, (o, h) in enumerate(cur):
            if o[0] != "Open":
                continue
            for j in range(len(o[2])):
                o2 = (o[0], o[1], o[2][:j] + o[2][j + 1:], o[3])
                cand = cur[:i] + [(o2, h)] + cur[i + 1:]
                if fails([c[0] for c in cand], [c[1] for c in cand]):
                    cur, changed = cand, True
                    break
            if changed:
                break
    if any(h for _, h in cur) and fails([c[0] for c in cur], [0] * len(cur)):
        cur = [(o, 0) for o, _ in cur]
    elif any(h % 2 for _, h in cur) and fails([c[0] for c in cur], [h - h % 2 for _, h in cur]):
        cur = [(o, h - h % 2) for o, h in cur]              # one instance per store
    return [c[0] for c in cur], [c[1] for c in cur]


def ops_json(ops) -> List[List[Any]]:
    out: List[List[Any]] = []
    for o in ops:
        if o[0] in ("Write", "WriteCas"):
            out.append([o[0], o[1], o[2].decode("latin-1")])
        elif o[0] == "Open":
            out.append([o[0], o[1], [list(x) for x in o[2]], o[3]])
        else:
            out.append([o[0], o[1]])
    return out


def ops_unjson(js) -> List[Tuple[Any, ...]]:
    out: List[Tuple[Any, ...]] = []
    for o in js:
        if o[0] in ("Write", "WriteCas"):
            out.append((o[0], o[1], o[2].encode("latin-1")))
        elif o[0] == "Open":
            out.append((o[0], o[1], tuple(tuple(x) for x in o[2]), o[3]))
        else:
            out.append((o[0], o[1]))
    return out


def obs_json(o: Any) -> Any:
    if isinstance(o, bytes):
        return o.decode("latin-1")
    if isinstance(o, (tuple, list)):
        return [obs_json(x) for x in o]
    return o


def classify_ops_failure(ops, bad: Dict[str, Any]) -> str:
    key = f"{bad['which']}:{ops[bad['index']][0]}"
    if ops[bad["index"]][0] == "Open" and bad.get("local") is not None:
        lk, sk = bad["local"][0], bad["s3"][0]
        key += ":s3-opens-what-local-cannot" if (lk, sk) == ("err", "opened") else ":s3-cannot-open" if (lk, sk) == ("opened", "err") \
            else ":reader-bytes-or-positions" if lk == sk == "opened" else ":error-kind"
    return key


def report_ops_violation(ctx, seen_keys, suffix: str, pfx, F, ops, hs, bad) -> None:
    kind = classify_ops_failure(ops, bad)
    # a failure that needs two stores is its own finding (state kept outside the store and keyed by names only); its
    # replay is self-contained, while a one-store case can fail through what EARLIER cases of this process left behind
    sts = sorted({store_of(h) for h in hs})
    two = len(sts) > 1 and all(
        judge_domain_case(ctx, pfx, F, [o for o, h in zip(ops, hs) if store_of(h) == st], [h for h in hs if store_of(h) == st]) is None
        for st in sts)                      # every store's own history is fine in isolation: only the combination fails
    key = kind + (":two-stores-same-names" if two else "") + suffix
    if key in seen_keys:
        return
    seen_keys.add(key)

    def same_failure(c, h) -> bool:
        b = judge_domain_case(ctx, pfx, F, c, h)
        return b is not None and classify_ops_failure(c, b) == kind

    small, shs = shrink_ops(ctx, pfx, F, ops, hs, same_failure)
    bad2 = judge_domain_case(ctx, pfx, F, small, shs)
    if bad2 is None:
        # the failure does not repeat: it depended on earlier evaluations in this process; keep the case as found
        small, shs = list(ops), list(hs)
        key += ":not-repeatable-in-isolation"
    else:
        bad = bad2
    ctx.violation(key, f"prefix={pfx!r} ops={ops_json(small)} handles={shs} (handle h = instance h over store h//2): at op {bad.get('index')} {bad.get('op')} local={bad.get('local')} "
                       f"s3={bad.get('s3')} contract={bad.get('contract')} {bad.get('bad_range') or ''}",
                  {"kind": "ops", "prefix": pfx, "foreign": [[k, v.decode('latin-1')] for k, v in F], "ops": ops_json(small), "handles": shs,
                   "detail": obs_json(bad)})


def oracle_backends(ctx, cases: List[Case]) -> Dict[int, Tuple[List, List, List]]:
    """Runs every in-domain case on both real backends; reports violations; returns the observations."""
    seen_keys: set = set()
    obs: Dict[int, Tuple[List, List, List]] = {}
    nviol = 0
    nopen = nranged = ntwo = nstores = 0
    for idx, (pfx, F, ops, hs) in enumerate(cases):
        lo = run_local(ctx, ops, hs)
        s3o, s3c = run_s3(ops, pfx, F, hs=hs)
        obs[idx] = (lo, s3o, s3c.traces)
        ctx.count(1, ("ops", pfx, repr(ops), tuple(hs)))
        nopen += sum(1 for o in ops if o[0] == "Open")
        nranged += sum(1 for tr in s3c.traces for r in tr if r[0] == "get_range")
        ntwo += 1 if any(hs) else 0
        nstores += 1 if len({store_of(h) for h in hs}) > 1 else 0
        sp = spec_oracle(ops, hs)
        if lo == s3o == sp and not s3c.bad_ranges:
            continue
        nviol += 1
        bad = judge_domain_case(ctx, pfx, F, ops, hs)
        if bad:
            report_ops_violation(ctx, seen_keys, "", pfx, F, ops, hs, bad)
    ctx.stats["backend_domain_cases"] = len(cases)
    ctx.stats["backend_domain_cases_violating"] = nviol
    ctx.stats["backend_open_seekable_operations"] = nopen
    ctx.stats["backend_open_ranged_gets_checked"] = nranged
    ctx.stats["backend_cases_on_two_instances"] = ntwo
    ctx.stats["backend_cases_on_two_stores_same_names"] = nstores
    # the same keys spelled table-absolute ("/data/x"), as manifests spell data file paths
    nabs = 0
    for idx, (pfx, F, ops, hs) in enumerate(cases):
        if idx % 4:
            continue
        aops = [(o[0], ("/" + o[1]) if ctx.rng.random() < 0.5 else o[1]) + tuple(o[2:]) for o in ops]
        nabs += 1
        ctx.count(1, ("ops-abs", pfx, repr(aops), tuple(hs)))
        bad = judge_domain_case(ctx, pfx, F, aops, hs)
        if bad:
            report_ops_violation(ctx, seen_keys, ":leading-slash", pfx, F, aops, hs, bad)
    ctx.stats["backend_domain_cases_leading_slash"] = nabs
    return obs


def strip_ranged(tr: List[Tuple[Any, ...]]) -> List[Tuple[Any, ...]]:
    return [r for r in tr if r[0] != "get_range"]


def corr_backends(ctx, cases: List[Case], impl_obs) -> None:
    # the model describes ONE store: a case over several stores is compared store by store (the operations of each
    # store, in order, against a model run of their own -- stores that share names share nothing else)
    subs: List[Tuple[int, List[int]]] = []          # (case index, indices of the operations of one store)
    for ci, (_pfx, _F, ops, hs) in enumerate(cases):
        for st in sorted({store_of(h) for h in hs}):
            subs.append((ci, [i for i in range(len(ops)) if store_of(hs[i]) == st]))
    exprs = []
    for ci, idxs in subs:
        pfx, F, ops, _hs = cases[ci]
        exprs.append(f"case3 {cstr(pfx)} {foreign_coq(F)} [" + "; ".join(op_coq(ops[i], "kk") for i in idxs) + "]")
    got = ceval(exprs, chunk=120)
    bad_local, bad_s3, bad_thm = [], [], []
    outside = 0
    for (ci, idxs), g in zip(subs, got):
        pfx, F, ops, hs = cases[ci]
        sub_ops = [ops[i] for i in idxs]
        spec_m, local_m, s3_m, wf, pf, fo = g
        spec_m, local_m, s3_m = [model_obs(o) for o in spec_m], [model_obs(o) for o in local_m], [model_obs(o) for o in s3_m]
        lo, s3o = [impl_obs[ci][0][i] for i in idxs], [impl_obs[ci][1][i] for i in idxs]
        if not (wf and pf and fo):
            outside += 1
        elif not (spec_m == local_m == s3_m):
            bad_thm.append({"prefix": pfx, "ops": ops_json(sub_ops), "note": "model runs differ inside the theorem's domain"})
        i = first_diff(lo, local_m)
        if i is not None:
            bad_local.append({"prefix": pfx, "ops": ops_json(sub_ops), "handles": [hs[x] for x in idxs], "index": i, "impl": obs_json(lo[i]),
                              "model": obs_json(local_m[i]) if i < len(local_m) else None})
        i = first_diff(s3o, s3_m)
        if i is not None:
            bad_s3.append({"prefix": pfx, "foreign": [k for k, _ in F], "ops": ops_json(sub_ops), "handles": [hs[x] for x in idxs], "index": i, "impl": obs_json(s3o[i]),
                           "model": obs_json(s3_m[i]) if i < len(s3_m) else None})
    ctx.correspondence("backend-local", len(subs), bad_local)
    ctx.correspondence("backend-s3", len(subs), bad_s3)
    ctx.correspondence("backend-theorem-domain", len(subs), bad_thm)
    ctx.stats["backend_cases_outside_theorem_domain"] = outside
    # which requests each operation issued, and how many times (with_s3_retry around a consistent store); for an Open
    # on the raw reader also every ranged GET (first, last); through the BufferedReader the ranged GETs depend on
    # CPython's buffering and are judged by the oracle only (in range of the object)
    tsubs = subs if ctx.tier != "quick" else [x for n_, x in enumerate(subs) if n_ % 5 < 3]
    exprs = []
    for ci, idxs in tsubs:
        pfx, F, ops, _hs = cases[ci]
        exprs.append(f"trace_case 2 {cstr(pfx)} {foreign_coq(F)} [" + "; ".join(op_coq(ops[i], "kk") for i in idxs) + "]")
    got = ceval(exprs, chunk=120)
    bad_tr = []
    nreq = 0
    for (ci, idxs), g in zip(tsubs, got):
        pfx, F, ops, hs = cases[ci]
        impl_tr = [[tuple(r) for r in impl_obs[ci][2][i]] for i in idxs]
        model_tr = [[model_req(r) for r in tr] for tr in g]
        for j, i0 in enumerate(idxs):
            o = ops[i0]
            if o[0] == "Open" and o[3] == "buf" and j < len(model_tr):
                impl_tr[j], model_tr[j] = strip_ranged(impl_tr[j]), strip_ranged(model_tr[j])
        nreq += sum(len(x) for x in impl_tr)
        i = first_diff(impl_tr, model_tr)
        if i is not None:
            bad_tr.append({"prefix": pfx, "ops": ops_json([ops[x] for x in idxs]), "handles": [hs[x] for x in idxs], "index": i, "impl": impl_tr[i],
                           "model": model_tr[i] if i < len(model_tr) else None})
    ctx.correspondence("backend-s3-requests", len(tsubs), bad_tr)
    ctx.stats["s3_requests_compared"] = nreq
    if cases:
        ctx.sample({"backend_case": {"prefix": cases[0][0], "ops": ops_json(cases[0][2]), "handles": cases[0][3],
                                     "local": [obs_json(o) for o in impl_obs[0][0]], "s3_requests": impl_obs[0][2]}})


def model_req(r: Any) -> Tuple[Any, ...]:
    if r.name == "PReqR":
        return ("get_range", r.args[0], r.args[1], r.args[2])
    return (r.args[0], r.args[1], r.args[2])


def corr_raw(ctx) -> None:
    """Raw strings, outside the canonical domain: each backend against its own model; contract differences are counted."""
    n = 250 if ctx.tier == "quick" else 1500
    s3_cases = [(ctx.rng.choice(PREFIXES), ops) for ops in gen_raw_cases(ctx, RAW_S3_PATHS, n)]
    exprs = [f"run_s3_str {cstr(pf[0])} {foreign_coq(pf[1])} [" + "; ".join(op_coq(o, "") for o in ops) + "]" for pf, ops in s3_cases]
    got = ceval(exprs, chunk=120)
    bad = []
    for (pf, ops), g in zip(s3_cases, got):
        hs = gen_handles(ctx.rng, len(ops), stores=False)
        impl, _ = run_s3(ops, pf[0], pf[1], hs=hs)
        m = [model_obs(o) for o in g]
        i = first_diff(impl, m)
        ctx.count(1, ("raw-s3", pf[0], repr(ops)))
        if i is not None:
            bad.append({"prefix": pf[0], "ops": ops_json(ops), "handles": hs, "index": i, "impl": obs_json(impl[i]), "model": obs_json(m[i])})
    ctx.correspondence("backend-s3-raw-strings", len(s3_cases), bad)

    lcases = gen_raw_cases(ctx, RAW_LOCAL_PATHS, n)
    exprs = ["run_local_str [" + "; ".join(op_coq(o, "") for o in ops) + "]" for ops in lcases]
    got = ceval(exprs, chunk=120)
    bad = []
    differ = 0
    examples: List[Any] = []
    for ops, g in zip(lcases, got):
        impl = run_local(ctx, ops)
        m = [model_obs(o) for o in g]
        i = first_diff(impl, m)
        ctx.count(1, ("raw-local", repr(ops)))
        if i is not None:
            bad.append({"ops": ops_json(ops), "index": i, "impl": obs_json(impl[i]), "model": obs_json(m[i])})
        s3o, _ = run_s3(ops, "p", [])
        j = first_diff(impl, s3o)
        if j is not None:
            differ += 1
            if len(examples) < 4:
                examples.append({"ops": ops_json(ops[:j + 1]), "local": list(map(str, impl[j])), "s3": list(map(str, s3o[j]))})
    ctx.correspondence("backend-local-raw-strings", len(lcases), bad)
    ctx.stats["contract_differences_outside_canonical_domain"] = {"cases": len(lcases), "differing": differ, "examples": examples,
        "note": "WRITTEN keys that are directories of other written keys, empty / '.'-like segments, paths spelled with a trailing '/': outside the canonical domain, counted not judged"}


# ======================================================================================== generated kernels
def small_strings(maxlen: int) -> List[str]:
    out = [""]
    for n in range(1, maxlen + 1):
        out += ["".join(t) for t in itertools.product("ab/", repeat=n)]
    return out


class _OneKeyS3:
    """Stub client whose paginator returns exactly the given keys (to reach the rel_path computation)."""

    def __init__(self, keys: List[str]):
        self.keys = keys
        self.prefix_seen: Optional[str] = None

    def get_paginator(self, _name: str) -> "_OneKeyS3":
        return self

    def paginate(self, **kw: Any):
        self.prefix_seen = kw.get("Prefix")
        yield {"Contents": [{"Key": k} for k in self.keys]}
        yield {}


def corr_kernels(ctx) -> None:
    from datashard import storage_backend as sb
    from harness.lib.fakes3 import FakeS3, make_s3_backend
    strs = small_strings(4)
    pairs = list(itertools.product(strs, strs))
    if ctx.tier == "quick":
        pairs = ctx.rng.sample(pairs, 2500) + [(a, b) for a in ["", "a", "a/", "/a", "ab"] for b in strs]
    be = make_s3_backend(FakeS3(), prefix="")
    exprs, impl = [], []
    for a, b in pairs:
        # a = self.prefix as stored (any string), b = path / key
        be.prefix = a
        key = be._get_s3_key(b)
        stub = _OneKeyS3([b])
        be.s3 = stub
        rel = be.list_files(b)
        impl.append((key, stub.prefix_seen, rel[0]))
        exprs.append(f"(sh (gen_get_s3_key (lit {cstr(a)}) (lit {cstr(b)})), sh (gen_list_prefix (lit {cstr(a)}) (lit {cstr(b)})), "
                     f"sh (gen_strip_prefix (lit {cstr(a)}) (lit {cstr(b)})))")
    got = ceval(exprs)
    bad = [{"prefix": a, "arg": b, "impl": i, "model": list(g)} for (a, b), i, g in zip(pairs, impl, got) if tuple(g) != i]
    ctx.correspondence("gen-kernels", len(pairs), bad)
    # constructor prefix and create_storage_backend's join
    import boto3
    env_pairs = pairs if ctx.tier == "thorough" else pairs[:1500]
    exprs, impl = [], []
    real = boto3.session.Session
    boto3.session.Session = lambda *a, **k: types.SimpleNamespace(client=lambda *a2, **k2: FakeS3())  # type: ignore
    saved = {k: os.environ.get(k) for k in ("DATASHARD_STORAGE_TYPE", "DATASHARD_S3_BUCKET", "DATASHARD_S3_PREFIX")}
    try:
        os.environ["DATASHARD_STORAGE_TYPE"] = "s3"
        os.environ["DATASHARD_S3_BUCKET"] = "bucket"
        for a, b in env_pairs:
            os.environ["DATASHARD_S3_PREFIX"] = a
            impl.append(sb.create_storage_backend(b).prefix)
            exprs.append(f"sh (gen_init_prefix (gen_full_prefix (lit {cstr(a)}) (lit {cstr(b)})))")
    finally:
        boto3.session.Session = real  # type: ignore
        for k, v in saved.items():
            if v is None:
                os.environ.pop(k, None)
            else:
                os.environ[k] = v
    got = ceval(exprs)
    bad = [{"env_prefix": a, "table_path": b, "impl": i, "model": g} for (a, b), i, g in zip(env_pairs, impl, got) if g != i]
    ctx.correspondence("gen-prefix-join", len(env_pairs), bad)
    ctx.count(len(pairs) + len(env_pairs))
    # literal tables and defaults
    import datashard.s3_consistency as sc
    g = coqbuild.coq_eval(REQ, ["map sh gen_permanent_codes", "Z.of_nat gen_max_retries",
                                "map (fun q => (Qnum q, Zpos (Qden q))) [gen_initial_delay; gen_max_delay; gen_backoff_factor]",
                                "map sh gen_cas_conflict_codes"])
    h = sc.default_handler
    bad = []
    if sorted(g[0]) != sorted(sc.PERMANENT_S3_ERROR_CODES):
        bad.append({"what": "PERMANENT_S3_ERROR_CODES", "model": g[0]})
    if g[1] != h.max_retries or [Fraction(a, b) for a, b in g[2]] != [Fraction(repr(x)) for x in (h.initial_delay, h.max_delay, h.backoff_factor)]:
        bad.append({"what": "default_handler parameters", "model": [g[1], g[2]]})
    # CAS conflict codes: behaviour of write_file_cas under each injected code
    for code in ["PreconditionFailed", "412", "ConditionalRequestConflict", "409", "SlowDown", "AccessDenied", "NoSuchKey", ""]:
        s3 = FakeS3()
        b2 = make_s3_backend(s3, prefix="p")
        s3.fail(code, when="before", op="put_object")
        try:
            b2.write_file_cas("k", b"v", None)
            res = "ok"
        except sb.CASConflictError:
            res = "conflict"
        except Exception as e:  # noqa: BLE001
            res = type(e).__name__
        if (res == "conflict") != (code in g[3]):
            bad.append({"what": "CAS conflict code", "code": code, "impl": res, "model_codes": g[3]})
    ctx.correspondence("gen-constants", 3 + 8, bad)


# ======================================================================================== range reader
SIZES_SMALL = [0, 1, 2]
BIG = (1 << 20) + 1
WHENCE = {"SeekSet": 0, "SeekCur": 1, "SeekEnd": 2, "SeekBad": 7}


def content_of(size: int) -> bytes:
    return bytes(j % 251 for j in range(size))


def range_alphabet(size: int) -> List[Tuple[Any, ...]]:
    offs = sorted({-1, 0, 1, size - 1, size, size + 1})
    al: List[Tuple[Any, ...]] = [("Seek", o, w) for w in ("SeekSet", "SeekCur", "SeekEnd") for o in offs]
    al += [("ReadInto", n) for n in sorted({0, 1, size, size + 5})]
    al += [("ReadAll",)]
    return al


def run_reader(f: Any, prog, raw: bool) -> Tuple[List[Any], int]:
    """Drive a file object; observations in the model's alphabet."""
    out: List[Any] = []
    for op in prog:
        try:
            if op[0] == "Seek":
                out.append(("pos", f.seek(op[1], WHENCE[op[2]])))
            elif op[0] == "ReadInto":
                if raw:
                    buf = bytearray(op[1])
                    n = f.readinto(buf)
                    out.append(("data", bytes(buf[:n or 0])))
                else:
                    out.append(("data", bytes(f.read(op[1]))))
            elif op[0] == "ReadAll":
                out.append(("data", bytes(f.readall() if raw else f.read())))
            elif op[0] == "Tell":
                out.append(("pos", f.tell()))
        except ValueError:
            out.append(("err",))
        except OSError:
            # a local file refuses a negative seek with OSError(EINVAL); an OSError out of a READ is a failure of
            # the store that survived the retries and propagates to the caller of the program
            if op[0] != "Seek":
                raise
            out.append(("err",))
    return out, f.tell()


def parse_range(h: str) -> Tuple[int, int]:
    a, b = h[len("bytes="):].split("-")
    return int(a), int(b)


class RangeRig:
    """One object in a fake S3 + the same bytes in a local file."""

    def __init__(self, ctx_scratch: str, size: int):
        from harness.lib.fakes3 import FakeS3, make_s3_backend
        from datashard.storage_backend import LocalStorageBackend
        self.size = size
        self.content = content_of(size)
        self.bucket = fresh_bucket()
        self.s3 = FakeS3(buckets=(self.bucket,))
        self.be = make_s3_backend(self.s3, bucket=self.bucket, prefix="t")
        self.s3.seed("t/obj", self.content)
        self.root = tempfile.mkdtemp(prefix="rng-", dir=ctx_scratch)
        self.local = LocalStorageBackend(self.root)
        self.local.write_file("obj", self.content)
        self.path = os.path.join(self.root, "obj")

    def s3_raw(self):
        from datashard.storage_backend import S3RangeFile
        return S3RangeFile(self.s3, self.bucket, "t/obj", self.size)

    def run(self, prog, buffered: bool) -> Dict[str, Any]:
        self.s3.clear_log()
        if buffered:
            f = self.be.open_seekable("obj")
            g = self.local.open_seekable("obj")
        else:
            f = self.s3_raw()
            g = open(self.path, "rb", buffering=0)
        try:
            a = run_reader(f, prog, raw=not buffered)
            b = run_reader(g, prog, raw=not buffered)
        finally:
            g.close()
        ranges = [parse_range(r["Range"]) for r in self.s3.requests("get_object") if r.get("Range")]
        return {"s3": a, "file": b, "ranges": ranges}

    def judge(self, prog, buffered: bool) -> Optional[Dict[str, Any]]:
        r = self.run(prog, buffered)
        bad_ranges = [x for x in r["ranges"] if not (0 <= x[0] <= x[1] < self.size)]
        if r["s3"] != r["file"] or bad_ranges:
            i = first_diff(r["s3"][0], r["file"][0])
            return {"size": self.size, "buffered": buffered, "prog": [list(p) for p in prog], "index": i,
                    "s3": summarise(r["s3"]), "file": summarise(r["file"]), "bad_ranges": bad_ranges}
        return None


def summarise(res) -> Any:
    obs, final = res
    return {"obs": [(o[0], (len(o[1]), o[1][:4].hex())) if o[0] == "data" else o for o in obs], "final": final}


def programs(size: int, maxlen: int) -> List[Tuple[Tuple[Any, ...], ...]]:
    al = range_alphabet(size)
    out: List[Tuple[Tuple[Any, ...], ...]] = []
    for n in range(1, maxlen + 1):
        out.extend(itertools.product(al, repeat=n))
    return out


def _range_worker(args) -> Tuple[int, List[Dict[str, Any]], int]:
    """(size, maxlen, first-op index slice, buffered, scratch) -> (programs run, failures, ranges seen)"""
    size, progs, buffered, scratch = args
    quiet_library()
    rig = RangeRig(scratch, size)
    fails: List[Dict[str, Any]] = []
    nranges = 0
    for p in progs:
        r = rig.run(p, buffered)
        nranges += len(r["ranges"])
        bad_ranges = [x for x in r["ranges"] if not (0 <= x[0] <= x[1] < size)]
        if (r["s3"] != r["file"] or bad_ranges) and len(fails) < 5:
            fails.append(rig.judge(p, buffered) or {})
    shutil.rmtree(rig.root, ignore_errors=True)
    return len(progs), fails, nranges


def oracle_range(ctx) -> None:
    import concurrent.futures as cf
    import multiprocessing as mp
    rng = ctx.rng
    jobs = []
    maxlen_full = 3 if ctx.tier == "quick" else 4
    for size in SIZES_SMALL + [BIG]:
        progs = programs(size, maxlen_full if size != BIG else 3)
        if size == BIG and ctx.tier == "thorough":
            al = range_alphabet(size)
            progs += [tuple(rng.choice(al) for _ in range(4)) for _ in range(30000)]
        if ctx.tier == "quick":
            al = range_alphabet(size)
            progs += [tuple(rng.choice(al) for _ in range(4)) for _ in range(3000 if size != BIG else 1500)]
        if size == BIG and ctx.tier == "quick":
            progs = rng.sample(progs, 5000)
        for buffered in (False, True):
            ps = progs if not buffered else (progs if ctx.tier == "thorough" and size != BIG else rng.sample(progs, min(len(progs), 3000)))
            if buffered:
                # longer random programs through open_seekable's BufferedReader
                al = range_alphabet(size)
                ps = list(ps) + [tuple(rng.choice(al) for _ in range(12)) for _ in range(300 if ctx.tier == "quick" else 3000)]
            step = max(1, len(ps) // 8)
            for i in range(0, len(ps), step):
                jobs.append((size, ps[i:i + step], buffered, ctx.scratch))
    total = 0
    nranges = 0
    seen = set()
    with cf.ProcessPoolExecutor(max_workers=14, mp_context=mp.get_context("spawn")) as ex:
        for n, fails, nr in ex.map(_range_worker, jobs):
            total += n
            nranges += nr
            for f in fails:
                key = f"range-reader:{'buffered' if f.get('buffered') else 'raw'}:size{f.get('size')}"
                if key in seen:
                    continue
                seen.add(key)
                small = shrink_prog(ctx, f)
                ctx.violation(key, f"S3 reader differs from a local file (or issued an out-of-range Range) on size {f.get('size')}: {small}",
                              dict(small, kind="range"))
    ctx.count(total)
    ctx.stats["range_oracle_programs"] = total
    ctx.stats["range_headers_checked"] = nranges


def shrink_prog(ctx, f: Dict[str, Any]) -> Dict[str, Any]:
    rig = RangeRig(ctx.scratch, f["size"])
    prog = [tuple(p) for p in f["prog"]]
    best = f
    changed = True
    while changed and len(prog) > 1:
        changed = False
        for i in range(len(prog)):
            cand = prog[:i] + prog[i + 1:]
            r = rig.judge(cand, f["buffered"])
            if r:
                prog, best, changed = cand, r, True
                break
    return best


def prog_coq(prog) -> str:
    parts = []
    for op in prog:
        if op[0] == "Seek":
            parts.append(f"Seek ({op[1]}) {op[2]}")
        elif op[0] == "ReadInto":
            parts.append(f"ReadInto {op[1]}")
        else:
            parts.append(op[0])
    return "[" + "; ".join(parts) + "]"


def model_robs(o: Any, digest: bool) -> Any:
    if o.name == "PPos":
        return ("pos", o.args[0])
    if o.name == "PRErr":
        return ("err",)
    if o.name == "PData":
        return ("data", bytes(o.args[0]))
    if o.name == "PDigest":
        return ("digest", o.args[0], o.args[1], o.args[2])
    raise ValueError(o)


def digest_obs(o: Any) -> Any:
    if o[0] == "data":
        d = o[1]
        return ("digest", len(d), d[0] if d else -1, d[-1] if d else -1)
    return o


def corr_range(ctx) -> None:
    rng = ctx.rng
    cases: List[Tuple[int, Tuple[Any, ...]]] = []
    for size in SIZES_SMALL:
        ps = programs(size, 3)
        if ctx.tier == "quick":
            ps = [p for p in ps if len(p) <= 2] + rng.sample([p for p in ps if len(p) == 3], 1500)
        al = range_alphabet(size) + [("Tell",), ("Seek", 0, "SeekBad")]
        ps += [tuple(rng.choice(al) for _ in range(rng.randint(4, 8))) for _ in range(300 if ctx.tier == "quick" else 3000)]
        cases += [(size, p) for p in ps]
    exprs = [f"range_case false (content_of_size {s}) {prog_coq(p)}" for s, p in cases]
    got = ceval(exprs)
    rigs = {s: RangeRig(ctx.scratch, s) for s in SIZES_SMALL + [BIG]}
    bad = []
    for (size, p), g in zip(cases, got):
        obs_m, final_m, rs_m, fobs_m, ffinal_m = g
        r = rigs[size].run(p, buffered=False)
        impl = (r["s3"][0], r["s3"][1], [tuple(x) for x in r["ranges"]])
        model = ([model_robs(o, False) for o in obs_m], final_m, [tuple(x) for x in rs_m])
        ctx.count(1, ("range", size, repr(p)))
        if impl != model:
            bad.append({"size": size, "prog": [list(x) for x in p], "impl": summarise((impl[0], impl[1])), "impl_ranges": impl[2],
                        "model_final": final_m, "model_ranges": rs_m})
    ctx.correspondence("range-reader", len(cases), bad)
    # the large object: one batch so the content is built once inside Coq
    al = range_alphabet(BIG) + [("Tell",)]
    bigp = [tuple(rng.choice(al) for _ in range(rng.randint(1, 4))) for _ in range(40 if ctx.tier == "quick" else 400)]
    batches = [bigp[i:i + 20] for i in range(0, len(bigp), 20)]
    exprs = [f"let c := content_of_size {BIG} in map (range_case true c) [" + "; ".join(prog_coq(p) for p in b) + "]" for b in batches]
    got = ceval(exprs, chunk=1)
    bad = []
    for b, gs in zip(batches, got):
        for p, g in zip(b, gs):
            obs_m, final_m, rs_m, _f, _ff = g
            r = rigs[BIG].run(p, buffered=False)
            impl = ([digest_obs(o) for o in r["s3"][0]], r["s3"][1], [tuple(x) for x in r["ranges"]])
            model = ([model_robs(o, True) for o in obs_m], final_m, [tuple(x) for x in rs_m])
            if impl != model:
                bad.append({"size": BIG, "prog": [list(x) for x in p], "impl": impl, "model": model})
    ctx.correspondence("range-reader-1MiB+1", len(bigp), bad)
    ctx.count(len(bigp))
    for rg in rigs.values():
        shutil.rmtree(rg.root, ignore_errors=True)
    ctx.sample({"range_case": {"size": cases[-1][0], "prog": [list(x) for x in cases[-1][1]]}})


# ======================================================================================== retry
class ScriptEnded(Exception):
    pass


KINDS = "GTPN"


def make_exc(kind: str, i: int) -> BaseException:
    from botocore.exceptions import ClientError, EndpointConnectionError
    if kind == "T":
        return [ClientError({"Error": {"Code": "SlowDown", "Message": "x"}}, "GetObject"),
                FileNotFoundError("missing"), ConnectionResetError("reset"),
                EndpointConnectionError(endpoint_url="http://x"),
                ClientError({"Error": {"Code": "NoSuchKey", "Message": "x"}}, "GetObject"),
                ClientError({"Error": {"Code": "InternalError", "Message": "x"}}, "PutObject"), TimeoutError("t")][i % 7]
    if kind == "P":
        code = ["AccessDenied", "NoSuchBucket", "403", "InvalidAccessKeyId", "SignatureDoesNotMatch"][i % 5]
        return ClientError({"Error": {"Code": code, "Message": "x"}}, "GetObject")
    return [ValueError("v"), KeyError("k"), KeyboardInterrupt(), TypeError("t")][i % 4]


def exc_coq(e: BaseException) -> str:
    from botocore.exceptions import BotoCoreError, ClientError
    if isinstance(e, ClientError):
        return f"(PClient {cstr(e.response['Error']['Code'])})"
    if isinstance(e, BotoCoreError):
        return "PBoto"
    if isinstance(e, OSError):
        return "POS"
    if isinstance(e, Exception):
        return "POther"
    return "PBase"


def run_retry(script: List[Any], vs: VirtualSleep) -> Tuple[Any, int, List[float]]:
    """script: list of ('G', v) | exception objects. Returns (('ret', v) | ('raise', exc) | ('ended',), attempts, sleeps)."""
    import datashard.s3_consistency as sc
    calls = [0]

    def op() -> Any:
        i = calls[0]
        if i >= len(script):
            raise ScriptEnded()
        calls[0] += 1
        x = script[i]
        if isinstance(x, tuple):
            return x[1]
        raise x

    vs.sleeps.clear()
    try:
        v = sc.with_s3_retry(op, "probe")
        res: Any = ("ret", v)
    except ScriptEnded:
        res = ("ended",)
    except BaseException as e:  # noqa: BLE001 - KeyboardInterrupt is one of the scripted outcomes
        res = ("raise", e)
    return res, calls[0], list(vs.sleeps)


def retry_contract(kinds: str, script: List[Any], res: Any, attempts: int, sleeps: List[float], max_retries: int = 5) -> Optional[str]:
    """The property text, judged directly on the kinds: transients within budget masked, permanent immediately, exhaustion exact."""
    n = 0
    for c in kinds:
        if c != "T":
            break
        n += 1
    if n > max_retries:                         # max+1 transients
        exp, att = ("raise", script[max_retries]), max_retries + 1
    elif n == len(kinds):
        exp, att = ("ended",), n
    else:
        x = script[n]
        exp, att = (("ret", x[1]) if kinds[n] == "G" else ("raise", x)), n + 1
    if attempts != att:
        return f"attempts {attempts}, expected {att}"
    if exp[0] != res[0] or (exp[0] == "ret" and exp[1] != res[1]) or (exp[0] == "raise" and exp[1] is not res[1]):
        return f"result {res!r}, expected {exp!r}"
    nsleeps = att - 1 if exp[0] != "ended" else att
    if len(sleeps) != nsleeps or any(s < 0 or s > 5.0 for s in sleeps):
        return f"sleeps {sleeps}, expected {nsleeps} sleeps each within [0, max_delay]"
    return None


def retry_cases(ctx) -> List[str]:
    """All outcome scripts up to length 6 (= max_retries + 1 attempts: everything the loop can do), plus length 7:
    all of them (thorough) or the four continuations of six transients and a sample (quick) -- a seventh outcome is
    never consumed."""
    out = []
    for n in range(1, 7):
        out += ["".join(t) for t in itertools.product(KINDS, repeat=n)]
    if ctx.tier == "quick":
        out += ["TTTTTT" + c for c in KINDS] + ["".join(ctx.rng.choice(KINDS) for _ in range(7)) for _ in range(500)]
    else:
        out += ["".join(t) for t in itertools.product(KINDS, repeat=7)]
    return out


def oracle_and_corr_retry(ctx, vs: VirtualSleep) -> None:
    cases = retry_cases(ctx)
    exprs, impl = [], []
    seen = set()
    # the same scripts with the process at DEBUG (and, sampled, under the other named configurations): the loop's decisions
    # must not depend on what it logs (judged by the contract only; the model has no configuration to compare)
    for cname in [n for n in sorted(procconf.NAMED) if n != "default"]:
        with procconf.applied(procconf.NAMED[cname]):
            for ci, kinds in enumerate(cases):
                if cname != "debug" and ci % 40:
                    continue
                script = [("G", 100 + i) if c == "G" else make_exc(c, ci + i) for i, c in enumerate(kinds)]
                res, attempts, sleeps = run_retry(script, vs)
                ctx.count(1, ("retry", kinds, cname))
                why = retry_contract(kinds, script, res, attempts, sleeps)
                if why:
                    key = "retry-contract:" + ("swallowed" if res[0] == "ret" and "G" not in kinds[:attempts] else "attempts" if "attempts" in why else "result")
                    if key not in seen:
                        seen.add(key)
                        ctx.violation(key, f"with_s3_retry on outcome script {kinds} under process configuration {procconf.NAMED[cname]}: {why}",
                                      {"kind": "retry", "script": kinds, "index": ci, "why": why, "config": [list(e) for e in procconf.NAMED[cname]]})
    for ci, kinds in enumerate(cases):
        script = [("G", 100 + i) if c == "G" else make_exc(c, ci + i) for i, c in enumerate(kinds)]
        res, attempts, sleeps = run_retry(script, vs)
        ctx.count(1, ("retry", kinds))
        why = retry_contract(kinds, script, res, attempts, sleeps)
        if why:
            key = "retry-contract:" + ("swallowed" if res[0] == "ret" and "G" not in kinds[:attempts] else "attempts" if "attempts" in why else "result")
            if key not in seen:
                seen.add(key)
                ctx.violation(key, f"with_s3_retry on outcome script {kinds}: {why}", {"kind": "retry", "script": kinds, "index": ci, "why": why})
        impl.append((res, attempts, sleeps, script))
        exprs.append("retry_case [" + "; ".join(f"inl {x[1]}" if isinstance(x, tuple) else f"inr {exc_coq(x)}" for x in script) + "]")
    got = ceval(exprs)
    bad = []
    for kinds, (res, attempts, sleeps, script), g in zip(cases, impl, got):
        r_m, n_m, sl_m = g
        if res[0] == "ret":
            ri = ("PReturned", res[1])
        elif res[0] == "ended":
            ri = ("PScriptEnded",)
        else:
            ri = ("PRaised", exc_coq(res[1]))
        if r_m.name == "PReturned":
            rm: Any = ("PReturned", r_m.args[0])
        elif r_m.name == "PRaised":
            e_m = r_m.args[0]
            rm = ("PRaised", f"({e_m.name} {cstr(e_m.args[0])})" if e_m.args else e_m.name)
        else:
            rm = (r_m.name,)
        sl_model = [Fraction(a, b) for a, b in sl_m]
        sl_impl = [Fraction(repr(s)) for s in sleeps]
        # the model's script-ended case made n attempts and would sleep before the next one
        if res[0] == "ended":
            sl_impl = sl_impl[:max(0, n_m - 1)]
        if ri != rm or attempts != n_m or sl_impl != sl_model:
            bad.append({"script": kinds, "impl": [repr(ri), attempts, [float(x) for x in sl_impl]], "model": [repr(rm), n_m, [float(x) for x in sl_model]]})
    ctx.correspondence("retry", len(cases), bad)
    ctx.stats["retry_scripts"] = len(cases)
    # classification of single errors
    import datashard.s3_consistency as sc
    from botocore.exceptions import ClientError
    from harness.lib.fakes3 import PERMANENT_CODES, TRANSIENT_CODES
    codes = sorted(set(PERMANENT_CODES + TRANSIENT_CODES + ["404", "NoSuchKey", "", "PreconditionFailed", "412", "InvalidRange", "accessdenied",
                                                            "AccountProblem", "AuthorizationHeaderMalformed", "InvalidBucketName", "InvalidObjectState",
                                                            "InvalidToken", "PermanentRedirect", "TokenRefreshRequired", "UnauthorizedAccess", "400", "429",
                                                            "ExpiredToken", "BadDigest", "EntityTooLarge", "405"] + DEFINITIVE_CLIENT_CODES))
    g = coqbuild.coq_eval(REQ, [f"is_permanent (ClientError (lit {cstr(c)}))" for c in codes] + ["is_permanent OSErr", "is_permanent BotoCoreErr"])
    bad = []
    for c, m in zip(codes, g):
        i = sc.is_permanent_s3_error(ClientError({"Error": {"Code": c, "Message": "m"}}, "GetObject"))
        if bool(i) != m:
            bad.append({"code": c, "impl": i, "model": m})
    if sc.is_permanent_s3_error(OSError("x")) != g[-2] or sc.is_permanent_s3_error(FileNotFoundError("x")) != g[-2]:
        bad.append({"exc": "OSError", "model": g[-2]})
    ctx.correspondence("retry-classification", len(codes) + 2, bad)
    # the independent code lists must agree with the library's classification (oracle, no model)
    for c in PERMANENT_CODES:
        if not sc.is_permanent_s3_error(ClientError({"Error": {"Code": c, "Message": "m"}}, "GetObject")):
            ctx.violation(f"retry-contract:permanent-code-retried:{c}", f"S3 error code {c} (cannot succeed on retry) is classified as retryable", {"kind": "code", "code": c})
    for c in TRANSIENT_CODES + ["NoSuchKey", "404"]:
        if sc.is_permanent_s3_error(ClientError({"Error": {"Code": c, "Message": "m"}}, "GetObject")):
            ctx.violation(f"retry-contract:transient-code-permanent:{c}", f"S3 error code {c} is transient but classified permanent (would not be masked)", {"kind": "code", "code": c})


def fault_exc_obs(e: BaseException) -> Tuple[Any, ...]:
    """Observation of an exception in a run with injected faults: the contract's own errors, or WHICH error surfaced."""
    if isinstance(e, FileNotFoundError):
        return ("err", "NotFound")
    if type(e).__name__ == "CASConflictError":
        return ("err", "Conflict")
    return ("raise", exc_coq(e))


def run_s3_with_plans(ops, plans, pfx, F, conf: Optional[List[List[Any]]] = None) -> Tuple[List[Any], Dict[str, bytes]]:
    """Each operation runs with its own positional fault plan (entry i = fault on the i-th request the
    operation issues, counting retried requests): faults can land on any request of a multi-request operation.
    A plan entry is None | [when, code-or-exception-name].  conf: the process-wide configuration the history runs under."""
    with procconf.applied(conf or []):
        return _run_s3_with_plans(ops, plans, pfx, F)


def _run_s3_with_plans(ops, plans, pfx, F) -> Tuple[List[Any], Dict[str, bytes]]:
    from harness.lib.fakes3 import FakeS3, make_s3_backend
    bname = fresh_bucket()
    s3 = FakeS3(buckets=(bname,), page_size=2)
    for k, v in F:
        s3.seed(k, v)
    be = make_s3_backend(s3, bucket=bname, prefix=pfx)
    out = []
    for op, plan in zip(ops, plans):
        s3.clear_faults()
        s3.plan = [None if x is None else mk_fault(list(x[:2])) for x in plan]
        out.append(apply_op(be, op, exc_obs=fault_exc_obs))
    s3.clear_faults()
    return out, s3.dump()


def faults_case_fails(ops, plans, pfx, F, conf: Optional[List[List[Any]]] = None) -> Optional[Dict[str, Any]]:
    """The fault-free run and the run under the plans, BOTH under the process configuration `conf`, against the contract."""
    with procconf.applied(conf or []):
        clean, s3clean = run_s3(ops, pfx, F)
    faulty, dump = run_s3_with_plans(ops, plans, pfx, F, conf)
    sp = spec_oracle(ops)
    if faulty == clean == sp and dump == s3clean.dump():
        return None
    i = first_diff(faulty, sp)
    return {"index": i, "op": list(ops[i][:2]) if i is not None else None, "with_faults": faulty[i] if i is not None else "final bucket differs",
            "fault_free": clean[i] if i is not None else None, "contract": sp[i] if i is not None else None,
            "plan": plans[i] if i is not None else None}


MAX_RETRIES = 5          # what "within the retry budget" means for the oracle (S3ConsistencyHandler's documented default)
NOT_FOUND_KEY = "retry-contract:not-found-uses-up-budget"


def fault_failure_key(ops, plans, bad: Dict[str, Any]) -> str:
    """Which finding a masking failure is.  One is known of the code as it is (Props/C20.v C20_s3_faulty_masks_refuted):
    a not-found answer is retried like a transient error and uses up the budget, so a transient fault on request
    number max_retries+1 of a read / stat / open of a key that holds nothing surfaces instead of the not-found."""
    i = bad.get("index")
    if i is not None and bad.get("contract") == ("err", "NotFound") and isinstance(bad.get("with_faults"), tuple) \
            and bad["with_faults"][0] == "raise" and len(plans[i]) > MAX_RETRIES and plans[i][MAX_RETRIES] is not None:
        return NOT_FOUND_KEY
    return "retry-contract:transient-fault-changes-result"


def shrink_fault_case(ops, plans, pfx, F, key: str, conf: Optional[List[List[Any]]] = None) -> Tuple[List[Any], List[Any]]:
    """Drop operations (with their plans), then drop faults, keeping the same finding (same process configuration)."""
    def still(c) -> bool:
        o, pl = [x[0] for x in c], [x[1] for x in c]
        b = faults_case_fails(o, pl, pfx, F, conf)
        return b is not None and fault_failure_key(o, pl, b) == key

    cur = list(zip(ops, plans))
    changed = True
    while changed:
        changed = False
        for i in range(len(cur)):
            cand = cur[:i] + cur[i + 1:]
            if cand and still(cand):
                cur, changed = cand, True
                break
        if changed:
            continue
        for i, (o, pl) in enumerate(cur):
            for j, x in enumerate(pl):
                if x is not None:
                    cand = cur[:i] + [(o, pl[:j] + [None] + pl[j + 1:])] + cur[i + 1:]
                    if still(cand):
                        cur, changed = cand, True
                        break
            if changed:
                break
    return [c[0] for c in cur], [c[1] for c in cur]


FAULT_WEIGHTS = [7, 3, 3, 5, 2, 2, 1, 4, 1, 0, 1]       # no CAS writes: write_file_cas is deliberately not under the retry


#: one representative of every CLASS of transient failure the retry loop handles: an S3 error response (ClientError), a
#: transport failure below botocore (OSError family), botocore's own connection-level errors (BotoCoreError: no response)
FAULT_CLASSES = ["SlowDown", "ConnectionResetError", "EndpointConnectionError", "InternalError", "ConnectionClosedError", "TimeoutError"]
EXC_FAULTS = ["ConnectionResetError", "EndpointConnectionError", "ConnectionClosedError", "TimeoutError"]


def gen_transient_plan(rng) -> List[Any]:
    """At most MAX_RETRIES transient faults (S3 codes or transport exceptions), before or after the effect, at ANY of
    the first 10 requests of the operation -- also the request that is the last attempt the retry loop makes."""
    from harness.lib.fakes3 import TRANSIENT_CODES
    plan: List[Any] = [None] * 10
    for pos in rng.sample(range(10), rng.choice([0, 0, 1, 2, 3, 5])):
        plan[pos] = [rng.choice(["before", "after"]), rng.choice(TRANSIENT_CODES + EXC_FAULTS)]
    return plan


def oracle_s3_faults(ctx) -> None:
    """Transient faults injected into the fake (before / after effect, at ANY request index of an operation, so also on
    later pages of a listing, on a reader's ranged GETs and on the last attempt the retry loop makes), at most
    max_retries per operation, must not change any result nor the store."""
    rng = ctx.rng
    n = 600 if ctx.tier == "quick" else 4000
    nbad = 0
    seen: set = set()
    # first the smallest histories: one operation on a key that holds nothing / something, one fault at each request index
    # ... for EVERY class of transient failure (FAULT_CLASSES) x the library as imported / the process at DEBUG
    fixed: List[Tuple[str, Any, List[Any], List[Any], List[List[Any]]]] = []
    for name in ("Read", "Size", "Mtime", "Stream", "ReadTag", "Open", "Exists", "Delete", "ListDir", "Write"):
        for present in (False, True):
            for fclass in FAULT_CLASSES:
                for _cname, conf in CONF_BOTH:
                    for pos in range(MAX_RETRIES + 1):
                        for when in ("before", "after"):
                            if (pos + len(name)) % 2 and when == "after" and fclass not in FAULT_CLASSES[:3]:
                                continue                                   # thin the secondary representatives
                            op: Tuple[Any, ...] = (name, "data/x") if name != "Open" else (name, "data/x", (("ReadInto", 2), ("Tell",)), "raw")
                            if name == "ListDir":
                                op = (name, "data")
                            if name == "Write":
                                op = (name, "data/x", b"bc")
                            ops = ([("Write", "data/x", b"xyz1")] if present else []) + [op]
                            plan: List[Any] = [None] * 10
                            plan[pos] = [when, fclass]
                            fixed.append(("p", [], ops, ([[None] * 10] if present else []) + [plan], conf))
    # fault-free histories under every named configuration (what the library does while it logs must not change a result)
    for cname in sorted(procconf.NAMED):
        fixed.append(("p", [], [("Write", "data/x", b"xyz1"), ("Read", "data/x"), ("Read", "data/y"), ("Size", "data/y"), ("Exists", "data/y"),
                                ("ListDir", "data"), ("Open", "data/x", (("ReadInto", 2), ("Tell",)), "raw"), ("Mtime", "data/y"), ("Delete", "data/x")],
                      [[] for _ in range(9)], [list(e) for e in procconf.NAMED[cname]]))
    rnd = []
    for ci in range(n):
        pfx, F = rng.choice(PREFIXES)
        ops = []
        hot = rng.sample(KEYS, 2)
        for _ in range(rng.randint(1, 12)):
            ops.append(gen_op(rng, hot if rng.random() < 0.6 else KEYS, DIRS, weights=FAULT_WEIGHTS, probes=PROBE_ONLY))
        conf = conf_of(ci) if ci % 11 != 10 else procconf.random_events(rng)
        rnd.append((pfx, F, ops, [gen_transient_plan(rng) for _ in ops], conf))
    confs_seen: Dict[str, int] = {}
    for pfx, F, ops, plans, conf in fixed + rnd:
        ctx.count(1, ("faults", pfx, repr(ops), repr(plans), repr(conf)))
        confs_seen[repr(conf)] = confs_seen.get(repr(conf), 0) + 1
        bad = faults_case_fails(ops, plans, pfx, F, conf)
        if not bad:
            continue
        nbad += 1
        key = fault_failure_key(ops, plans, bad)
        if key in seen:
            continue
        seen.add(key)
        sops, splans = shrink_fault_case(ops, plans, pfx, F, key, conf)
        bad = faults_case_fails(sops, splans, pfx, F, conf) or bad
        what = ("a not-found answer is retried like a transient error and uses up the retry budget: one transient S3 error on request "
                f"{MAX_RETRIES + 1} of an operation on a key that holds nothing surfaces instead of FileNotFoundError (the local backend answers not-found)"
                if key == NOT_FOUND_KEY else "transient S3 faults within the retry budget changed a result")
        ctx.violation(key, f"{what}: process configuration={conf} prefix={pfx!r} ops={ops_json(sops)} plans={splans}: {bad}",
                      {"kind": "faults", "prefix": pfx, "foreign": [[k, v.decode('latin-1')] for k, v in F], "ops": ops_json(sops), "plans": splans,
                       "config": conf, "detail": obs_json(bad)})
    ctx.stats["s3_fault_sequences_violating"] = nbad
    ctx.stats["s3_fault_fixed_cases"] = len(fixed)
    ctx.stats["s3_fault_cases_by_process_configuration"] = confs_seen
    # a permanent fault surfaces at once: exactly one request
    from harness.lib.fakes3 import FakeS3, PERMANENT_CODES, make_s3_backend
    from botocore.exceptions import ClientError
    perm_seen: set = set()
    for code in PERMANENT_CODES + [c for c in DEFINITIVE_CLIENT_CODES if c not in PERMANENT_CODES]:
        for op in PERMANENT_OPS:
            for _cname, conf in CONF_BOTH:
                ctx.count(1, ("permanent", code, op[0], _cname))
                bad = permanent_case_fails(code, op, conf)
                if not bad:
                    continue
                listed = code in PERMANENT_CODES
                key = f"retry-contract:permanent-not-immediate:{op[0]}" if listed else DEFINITIVE_KEY
                if key in perm_seen:
                    continue
                perm_seen.add(key)
                what = (f"{op[0]} under permanent S3 error {code}" if listed else
                        f"{op[0]} answered with the definitive client error {code} (the request itself is refused: re-sending it cannot succeed) is retried like a transient error")
                ctx.violation(key, f"{what}: process configuration {conf}: result {bad['result']}, {bad['requests']} request(s), {bad['sleeps']} sleep(s) "
                                   f"(expected the ClientError {code} after exactly 1 request, no sleep)",
                              {"kind": "permanent", "code": code, "op": ops_json([op])[0], "config": conf})
    ctx.stats["s3_fault_sequences"] = n


#: S3 answers that no re-sending of the same request can change, judged from the AWS S3 error-code reference and NOT from the
#: library's table: the REQUEST is refused as such (malformed / unsupported / out of the allowed shape).  "Permanent errors
#: surface immediately without being retried" applies to them as it does to authorisation failures.  Not-found answers are
#: the separate known finding F-C20b; throttling / timeout / skew answers (RequestTimeout, SlowDown, 429, RequestTimeTooSkewed,
#: ExpiredToken, BadDigest) are deliberately absent: a retry can succeed.
DEFINITIVE_CLIENT_CODES = ["InvalidArgument", "InvalidRequest", "InvalidURI", "KeyTooLongError", "InvalidRange", "MethodNotAllowed"]
DEFINITIVE_KEY = "retry-contract:definitive-client-error-retried"
PERMANENT_OPS: List[Tuple[Any, ...]] = [("Read", "data/x"), ("Write", "data/x", b"v"), ("Exists", "data/x"), ("ListDir", "data"), ("Delete", "data/x"),
                                        ("Size", "data/x"), ("Stream", "data/x"), ("ReadTag", "data/x"), ("Mtime", "data/x")]


def permanent_case_fails(code: str, op: Tuple[Any, ...], conf: Optional[List[List[Any]]] = None) -> Optional[Dict[str, Any]]:
    """A store that answers every request with `code`: the operation must raise that ClientError after exactly ONE
    request and without sleeping (implementation only)."""
    import datashard.s3_consistency as sc
    from botocore.exceptions import ClientError
    from harness.lib.fakes3 import FakeS3, make_s3_backend
    s3 = FakeS3()
    be = make_s3_backend(s3, prefix="p")
    s3.seed("p/data/x", b"1")
    s3.fail(code, when="before", times=50)
    sleeps = getattr(sc.time, "sleeps", None)
    n0 = len(sleeps) if sleeps is not None else 0
    seen: List[BaseException] = []

    def obs(e: BaseException) -> Tuple[Any, ...]:
        seen.append(e)
        return err_kind(e)

    with procconf.applied(conf or []):
        r = apply_op(be, op, exc_obs=obs)
    nsleeps = (len(sleeps) - n0) if sleeps is not None else 0
    same = bool(seen) and isinstance(seen[0], ClientError) and seen[0].response.get("Error", {}).get("Code") == code
    if r == ("err", "ClientErr") and same and len(s3.log) == 1 and nsleeps == 0:
        return None
    return {"result": r if not seen else (r, repr(seen[0])[:120]), "requests": len(s3.log), "sleeps": nsleeps}


def fault_what_coq(what: str) -> str:
    return {"ConnectionResetError": "POS", "TimeoutError": "POS", "EndpointConnectionError": "PBoto", "ConnectionClosedError": "PBoto"}.get(what) \
        or f"(PClient {cstr(what)})"


def plan_coq(plan: List[Any]) -> str:
    return "[" + "; ".join("None" if x is None else f"Some ({'true' if x[0] == 'after' else 'false'}, {fault_what_coq(x[1])})" for x in plan) + "]"


def model_fres(r: Any) -> Tuple[Any, ...]:
    if r.name == "PFObs":
        return model_obs(r.args[0])
    e = r.args[0]
    return ("raise", f"({e.name} {cstr(e.args[0])})" if e.args else e.name)


def corr_s3_faults(ctx) -> None:
    """Real S3StorageBackend under positional fault plans vs Model/BackendFault.v run_f: ANY faults (transient and
    permanent codes, not-found and precondition codes, transport exceptions; before / after the effect; at any request,
    any number of them), every operation incl. the CAS writer and open_seekable's raw reader: result of every operation
    (value, contract error, or WHICH exception surfaced) and the final bucket.  Cases whose plans satisfy the masking
    theorem's hypothesis must, in the model, give the contract's results."""
    from harness.lib.fakes3 import PERMANENT_CODES, TRANSIENT_CODES
    rng = ctx.rng
    n = 220 if ctx.tier == "quick" else 2500
    cases = []
    for ci in range(n):
        pfx, F = rng.choice(PREFIXES)
        hot = rng.sample(KEYS, 2)
        ops = [gen_op(rng, hot if rng.random() < 0.6 else KEYS, DIRS, probes=PROBE_ONLY, modes=("raw",)) for _ in range(rng.randint(1, 9))]
        dens = rng.choice([0.0, 0.1, 0.25, 0.5])
        plans = []
        for _op in ops:
            if ci % 3 == 0:
                plan = gen_transient_plan(rng)                 # inside / near the masking theorem's domain
            else:
                plan = []
                for _ in range(14):
                    if rng.random() >= dens:
                        plan.append(None)
                        continue
                    c = rng.random()
                    what = rng.choice(TRANSIENT_CODES + ["ConnectionResetError", "EndpointConnectionError"]) if c < 0.82 else \
                        rng.choice(PERMANENT_CODES) if c < 0.9 else rng.choice(["NoSuchKey", "404", "PreconditionFailed", "412", "InvalidRange"])
                    plan.append([rng.choice(["before", "after"]), what])
            plans.append(plan)
        cases.append((pfx, F, ops, plans))
    exprs = [f"fault_case 2 {cstr(pfx)} {foreign_coq(F)} [" + "; ".join(op_coq(o, "kk") for o in ops) + "] [" + "; ".join(plan_coq(pl) for pl in plans) + "]"
             for pfx, F, ops, plans in cases]
    got = ceval(exprs, chunk=60)
    bad, bad_thm = [], []
    inside = within = 0
    for (pfx, F, ops, plans), g in zip(cases, got):
        rs_m, bucket_m, dom, ok, win, spec_m = g
        model = [model_fres(r) for r in rs_m]
        conf = conf_of(len(bad) + inside + within + sum(len(o) for o in ops))      # the model has no configuration: any of them must agree with it
        impl, dump = run_s3_with_plans(ops, plans, pfx, F, conf)
        ctx.count(1, ("corr-faults", pfx, repr(ops), repr(plans)))
        i = first_diff(impl, model)
        mb = {k: v.encode("latin-1") for k, v in bucket_m}
        if i is not None or mb != dump:
            bad.append({"prefix": pfx, "ops": ops_json(ops), "plans": plans, "config": conf, "index": i, "impl": obs_json(impl[i]) if i is not None else "final bucket differs",
                        "model": obs_json(model[i]) if i is not None and i < len(model) else None})
        within += 1 if (dom and win) else 0
        if dom and ok:
            inside += 1
            if model != [model_obs(o) for o in spec_m]:
                bad_thm.append({"prefix": pfx, "ops": ops_json(ops), "plans": plans, "note": "model run differs from the contract inside the masking theorem's domain"})
    ctx.correspondence("backend-s3-faults", len(cases), bad)
    ctx.correspondence("backend-s3-faults-theorem-domain", len(cases), bad_thm)
    ctx.stats["fault_corr_cases_inside_masking_theorem_domain"] = inside
    ctx.stats["fault_corr_cases_within_budget"] = within
    if cases:
        ctx.sample({"fault_case": {"prefix": cases[0][0], "ops": ops_json(cases[0][2]), "plans": cases[0][3]}})


# ======================================================================================== faults inside a paginated listing
LIST_PAGE = 2


def list_rig(nkeys: int, pfx: str):
    """A directory `data` holding nkeys objects (more than one page), with siblings, on S3 (page size 2) and locally."""
    from harness.lib.fakes3 import FakeS3, make_s3_backend
    bname = fresh_bucket()
    s3 = FakeS3(buckets=(bname,), page_size=LIST_PAGE)
    be = make_s3_backend(s3, bucket=bname, prefix=pfx)
    names = [f"data/f{i}.parquet" for i in range(nkeys)]
    for k in names + ["data2/x", "database", "metadata/v1.metadata.json"]:
        be.write_file(k, b"v")
    s3.clear_log()
    return s3, be, names


def plan_for(fault_pages: List[int], faults: List[Any]) -> List[Any]:
    """Attempt a of the listing fails on its page fault_pages[a] (0-based) with faults[a]; later requests are clean."""
    plan: List[Any] = []
    for pg, f in zip(fault_pages, faults):
        plan += [None] * pg + [f]
    return plan


def mk_fault(spec: List[Any]) -> Tuple[str, Any]:
    when, what = spec
    if what == "ConnectionResetError":
        return when, (lambda: ConnectionResetError("connection reset by peer"))
    if what == "EndpointConnectionError":
        from botocore.exceptions import EndpointConnectionError
        return when, (lambda: EndpointConnectionError(endpoint_url="http://s3"))
    if what == "ConnectionClosedError":
        from botocore.exceptions import ConnectionClosedError
        return when, (lambda: ConnectionClosedError(endpoint_url="http://s3"))
    if what == "TimeoutError":
        return when, (lambda: TimeoutError("timed out"))
    return when, what


def list_fault_case(nkeys: int, pfx: str, fault_pages: List[int], faults: List[List[Any]], max_retries: int = 5,
                    conf: Optional[List[List[Any]]] = None) -> Optional[Dict[str, Any]]:
    """Implementation-only judgement of one listing under faults. faults[a] = [when, code-or-exception-name, permanent?];
    conf = the process-wide configuration the listing runs under"""
    s3, be, names = list_rig(nkeys, pfx)
    npages = max(1, -(-nkeys // LIST_PAGE))
    assert all(0 <= pg < npages for pg in fault_pages)
    s3.plan = plan_for(fault_pages, [mk_fault(f[:2]) for f in faults])
    with procconf.applied(conf or []):
        try:
            got: Any = ("list", list(be.list_files("data")))
        except Exception as e:  # noqa: BLE001
            got = ("raise", type(e).__name__, (getattr(e, "response", None) or {}).get("Error", {}).get("Code"))
    nreq = len(s3.log)
    s3.clear_faults()
    # what the property demands
    first_perm = next((i for i, f in enumerate(faults) if len(f) > 2 and f[2]), None)
    if first_perm is not None and first_perm <= max_retries:
        exp_req = sum(pg + 1 for pg in fault_pages[:first_perm + 1])          # surfaces with the failing request itself
        exp: Any = ("raise", "ClientError", faults[first_perm][1])
    elif len(faults) > max_retries:
        exp_req = sum(pg + 1 for pg in fault_pages[:max_retries + 1])
        f = faults[max_retries]
        is_exc = f[1] in EXC_FAULTS
        exp = ("raise", f[1] if is_exc else "ClientError", None if is_exc else f[1])
    else:
        exp_req = sum(pg + 1 for pg in fault_pages) + npages
        exp = ("list", sorted(names))
    ok = (got[0] == exp[0]) and (sorted(got[1]) == exp[1] if got[0] == "list" else (got[1], got[2]) == (exp[1], exp[2])) and nreq == exp_req
    if ok:
        return None
    return {"kind": "list-faults", "nkeys": nkeys, "prefix": pfx, "page_size": LIST_PAGE, "fault_pages": fault_pages, "faults": faults, "config": conf or [],
            "got": got if got[0] != "list" else ["list", sorted(got[1])], "expected": list(exp), "requests": nreq, "expected_requests": exp_req}


def shrink_list_case(c: Dict[str, Any]) -> Dict[str, Any]:
    best = c
    changed = True
    while changed:
        changed = False
        n, pg, fs = best["nkeys"], best["fault_pages"], best["faults"]
        cands = []
        for i in range(len(pg)):                                   # drop a fault
            cands.append((n, pg[:i] + pg[i + 1:], fs[:i] + fs[i + 1:]))
        if n > 3:                                                  # fewer keys
            np_ = max(1, -(-(n - 1) // LIST_PAGE))
            cands.append((n - 1, [min(x, np_ - 1) for x in pg], fs))
        for i in range(len(pg)):                                   # earlier page
            if pg[i] > 0:
                cands.append((n, pg[:i] + [pg[i] - 1] + pg[i + 1:], fs))
        for cn, cpg, cfs in cands:
            r = list_fault_case(cn, best["prefix"], cpg, cfs, conf=best.get("config"))
            if r and r["got"][0] == best["got"][0]:
                best, changed = r, True
                break
    return best


def gen_list_fault_cases(ctx) -> List[Tuple[int, str, List[int], List[List[Any]]]]:
    rng = ctx.rng
    transient = [["before", "SlowDown"], ["after", "SlowDown"], ["before", "ConnectionResetError"], ["after", "InternalError"], ["before", "EndpointConnectionError"],
                 ["after", "ConnectionClosedError"], ["before", "TimeoutError"]]
    cases: List[Tuple[int, str, List[int], List[List[Any]]]] = []
    for nkeys in range(3, 8):
        npages = -(-nkeys // LIST_PAGE)
        pfx = ["p", "", "wh/t1/"][nkeys % 3]
        for f in transient:
            for pg in range(npages):                                # one fault at every request index
                cases.append((nkeys, pfx, [pg], [f]))
        for pg1 in range(npages):                                   # two faults, every pair of pages
            for pg2 in range(npages):
                cases.append((nkeys, pfx, [pg1, pg2], [rng.choice(transient), rng.choice(transient)]))
        for pg in range(npages):                                    # same page fails m times: within (1..5) and beyond (6, 7) the budget
            for m in (3, 5, 6, 7):
                cases.append((nkeys, pfx, [pg] * m, [rng.choice(transient) for _ in range(m)]))
        for pg in range(npages):                                    # permanent error at every page, after 0..2 transient attempts
            for pre in (0, 1, 2):
                code = rng.choice(["AccessDenied", "NoSuchBucket", "403", "InvalidAccessKeyId"])
                cases.append((nkeys, pfx, [rng.randrange(npages) for _ in range(pre)] + [pg],
                              [rng.choice(transient) for _ in range(pre)] + [["before", code, True]]))
        for _ in range(10 if ctx.tier == "quick" else 200):         # random fault-page sequences of length 0..7
            m = rng.randint(0, 7)
            cases.append((nkeys, pfx, [rng.randrange(npages) for _ in range(m)], [rng.choice(transient) for _ in range(m)]))
    return cases


def oracle_list_faults(ctx) -> None:
    """Faults at EVERY request index of a multi-page listing: transient ones within the budget must leave the listing
    (a multiset: duplicates count) equal to the local backend's; beyond the budget the transient error surfaces after
    exactly max+1 attempts; a permanent error surfaces with the very request it hit."""
    from datashard.storage_backend import LocalStorageBackend
    rng = ctx.rng
    # the local backend's listing of the same directory is the reference for the multiset
    for nkeys in range(3, 8):
        root = tempfile.mkdtemp(prefix="lst-", dir=ctx.scratch)
        lb = LocalStorageBackend(root)
        names = [f"data/f{i}.parquet" for i in range(nkeys)]
        for k in names + ["data2/x", "database"]:
            lb.write_file(k, b"v")
        if sorted(lb.list_files("data")) != sorted(names):
            ctx.violation("backends-differ:ListDir:local-reference", f"local listing of data/ is {sorted(lb.list_files('data'))}", {"kind": "other"})
        shutil.rmtree(root, ignore_errors=True)
    # a LARGE directory (more keys than the service's real page size of 1000, and than any "round" client-side cap),
    # fault-free: the listing must return every key exactly once
    from harness.lib.fakes3 import FakeS3, make_s3_backend
    for big, psize in ((2503, 1000), (1201, 7)):
        s3b = FakeS3(page_size=psize)
        beb = make_s3_backend(s3b, prefix="wh/t")
        want = sorted(f"data/f{i:05d}.parquet" for i in range(big))
        for k in want:
            beb.write_file(k, b"v")
        got = sorted(beb.list_files("data"))
        ctx.count(1, ("big-listing", big, psize))
        if got != want:
            ctx.violation("backends-differ:ListDir:large-directory",
                          f"listing of a directory of {big} keys (service page size {psize}) returned {len(got)} keys "
                          f"({len(set(want) - set(got))} missing, {len(got) - len(set(got))} duplicated)",
                          {"kind": "big-listing", "nkeys": big, "page_size": psize})
    cases = gen_list_fault_cases(ctx)
    seen = set()
    nbad = 0
    # every listing case under the library's default configuration or the process at DEBUG (alternating; the single-fault
    # cases under both), other named configurations in rotation
    confd: List[Tuple[Any, List[List[Any]]]] = []
    for i, c in enumerate(cases):
        if len(c[2]) == 1:
            confd += [(c, conf) for _n, conf in CONF_BOTH]
        else:
            confd.append((c, conf_of(i)))
    for (nkeys, pfx, pages_, faults), conf in confd:
        ctx.count(1, ("list-faults", nkeys, repr(pages_), repr(faults), repr(conf)))
        bad = list_fault_case(nkeys, pfx, pages_, faults, conf=conf)
        if not bad:
            continue
        nbad += 1
        if bad["got"][0] == "list":
            dup = len(bad["got"][1]) != len(set(bad["got"][1]))
            key = "retry-contract:listing-under-transient-faults:" + ("duplicated-keys" if dup else "wrong-keys")
        else:
            key = "retry-contract:listing-fault-surfacing"
        if bad["got"][0] == exp_kind(bad) and bad["requests"] != bad["expected_requests"]:
            key = "retry-contract:listing-request-count"
        if key in seen:
            continue
        seen.add(key)
        small = shrink_list_case(bad)
        ctx.violation(key, f"list_files('data') over {small['nkeys']} keys (page size {LIST_PAGE}), process configuration {small.get('config')}, with faults {small['faults']} on pages {small['fault_pages']} of "
                           f"successive attempts: got {small['got']} after {small['requests']} request(s), expected {small['expected']} after {small['expected_requests']}",
                      small)
    ctx.stats["list_fault_cases"] = len(confd)
    ctx.stats["list_fault_cases_violating"] = nbad


def exp_kind(bad: Dict[str, Any]) -> str:
    return bad["expected"][0]


def corr_paged(ctx) -> None:
    """Real list_files under a positional fault plan vs Model/Paged.v paged_list: result (exact order) and total requests."""
    cases = gen_list_fault_cases(ctx)
    exprs, impl = [], []
    for nkeys, pfx, fault_pages, faults in cases:
        s3, be, names = list_rig(nkeys, pfx)
        s3.plan = plan_for(fault_pages, [mk_fault(f[:2]) for f in faults])
        try:
            got: Any = ("ret", list(be.list_files("data")))
        except Exception as e:  # noqa: BLE001
            from datashard.s3_consistency import is_permanent_s3_error
            got = ("raise", "FPermanent" if is_permanent_s3_error(e) else "FTransient")
        impl.append((got, len(s3.log)))
        s3.clear_faults()
        snames = sorted(names)
        pages = [snames[i:i + LIST_PAGE] for i in range(0, len(snames), LIST_PAGE)] or [[]]
        plan = plan_for(fault_pages, ["(Some FPermanent)" if (len(f) > 2 and f[2]) else "(Some FTransient)" for f in faults])
        exprs.append("paged_case [" + "; ".join("[" + "; ".join(cstr(k) for k in pg) + "]" for pg in pages) + "] ["
                     + "; ".join("None" if x is None else x for x in plan) + "]")
    got_m = ceval(exprs)
    bad = []
    for case, (gi, nreq), (rm, nm) in zip(cases, impl, got_m):
        m: Any = ("ret", list(rm.args[0])) if rm.name == "PLReturned" else ("raise", rm.args[0].name) if rm.name == "PLRaised" else ("ended",)
        if gi != m or nreq != nm:
            bad.append({"nkeys": case[0], "prefix": case[1], "fault_pages": case[2], "faults": case[3], "impl": [list(gi), nreq], "model": [list(m), nm]})
    ctx.correspondence("paged-listing", len(cases), bad)


# ======================================================================================== driver
def run(ctx) -> None:
    ctx.rule = ("backends: enumerated (key pair x directory probe sequences) + random operation sequences (1..25 ops, most on 1..3 hot "
                "keys) over 13 keys with sibling-prefix names, 11 directories, 5 S3 prefixes with foreign objects; operations = write, "
                "CAS write, read, read+etag, exists, list, delete, size, mtime, open_file, open_seekable + seek/read program of length "
                "0..5 (buffered or raw reader); each operation issued by one of up to two backend instances over the same store; run on "
                "LocalStorageBackend, S3StorageBackend over fakes3 and the Coq models; range: all seek/read programs up to a length bound + random ones on sizes 0,1,2,1MiB+1, "
                "raw and through BufferedReader, against a real local file; retry: all outcome scripts of length<=6 (+ length 7: all / sampled); faults: positional "
                "fault plans (before / after the effect, any request index) on histories, judged (transient, within budget) and compared with Model/BackendFault.v (any faults); a case is "
                "distinct by its full (prefix, operation list) / (size, program) / script")
    ctx.trusted_base += [
        "translator/gen_s3.py (Python ast -> Gallina for the S3 string kernels and literal tables; golden AST digests for hand-modelled functions)",
        "translator/gen_range.py (Python ast -> Gallina for S3RangeFile's integer kernels and open_seekable's wiring; shape checks of the glue)",
        "harness/lib/fakes3.py as the model of a strongly consistent S3 (GET/HEAD/PUT/DELETE/list by string prefix; NoSuchKey / 404)",
        "harness: harness/props/c20.py, harness/lib/coqbuild.py (vm_compute evaluation of the models on generated cases)",
    ]
    ctx.assumptions += [
        "S3 is strongly consistent and answers GET/HEAD of a missing key with NoSuchKey/404 (AWS S3 behaviour since 2020)",
        "local theorem: no WRITTEN key is a directory of another written key; segments non-empty, without '/', not '.' or '..' (C17 covers normalisation)",
        "exists() answers for exact keys only, as the property states: a name that is a directory of keys does not exist on either backend; "
        "the spelling with a trailing '/' (a directory probe) is outside the canonical domain",
        "injected faults are transport / service errors: a fault carrying a not-found code is a wrong answer of the store, which no client can mask",
        "the conditional PUT of write_file_cas is not retried by design: histories with CAS writes are judged under faults for fault-free CAS operations only",
        "the object read through S3RangeFile does not change during the read (size fixed at open): a reader lives within one operation of a history",
        "the CAS writer is exercised as used correctly in a sequential history (write_file_cas with the tag read_file_with_etag just returned)",
    ]
    vs = quiet_library()
    ctx.proofs(THEOREMS, gen_files=["GenS3.v", "GenRange.v"])   # both kinds of Gen file the C20 models are stated over
    ctx.allow_axioms([])
    # ---- implementation-only oracles (run even when the proofs are broken)
    import time as _time
    timings: Dict[str, float] = {}

    def phase(name: str, fn, *a) -> Any:
        t0 = _time.time()
        try:
            return fn(*a)
        finally:
            timings[name] = round(_time.time() - t0, 1)
            ctx.stats["phase_wall_s"] = timings

    cases = gen_domain_cases(ctx)
    impl_obs = phase("oracle_backends", oracle_backends, ctx, cases)
    phase("oracle_range", oracle_range, ctx)
    phase("oracle_s3_faults", oracle_s3_faults, ctx)
    phase("oracle_list_faults", oracle_list_faults, ctx)
    try:
        phase("retry", oracle_and_corr_retry, ctx, vs)
        phase("corr_backends", corr_backends, ctx, cases, impl_obs)
        phase("corr_raw", corr_raw, ctx)
        phase("corr_kernels", corr_kernels, ctx)
        phase("corr_range", corr_range, ctx)
        phase("corr_paged", corr_paged, ctx)
        phase("corr_s3_faults", corr_s3_faults, ctx)
    except RuntimeError as e:
        ctx.proof_problems.append("model evaluation failed: " + str(e)[:800])


def replay(ctx, payload) -> int:
    case = payload.get("case", {})
    kind = case.get("kind")
    vs = quiet_library()
    if kind == "ops":
        ops = ops_unjson(case["ops"])
        F = [(k, v.encode("latin-1")) for k, v in case.get("foreign", [])]
        bad = judge_domain_case(ctx, case["prefix"], F, ops, case.get("handles"))
        print("replay:", "STILL FAILS " + repr(bad) if bad else "passes now")
        return 1 if bad else 0
    if kind == "range":
        rig = RangeRig(ctx.scratch, case["size"])
        bad = rig.judge([tuple(p) for p in case["prog"]], case["buffered"])
        print("replay:", "STILL FAILS " + repr(bad) if bad else "passes now")
        return 1 if bad else 0
    if kind == "list-faults":
        bad = list_fault_case(case["nkeys"], case["prefix"], case["fault_pages"], case["faults"], conf=case.get("config"))
        print("replay:", "STILL FAILS " + repr(bad) if bad else "passes now")
        return 1 if bad else 0
    if kind == "faults":
        ops = ops_unjson(case["ops"])
        F = [(k, v.encode("latin-1")) for k, v in case.get("foreign", [])]
        bad = faults_case_fails(ops, case["plans"], case["prefix"], F, case.get("config"))
        print("replay:", "STILL FAILS " + repr(bad) if bad else "passes now")
        return 1 if bad else 0
    if kind == "permanent":
        bad = permanent_case_fails(case["code"], ops_unjson([case["op"]])[0], case.get("config"))
        print("replay:", "STILL FAILS " + repr(bad) if bad else "passes now")
        return 1 if bad else 0
    if kind == "code":
        import datashard.s3_consistency as sc
        from botocore.exceptions import ClientError
        from harness.lib.fakes3 import PERMANENT_CODES
        perm = sc.is_permanent_s3_error(ClientError({"Error": {"Code": case["code"], "Message": "m"}}, "GetObject"))
        bad = perm != (case["code"] in PERMANENT_CODES + DEFINITIVE_CLIENT_CODES)
        print("replay:", f"STILL FAILS: {case['code']} classified permanent={perm}" if bad else "passes now")
        return 1 if bad else 0
    if kind == "retry":
        kinds = case["script"]
        ci = case.get("index", 0)
        script = [("G", 100 + i) if c == "G" else make_exc(c, ci + i) for i, c in enumerate(kinds)]
        with procconf.applied(case.get("config") or []):
            res, attempts, sleeps = run_retry(script, vs)
        why = retry_contract(kinds, script, res, attempts, sleeps)
        print("replay:", "STILL FAILS " + why if why else "passes now")
        return 1 if why else 0
    print("replay: payload kind not replayable directly; re-run ./bin/check C20 thorough")
    return 2
