"""C02 -- Readers observe only whole committed snapshots.

Proof      : coq/Props/C02.v over Model/Reader.v (readers on top of the commit machine + file plane), for every
             interleaving of any number of read calls with writers that commit, fail, get interrupted, crash and roll
             back.  The reader machine is run with the number of pointer resolutions per call that the translator COUNTS
             on the source of every read API (translator/gen_readres.py -> Gen/GenReadRes.v, read_budget = 1):
               C02_snapshot_read   a call that has returned resolved the pointer at an instant between its start and its
                                   end, no file read failed, the files it read are exactly those of the version current at
                                   that instant and -- for any (write-once) file contents -- its rows are that snapshot's rows;
               C02_read_in_progress the same invariant while the call is running;
               C02_api_single_resolution  every read API (scan, to_pandas, scan_batches, iter_records, iter_pandas,
                                   row_count) resolves the pointer exactly once on every returning path (source count);
               C02_snapshot_read_needs_single_resolution  with two resolutions per call the statement is FALSE (witness),
                                   with one it holds;
               C02_monotone        a call that started after another one had returned resolved the pointer at an index
                                   that is not smaller (successive reads through one handle never move backwards);
               C02_txn_atomic      one attempt of Transaction.commit reaches MetadataManager.commit exactly once (source
                                   count; one flip per commit: GenCommit.v), no transaction flips twice, and the operations
                                   visible after i flips are the initial ones + the transactions of exactly those i flips.
             File CONTENTS are not modelled (names are fresh, files write-once: C04 / C16); what rows each real API makes
             of a version's files is judged by the oracle below (and C12 / C13).
Tie        : real read APIs (scan, parallel scan, scan without checksum verification, scan_batches, iter_records,
             row_count, and scan / parallel scan / scan_batches / iter_records WITH a filter) run as actors under the
             scheduler against real writers (appends, multi-append transactions, rollbacks, snapshot deletions), on tables
             with history and on tables with NO current snapshot (racing the first commit); the table content after every
             pointer flip is recorded by an independent reader; the model's predictions -- exactly one pointer read per
             call; the result equals the content at the flip count observed at that resolution -- are compared with what
             the API did and returned.
Oracle     : the returned multiset equals the content of SOME pointer version between the call's start and its end;
             successive reads through one handle never move backwards; a multi-append transaction is seen whole or
             not at all; no read raises.
"""
from __future__ import annotations

import json
import random as _r
from typing import Any, Dict, List, Optional, Tuple

from harness.lib import protocol as P, sched as S
from harness.props import c01

LEVEL = "proof"
THEOREMS = ["C02_snapshot_read", "C02_read_in_progress", "C02_api_single_resolution", "C02_snapshot_read_needs_single_resolution",
            "C02_monotone", "C02_txn_atomic", "C02_retry_whole_queue"]
MANIFEST_ENTRY = {
    "level_text": "proved in Coq for every interleaving of any number of read calls with writers that commit, fail, are interrupted, "
                  "crash or roll back: a read call that returned resolved the pointer at one instant between its start and its end, "
                  "none of its file reads failed, and the files it read are exactly those of the version current at that instant (so "
                  "its rows are that snapshot's rows, for any write-once file contents) (C02_snapshot_read, C02_read_in_progress); a "
                  "call started after another returned never resolves an earlier index (C02_monotone); the operations visible after i "
                  "flips are the initial ones plus the transactions of exactly those flips, none twice (C02_txn_atomic); the regenerated "
                  "partition of Transaction.commit maps a queue to exactly its appended files, paths to delete and largest cutoff "
                  "(theorem, every queue), and that it is rebuilt inside every attempt of the retry loop and not edited afterwards are "
                  "two facts COUNTED on the source, not derived in a model of the loop (C02_retry_whole_queue).  The two code "
                  "facts the model rests on are COUNTED on the source on every run (GenReadRes.v): every read API resolves the "
                  "pointer exactly once (C02_api_single_resolution; with two resolutions the statement is refuted: "
                  "C02_snapshot_read_needs_single_resolution) and one attempt of Transaction.commit reaches the commit protocol "
                  "exactly once.  Every read API of the real library, with and without filter, on tables with history and on tables "
                  "without current snapshot, is run under the deterministic scheduler against real writers; it must resolve the "
                  "pointer once and return exactly the content of the version current at that resolution (model prediction), and an "
                  "implementation-only oracle checks the property's own statement (some version between start and end; monotone per "
                  "handle; transactions whole; no read raises)",
    "level_note": "file contents are not in the Coq model (a file's content is a function of its fresh, write-once name; the theorems "
                  "quantify over that function) -- that each real API returns the rows of the files it read is judged by the scheduled "
                  "oracle, filters/pruning by C12/C13; the source count treats `if <param> is None: <param> = refresh()` as not taken when "
                  "the caller passes its own resolution result (callers and callees golden-pinned); trusted: Coq kernel; scheduler "
                  "harness; pyarrow's thread pool in parallel scans runs inside one scheduler step (its workers only read immutable "
                  "files after the file list is fixed); no garbage collection concurrent with readers (C05/C06)",
    "technique": "Coq invariant proof (readers x writers, resolution budget counted on the source) + scheduled differential "
                 "execution of every read API",
    "design_ref": "DESIGN.md section 5 C02",
}

STATS = {"calls": 0, "calls_spanning_a_flip": 0, "resolved_after_a_flip_inside_call": 0}
APIS = ["scan", "scan_parallel", "scan_noverify", "scan_batches", "iter_records", "row_count"]
FILTERED_APIS = list(P.FILTERED_READ_APIS)      # the same APIs called with a filter every row satisfies (schema resolution, pruning)
ALL_APIS = APIS + FILTERED_APIS

# writers racing a reader on a table that is EMPTY (no current snapshot) when the read starts, or becomes empty meanwhile
EMPTY_SETS = [
    (0, [{"kind": "append", "rows": [{"x": 100}]}]),
    (0, [{"kind": "multi_append", "batches": [[{"x": 100}], [{"x": 101}]]}]),
    (1, [{"kind": "delete_snapshot", "which": "current"}, {"kind": "append", "rows": [{"x": 100}]}]),
    (0, [{"kind": "append", "rows": [{"x": 100}]}, {"kind": "append", "rows": [{"x": 200}]}]),
]


def reader_filter(op: str, path: str, phase: tuple) -> bool:
    if P.protocol_yield_filter(op, path, phase):
        return True
    if op in ("ReadStart", "ReadEnd", "DataR", "open_file"):
        return True
    if op == "read_file" and P.path_class(path) == "data":
        return True
    if P.path_class(path) in ("hint", "meta"):
        return True        # every storage operation on the pointer / a metadata file (stat, exists, size ...) is a step
    return False


def fault_injector(kind: str):
    """A writer whose commit hits a storage fault: 'hint_write' (before the pointer flip: a clean failed commit) or
    'marker_delete' (an I/O error on the FIRST marker deletion after the flip: must be swallowed, the commit succeeded)."""
    fired = {"n": 0}

    def inject(op: str, path: str, idx: int, phase: tuple):
        pcs = P.path_class(path)
        if fired["n"]:
            return None
        if kind == "hint_write" and op == "write_file" and pcs == "hint" and "MetadataManager.commit" in phase:
            fired["n"] = 1
            return ("before", OSError(5, "injected I/O error on the pointer write"))
        if kind == "marker_delete" and op == "delete_file" and pcs == "marker" and "Transaction._finish_committed" in phase:
            fired["n"] = 1
            return ("before", OSError(5, "injected I/O error on marker cleanup"))
        return None
    return inject


READ_OPS = {"read_file", "read_file_with_etag", "exists", "open_file", "DataR", "list_files", "get_modified_time", "get_size"}
READ_CLASSES = ["hint", "meta", "mlist", "manifest", "data"]


def reader_fault_injector(cls: str, nth: int, exc_kind: str = "oserror"):
    """One transient failure of the reader's nth storage read on a path of class `cls` (pointer, metadata file, manifest
    list, manifest, data file): ESTALE / EIO on a network filesystem, a throttled GET."""
    st = {"n": 0, "fired": False, "armed": False}

    def inject(op: str, path: str, idx: int, phase: tuple):
        if op == "ReadStart":
            st["armed"] = True          # faults hit the read calls, not the opening of the handle
        if st["fired"] or not st["armed"] or op not in READ_OPS or P.path_class(path) != cls:
            return None
        st["n"] += 1
        if st["n"] == nth:
            st["fired"] = True
            return ("before", OSError(116, "injected transient read failure") if exc_kind == "oserror" else RuntimeError("injected transient read failure"))
        return None
    return inject


WRITER_SETS = [
    [{"kind": "append", "rows": [{"x": 100}]}],
    [{"kind": "multi_append", "batches": [[{"x": 100}], [{"x": 101}], [{"x": 102}]]}],
    [{"kind": "append", "rows": [{"x": 100}]}, {"kind": "rollback_txn", "rows": [{"x": 555}]}],
    [{"kind": "append", "rows": [{"x": 100}]}, {"kind": "delete_snapshot", "which": "current"}],
    [{"kind": "multi_append", "batches": [[{"x": 100}], [{"x": 101}]], "fault": "marker_delete"}],
    [{"kind": "append", "rows": [{"x": 100}], "fault": "hint_write"}, {"kind": "append", "rows": [{"x": 200}]}],
    [{"kind": "multi_append", "batches": [[{"x": 100}], [{"x": 101}]]}, {"kind": "append", "rows": [{"x": 200}]},
     {"kind": "delete_snapshot", "which": "old"}],
]
REPLACE_SET = [{"kind": "replace_txn", "rows": [{"x": 300}, {"x": 301}]}]


def window_chooser(writer: str, reader: str, k: int):
    """Run `writer` until it is parked just before its k-th write of a metadata file or of the pointer (k = 1, 2, ...;
    the windows in which a new version exists on storage but is not committed), then the reader to completion, then
    everything else in order."""
    def factory(_sc: S.Scheduler):
        st = {"phase": 0, "seen": 0, "last": None}

        def choose(enabled: List[str], s: S.Scheduler) -> Optional[str]:
            if st["phase"] == 0:
                a = s.actors[writer]
                op, path = a.pending if a.pending else ("", "")
                key = (a.nyield, op, path)
                if op in ("write_file", "write_file_cas") and P.path_class(path) in ("meta", "hint") and st["last"] != key:
                    st["last"] = key
                    st["seen"] += 1
                if writer in enabled and st["seen"] < k:
                    return writer
                st["phase"] = 1
            if st["phase"] == 1:
                if reader in enabled:
                    return reader
                st["phase"] = 2
            return enabled[0] if enabled else None
        return choose
    return factory


def between_steps_chooser(reader: str, r: int, writers: List[str]):
    """The reader performs r scheduler steps, then every writer runs to completion (whole commits land between two
    consecutive storage operations of the reader), then the reader finishes."""
    def factory(_sc: S.Scheduler):
        st = {"left": r, "phase": 0}

        def choose(enabled: List[str], _s: S.Scheduler) -> Optional[str]:
            if st["phase"] == 0:
                if st["left"] > 0 and reader in enabled:
                    st["left"] -= 1
                    return reader
                st["phase"] = 1
            if st["phase"] == 1:
                for w in writers:
                    if w in enabled:
                        return w
                st["phase"] = 2
            return enabled[0] if enabled else None
        return choose
    return factory


def alternate_chooser(writer: str, reader: str):
    """One step of the writer, then one whole read call of the reader, and so on: the reader observes the table after
    every single storage operation of the writer."""
    def factory(_sc: S.Scheduler):
        st = {"turn": "w", "started": False}

        def choose(enabled: List[str], s: S.Scheduler) -> Optional[str]:
            if st["turn"] == "w":
                st["turn"] = "r"
                st["started"] = False
                if writer in enabled:
                    return writer
            if reader in enabled:
                op, _p = s.actors[reader].pending or ("", "")
                if op == "ReadStart" and st["started"] and writer in enabled:
                    st["turn"] = "w"
                    return choose(enabled, s)
                st["started"] = True
                return reader
            st["turn"] = "w"
            return writer if writer in enabled else (enabled[0] if enabled else None)
        return choose
    return factory


def _injector_for(op: Dict[str, Any]):
    if op.get("read_fault"):
        cls, nth, kind = op["read_fault"]
        return reader_fault_injector(cls, nth, kind)
    return fault_injector(op["fault"])


def injectors(case: Dict[str, Any]) -> Dict[str, Any]:
    return {f"A{i}": _injector_for(op) for i, op in enumerate(case["ops"]) if op.get("fault") or op.get("read_fault")}


def analyse(case: Dict[str, Any], res: P.CaseResult, readers: List[int]) -> Tuple[List[str], List[Dict[str, Any]]]:
    """Returns (oracle violations, model disagreements)."""
    viol: List[str] = []
    bad: List[Dict[str, Any]] = []
    if res.deadlock:
        return [f"deadlock: {res.deadlock}"], bad
    flips_before = 0
    per_reader: Dict[str, Dict[str, Any]] = {}
    by_pointer = case.get("track_states") == "pointer"
    flip_at = list(getattr(res, "flip_log_index", []) or [])
    for li, e in enumerate(res.log):
        a = e["actor"]
        if by_pointer:
            flips_before = sum(1 for x in flip_at if x <= li)
        elif e["op"] in ("write_file", "write_file_cas") and P.path_class(e["path"]) == "hint" and e["result"] == "ok":
            flips_before += 1
        st = per_reader.setdefault(a, {"calls": [], "cur": None})
        if e["op"] == "ReadStart":
            st["cur"] = {"api": e["path"], "start": flips_before, "ptr": None, "end": None, "result": None}
        elif e["op"] in ("read_file", "read_file_with_etag") and P.path_class(e["path"]) == "hint" and st["cur"] is not None:
            if st["cur"]["ptr"] is None:
                st["cur"]["ptr"] = flips_before
            else:
                st["cur"]["extra_ptr_reads"] = st["cur"].get("extra_ptr_reads", 0) + 1
        elif e["op"] == "ReadEnd" and st["cur"] is not None:
            st["cur"]["end"] = flips_before
            st["cur"]["result"] = e["result"]
            st["calls"].append(st["cur"])
            st["cur"] = None
    for i, op in enumerate(case["ops"]):
        if op.get("fault") == "marker_delete":
            out = res.outcomes.get(f"A{i}")
            if out is not None and out[0] != "ok":
                viol.append(f"writer A{i}: an I/O error during marker cleanup AFTER the commit point made commit() raise: {out[1]}")
    for i in readers:
        name = f"A{i}"
        out = res.outcomes.get(name)
        if out is None or out[0] != "ok":
            viol.append(f"reader {name} raised: {out}")
            continue
        last_idx = -1
        faulted = bool(case["ops"][i].get("read_fault"))
        for call in per_reader.get(name, {}).get("calls", []):
            if isinstance(call["result"], str) and call["result"].startswith("raised:"):
                STATS["faulted_reads_raised"] = STATS.get("faulted_reads_raised", 0) + 1
                if not faulted:
                    viol.append(f"{call['api']} raised {call['result'][7:]} although no fault was injected into this reader")
                continue
            if faulted:
                STATS["faulted_reader_calls_returned"] = STATS.get("faulted_reader_calls_returned", 0) + 1
            states = res.states
            want = lambda k: ((len(states[k]["rows"]) if call["api"] == "row_count" else states[k]["rows"])
                              if k < len(states) and states[k]["rows"] is not None else None)
            lo, hi = call["start"], call["end"]
            STATS["calls"] += 1
            STATS["calls_spanning_a_flip"] += 1 if hi > lo else 0
            STATS["resolved_after_a_flip_inside_call"] += 1 if (call["ptr"] or 0) > lo else 0
            cands = [k for k in range(lo, hi + 1) if want(k) == call["result"]]
            if not cands:
                viol.append(f"{call['api']} returned {call['result']} which is the content of no pointer version between its start ({lo}) "
                            f"and its end ({hi}): versions {[want(k) for k in range(lo, hi + 1)]}")
                continue
            # model prediction: exactly the version current at the single pointer resolution
            if faulted and call.get("extra_ptr_reads"):
                pass        # a fault made the API resolve the pointer again: judged by the oracle above only
            elif call.get("extra_ptr_reads"):
                # Model/Reader.v: ONE pointer resolution per read call (GenReadRes.v: read_api_resolutions); emptiness, file
                # list and schema all come from that one metadata object
                bad.append({"case": c01._case_json(case), "schedule": res.schedule, "api": call["api"], "ptr_index": call["ptr"],
                            "pointer_reads_in_call": 1 + call["extra_ptr_reads"], "model_predicts": "exactly one pointer resolution per read call"})
            elif call["ptr"] is None or want(call["ptr"]) != call["result"]:
                bad.append({"case": c01._case_json(case), "schedule": res.schedule, "api": call["api"], "ptr_index": call["ptr"],
                            "result": call["result"], "model_predicts": want(call["ptr"]) if call["ptr"] is not None else None})
            idx = call["ptr"] if call["ptr"] is not None else min(cands)
            if idx < last_idx:
                viol.append(f"successive reads through one handle moved backwards: version index {idx} after {last_idx}")
            last_idx = max(last_idx, idx)
    # transactions whole or not at all: every recorded version's rows contain all or none of each multi-append's rows
    for op in case["ops"]:
        if op["kind"] == "multi_append":
            vals = [r["x"] for b in op["batches"] for r in b]
            for k, st in enumerate(res.states):
                inside = [v in st["rows"] for v in vals]
                if any(inside) and not all(inside):
                    viol.append(f"pointer version {k} contains part of a multi-operation transaction: {st['rows']}")
    # a replace transaction (delete a file + append replacements) is one commit: every version shows it whole or not at all
    for op in case["ops"]:
        if op["kind"] == "replace_txn" and res.states:
            new = [r["x"] for r in op["rows"]]
            first = res.states[0]["rows"] or []
            last = res.states[-1]["rows"] or []
            removed = [v for v in first if v not in last]
            wi_ = case["ops"].index(op)
            if (res.outcomes.get(f"A{wi_}") or ("?",))[0] == "ok" and first and not removed:
                viol.append(f"a delete+append transaction was acknowledged, its appended rows {new} are visible, but nothing it deleted is gone: "
                            f"rows at the start {first}, at the end {last} (the transaction took effect in part)")
            for k, st in enumerate(res.states):
                rows = st["rows"]
                if rows is None:
                    continue
                has_new = [v in rows for v in new]
                has_old = [v in rows for v in removed]
                pre = not any(has_new) and all(has_old)
                post = all(has_new) and not any(has_old)
                if not (pre or post):
                    viol.append(f"pointer version {k} shows a part of a delete+append transaction: rows {rows} (replacements {new}, removed {removed})")
    return viol, bad


def run(ctx) -> None:
    ctx.rule = ("schedules of 1-2 readers (each API with and without filter, two successive calls per handle) with 1-3 writers (append, "
                "multi-append transaction, delete+append transaction alone and losing a race (retried), rollback, snapshot deletion), on tables with history and on tables without current "
                "snapshot (first commit), at storage-operation granularity (pointer reads, manifest reads, data "
                "file reads, all writer protocol steps); bounded-preemption enumeration + random; distinct = executed schedule")
    ctx.trusted_base += ["harness/lib/sched.py, protocol.py (per-flip table content recorded by an independent reader)"]
    ctx.assumptions += ["no garbage collection concurrent with readers (C05/C06)"]
    ctx.proofs(THEOREMS, gen_files=["GenCommit.v", "GenReadRes.v", "GenFileOps.v"])
    ctx.allow_axioms([])
    # durability is not this property's subject (C03 / C16) and no fault is injected into fsync here: the ~16 fsyncs of every
    # commit are skipped for the duration of the schedules (a quarter of the run time), visibility between actors is unaffected
    import os as _os
    real_fsync = _os.fsync
    _os.fsync = lambda _fd: None
    ctx.assumptions += ["os.fsync is a no-op during the scheduled runs (durability: C03/C16)"]
    try:
        _schedules(ctx)
    finally:
        _os.fsync = real_fsync


def _schedules(ctx) -> None:
    quick = ctx.tier == "quick"
    total = 0
    bad_all: List[Dict[str, Any]] = []
    api_seen: Dict[str, int] = {}
    import time as _time
    t_sec = _time.time()
    sec_s: Dict[str, float] = {}
    # readers on a table that has NO current snapshot when the read starts (a fresh table racing its FIRST commit; a table
    # whose only snapshot is being deleted while an append follows): every API, with and without filter; whole commits
    # between every two consecutive storage operations of the reader + bounded-preemption enumeration
    for ei, (nsnap, writers) in enumerate(EMPTY_SETS):
        for ai, api in enumerate(ALL_APIS):
            if quick and ei >= 1 and (ei + ai) % 3 != 0:
                continue
            ops = writers + [{"kind": "read", "apis": [api, ALL_APIS[(ai + 3) % len(ALL_APIS)]]}]
            case = {"ops": ops, "clock": "tick", "topology": "separate", "yield_filter": reader_filter, "track_states": True,
                    "initial_snapshots": nsnap}
            rname = f"A{len(writers)}"
            wnames = [f"A{i}" for i in range(len(writers))]
            probe = P.run_case(ctx.scratch, c01._fix_case(case), between_steps_chooser(rname, 10**6, wnames), tag="c02e")
            nr = sum(1 for a in probe.schedule if a == rname)
            rs = list(range(1, nr + 1))
            if quick:
                # every step of the first call (the table has no current snapshot: few storage operations) and the first
                # steps of the second; the rest of the second call in the thorough tier
                first_call = 0
                for e in probe.log:
                    if e["actor"] == rname:
                        first_call += 1 if reader_filter(e["op"], e["path"], tuple(e.get("phase") or ())) else 0
                        if e["op"] == "ReadEnd":
                            break
                rs = rs[:min(first_call + 2, 12)]
            eruns = [([("between", rname, r, wnames)],
                      P.run_case(ctx.scratch, c01._fix_case(case), between_steps_chooser(rname, r, wnames), tag="c02e"))
                     for r in rs]
            if not quick or ai % 4 == ei % 4:
                eruns += list(c01.explore(ctx, case, 2, 3 if quick else 40))
            for dev, res in eruns:
                total += 1
                ctx.count(1, ("empty", ei, api, tuple(res.schedule)))
                api_seen[api] = api_seen.get(api, 0) + 1
                viol, bad = analyse(case, res, [len(writers)])
                for v in viol:
                    ctx.violation(f"reader-empty-table:{api}", v, {"case": c01._case_json(case), "deviations": list(dev), "schedule": res.schedule})
                bad_all.extend(bad)
    sec_s["empty_table"] = round(_time.time() - t_sec, 1)
    t_sec = _time.time()
    for wi, writers in enumerate(WRITER_SETS if not quick else WRITER_SETS[:6]):
        for ai, api in enumerate(ALL_APIS):
            if quick and (wi + ai) % 2 == 1:
                continue
            if api in FILTERED_APIS and (wi + ai) % (4 if quick else 2) != 0:
                continue        # the filtered paths differ from the unfiltered ones only in the schema resolution / pruning
            reader_ops = [{"kind": "read", "apis": [api, ALL_APIS[(ai + 1) % len(ALL_APIS)]]}]
            ops = writers + reader_ops
            case = {"ops": ops, "clock": "tick", "topology": "separate", "yield_filter": reader_filter, "track_states": True,
                    "injectors": {i: (lambda k=op["fault"]: fault_injector(k)) for i, op in enumerate(ops) if op.get("fault")}}
            readers = [len(writers)]
            runs = []
            for dev, res in c01.explore(ctx, case, 2, 14 if quick else (60 if api in FILTERED_APIS else 150)):
                runs.append((dev, res))
            for k in range(3 if quick else 25):
                seed = ctx.rng.randrange(1 << 30)
                res = P.run_case(ctx.scratch, c01._fix_case(case), lambda sc, seed=seed: S.random_chooser(_r.Random(seed), 0.45), tag="c02r",
                                 inject=injectors(case) or None)
                runs.append(([("random", seed)], res))
            for dev, res in runs:
                total += 1
                ctx.count(1, (wi, api, tuple(res.schedule)))
                api_seen[api] = api_seen.get(api, 0) + 1
                viol, bad = analyse(case, res, readers)
                for v in viol:
                    ctx.violation(f"reader:{api}:{'+'.join(o['kind'] for o in writers)}", v,
                                  {"case": c01._case_json(case), "deviations": list(dev), "schedule": res.schedule})
                bad_all.extend(bad)
    sec_s["interleavings"] = round(_time.time() - t_sec, 1)
    t_sec = _time.time()
    # whole commits between two consecutive storage operations of a reader (both calls of the handle): what a handle
    # keeps between its operations -- a cached pointer, cached metadata -- must not outlive the commit
    bs_sets = [WRITER_SETS[1], WRITER_SETS[0]]
    for wi, writers in enumerate(bs_sets if not quick else bs_sets[:1]):
        for ai, api in enumerate(APIS):
            if quick and ai % 2 == 1:
                continue
            ops = writers + [{"kind": "read", "apis": [api, APIS[(ai + 1) % len(APIS)], api]}]
            case = {"ops": ops, "clock": "tick", "topology": "separate", "yield_filter": reader_filter, "track_states": True}
            rname = f"A{len(writers)}"
            wnames = [f"A{i}" for i in range(len(writers))]
            probe = P.run_case(ctx.scratch, c01._fix_case(case), between_steps_chooser(rname, 10**6, wnames), tag="c02b")
            nr = sum(1 for a in probe.schedule if a == rname)
            rs = list(range(1, nr + 1))
            if quick and len(rs) > 16:
                rs = sorted(ctx.rng.sample(rs, 16))
            for r in rs:
                res = P.run_case(ctx.scratch, c01._fix_case(case), between_steps_chooser(rname, r, wnames), tag="c02b")
                total += 1
                ctx.count(1, ("between", wi, api, r))
                viol, bad = analyse(case, res, [len(writers)])
                for v in viol:
                    ctx.violation(f"reader-between-steps:{api}", v,
                                  {"case": c01._case_json(case), "deviations": [("between", rname, r, wnames)], "schedule": res.schedule})
                bad_all.extend(bad)
    sec_s["between_steps"] = round(_time.time() - t_sec, 1)
    t_sec = _time.time()
    # a delete+append ("replace") transaction: one commit point; the reader between every two writer steps and after each
    for ai, api in enumerate(APIS):
        if quick and ai % 3 != 1:
            continue
        ops = REPLACE_SET + [{"kind": "read", "apis": [api] * 90}]
        case = {"ops": ops, "clock": "tick", "topology": "separate", "yield_filter": reader_filter, "track_states": "pointer"}
        res = P.run_case(ctx.scratch, c01._fix_case(case), alternate_chooser("A0", "A1"), tag="c02p")
        total += 1
        ctx.count(1, ("replace", api))
        viol, bad = analyse(case, res, [1])
        for v in viol:
            ctx.violation(f"reader-replace-txn:{api}", v, {"case": c01._case_json(case), "deviations": [("alternate", "A0", "A1")], "schedule": res.schedule})
        bad_all.extend(bad)
    # ... and a delete+append transaction that LOSES the race: another writer's whole commit lands between two consecutive
    # steps of the transaction (after it read its base, before its commit validates it), so the library retries it on the
    # new base; every attempt must carry the whole operation queue
    for ai, api in enumerate(APIS):
        if quick and ai % 3 != 2:
            continue
        ops = REPLACE_SET + [{"kind": "append", "rows": [{"x": 400}]}, {"kind": "read", "apis": [api] * 3}]
        case = {"ops": ops, "clock": "tick", "topology": "separate", "yield_filter": reader_filter, "track_states": "pointer"}
        probe = P.run_case(ctx.scratch, c01._fix_case(case), between_steps_chooser("A0", 10**6, ["A1", "A2"]), tag="c02q")
        n0 = sum(1 for a in probe.schedule if a == "A0")
        rs = list(range(1, n0 + 1))
        retried = 0
        for r in rs:
            res = P.run_case(ctx.scratch, c01._fix_case(case), between_steps_chooser("A0", r, ["A1"]), tag="c02q")
            total += 1
            ctx.count(1, ("replace-contended", api, r))
            # (a losing attempt is refused before it writes its metadata file: count the manifest lists it wrote)
            retried += 1 if sum(1 for e in res.log if e["actor"] == "A0" and e["op"] in ("write_file", "write_file_cas") and P.path_class(e["path"]) == "mlist") > 1 else 0
            viol, bad = analyse(case, res, [2])
            for v in viol:
                ctx.violation(f"reader-replace-txn-contended:{api}", v,
                              {"case": c01._case_json(case), "deviations": [("between", "A0", r, ["A1"])], "schedule": res.schedule})
            bad_all.extend(bad)
        STATS["replace_txn_runs_in_which_the_transaction_was_retried"] = STATS.get("replace_txn_runs_in_which_the_transaction_was_retried", 0) + retried
    sec_s["replace_txn"] = round(_time.time() - t_sec, 1)
    t_sec = _time.time()
    # two writers on separate handles on a clock that does not advance (every timestamp-derived name and stamp collides unless
    # something else keeps them apart), one reader reading between their steps
    two = [{"kind": "append", "rows": [{"x": 100}]}, {"kind": "multi_append", "batches": [[{"x": 200}], [{"x": 201}]]}]
    for ai, api in enumerate(APIS):
        if quick and ai % 2 == 0:
            continue
        for clock_kind in ("frozen", "coarse"):
            ops = two + [{"kind": "read", "apis": [api] * 8}]
            case = {"ops": ops, "clock": clock_kind, "topology": "separate", "yield_filter": reader_filter, "track_states": True}
            fruns = list(c01.explore(ctx, case, 2, 10 if quick else 120))
            # writer 0 commits entirely while writer 1 is between any two of its steps, the reader reading in between
            probe = P.run_case(ctx.scratch, c01._fix_case(case), between_steps_chooser("A1", 10**6, ["A0", "A2"]), tag="c02z")
            n1 = sum(1 for a in probe.schedule if a == "A1")
            for r in (range(1, n1 + 1) if not quick else sorted(ctx.rng.sample(range(1, n1 + 1), min(8, n1)))):
                fruns.append(([("between", "A1", r, ["A0", "A2"])], P.run_case(ctx.scratch, c01._fix_case(case), between_steps_chooser("A1", r, ["A0", "A2"]), tag="c02z")))
            # ... and: writer 0 has committed, writer 1 is stopped after each of its steps, the reader reads THEN
            for r in (range(1, n1 + 1) if not quick else sorted(ctx.rng.sample(range(1, n1 + 1), min(10, n1)))):
                script = [("A0", "end"), ("A1", f"step:{r}"), ("A2", "end"), ("A1", "end")]
                fruns.append(([("script", script)], P.run_case(ctx.scratch, c01._fix_case(case), c01.script_chooser(script), tag="c02z")))
            for dev, res in fruns:
                total += 1
                ctx.count(1, ("frozen", api, clock_kind, tuple(res.schedule)))
                viol, bad = analyse(case, res, [2])
                for v in viol:
                    ctx.violation(f"reader-two-writers-{clock_kind}:{api}", v,
                                  {"case": c01._case_json(case), "deviations": list(dev), "schedule": res.schedule})
                bad_all.extend(bad)
    sec_s["two_writers_clock"] = round(_time.time() - t_sec, 1)
    t_sec = _time.time()
    # object store with conditional writes: the response to the pointer PUT is LOST (applied, then a timeout / 5xx on the
    # way back) or the request fails before it is applied; the reader reads after every storage operation of the writer
    for ai, api in enumerate(APIS):
        if quick and ai % 3 != 0:
            continue
        for sf in ({"when": "after", "exc": "timeout"}, {"when": "after", "exc": "500"}, {"when": "before", "exc": "500"}, None):
            if quick and sf is not None and sf["when"] == "before" and ai:
                continue
            writers = [WRITER_SETS[1][0]]
            ops = writers + [{"kind": "read", "apis": [api] * 160, "tolerate_errors": False}]
            case = {"ops": ops, "clock": "tick", "topology": "separate", "yield_filter": reader_filter, "track_states": "pointer",
                    "backend": "s3cas", "lock": "grant_all"}
            if sf is not None:
                case["s3_fault"] = dict(sf, op="put_object", cls="hint", nth=1)
            res = P.run_case(ctx.scratch, c01._fix_case(case), alternate_chooser("A0", "A1"), tag="c02s")
            total += 1
            ctx.count(1, ("s3", api, json.dumps(sf, sort_keys=True)))
            viol, bad = analyse(case, res, [1])
            for v in viol:
                ctx.violation(f"reader-s3-lost-response:{api}", v,
                              {"case": c01._case_json(case), "deviations": [("alternate", "A0", "A1")], "schedule": res.schedule})
            # the model comparison (single pointer resolution) applies unchanged
            bad_all.extend(bad)
    sec_s["s3_lost_response"] = round(_time.time() - t_sec, 1)
    t_sec = _time.time()
    # faulted readers: one transient failure of the reader's nth read of each class of file while writers commit / fail
    fw_sets = [WRITER_SETS[1], WRITER_SETS[5], WRITER_SETS[0]]
    for wi, writers in enumerate(fw_sets if not quick else fw_sets[:2]):
        for ci, cls in enumerate(READ_CLASSES):
            for nth in ((1, 2) if quick else (1, 2, 3, 4)):
                ai = (wi * 5 + ci + nth) % len(APIS)
                api = APIS[ai]
                reader_op = {"kind": "read", "apis": [api, APIS[(ai + 1) % len(APIS)]], "tolerate_errors": True,
                             "read_fault": (cls, nth, "oserror" if (ci + nth) % 2 else "runtime")}
                ops = writers + [reader_op]
                case = {"ops": ops, "clock": "tick", "topology": "separate", "yield_filter": reader_filter, "track_states": True,
                        "injectors": {i: (lambda o=op: _injector_for(o)) for i, op in enumerate(ops) if op.get("fault") or op.get("read_fault")}}
                readers = [len(writers)]
                runs = list(c01.explore(ctx, case, 2, 10 if quick else 80))
                for k in range(2 if quick else 10):
                    seed = ctx.rng.randrange(1 << 30)
                    res = P.run_case(ctx.scratch, c01._fix_case(case), lambda sc, seed=seed: S.random_chooser(_r.Random(seed), 0.45), tag="c02f",
                                     inject=injectors(case) or None)
                    runs.append(([("random", seed)], res))
                # directed: the faulted read falls into each window "new metadata on storage, pointer not flipped yet"
                for w in range(len(writers)):
                    for k in (1, 2, 3):
                        res = P.run_case(ctx.scratch, c01._fix_case(case), window_chooser(f"A{w}", f"A{len(writers)}", k), tag="c02w",
                                         inject=injectors(case) or None)
                        runs.append(([("window", w, k)], res))
                for dev, res in runs:
                    total += 1
                    ctx.count(1, ("fault", wi, cls, nth, tuple(res.schedule)))
                    viol, bad = analyse(case, res, readers)
                    for v in viol:
                        ctx.violation(f"faulted-reader:{cls}:{api}", v,
                                      {"case": c01._case_json(case), "deviations": list(dev), "schedule": res.schedule})
                    bad_all.extend(bad)
    sec_s["faulted_readers"] = round(_time.time() - t_sec, 1)
    t_sec = _time.time()
    # two readers, three writers, random
    for k in range(6 if quick else 120):
        writers = WRITER_SETS[-1]
        ops = writers + [{"kind": "read", "apis": [ctx.rng.choice(APIS), ctx.rng.choice(APIS)]}, {"kind": "read", "apis": [ctx.rng.choice(APIS)]}]
        case = {"ops": ops, "clock": "tick", "topology": ctx.rng.choice(["separate", "shared"]), "yield_filter": reader_filter, "track_states": True}
        seed = ctx.rng.randrange(1 << 30)
        res = P.run_case(ctx.scratch, c01._fix_case(case), lambda sc, seed=seed: S.random_chooser(_r.Random(seed), 0.45), tag="c02r")
        total += 1
        ctx.count(1, ("2r3w", tuple(res.schedule)))
        viol, bad = analyse(case, res, [len(writers), len(writers) + 1])
        for v in viol:
            ctx.violation("reader:multi", v, {"case": c01._case_json(case), "deviations": [("random", seed)], "schedule": res.schedule})
        bad_all.extend(bad)
    sec_s["two_readers"] = round(_time.time() - t_sec, 1)
    t_sec = _time.time()
    ctx.stats["section_wall_s"] = sec_s
    ctx.stats["schedules"] = total
    ctx.stats["runs_per_api"] = api_seen
    ctx.stats["read_calls"] = dict(STATS)
    ctx.sample({"writers": WRITER_SETS[1], "reader": {"kind": "read", "apis": ["scan", "scan_parallel"]}})
    ctx.correspondence("reader-version", total, bad_all)


def replay(ctx, payload) -> int:
    c = payload.get("case", {})
    case = c.get("case")
    if not case:
        print("replay: no concrete case")
        return 2
    case["yield_filter"] = reader_filter
    dev = c.get("deviations", [])
    if dev and dev[0][0] == "script":
        res = P.run_case(ctx.scratch, c01._fix_case(case), c01.script_chooser([tuple(x) for x in dev[0][1]]), tag="replay")
    elif dev and dev[0][0] == "alternate":
        res = P.run_case(ctx.scratch, c01._fix_case(case), alternate_chooser(dev[0][1], dev[0][2]), tag="replay")
    elif dev and dev[0][0] == "between":
        res = P.run_case(ctx.scratch, c01._fix_case(case), between_steps_chooser(dev[0][1], dev[0][2], dev[0][3]), tag="replay")
    elif dev and dev[0][0] == "window":
        res = P.run_case(ctx.scratch, c01._fix_case(case), window_chooser(f"A{dev[0][1]}", f"A{len(case['ops']) - 1}", dev[0][2]), tag="replay",
                         inject=injectors(case) or None)
    elif dev and dev[0][0] == "random":
        res = P.run_case(ctx.scratch, c01._fix_case(case), lambda sc: S.random_chooser(_r.Random(dev[0][1]), 0.45), tag="replay",
                         inject=injectors(case) or None)
    else:
        res = P.run_case(ctx.scratch, c01._fix_case(case), c01.dev_chooser({int(i): a for i, a in dev}), tag="replay",
                         inject=injectors(case) or None)
    readers = [i for i, o in enumerate(case["ops"]) if o["kind"] == "read"]
    viol, _ = analyse(case, res, readers)
    print("replay:", "STILL FAILS: " + viol[0] if viol else "passes now")
    return 1 if viol else 0
