"""C12 -- Filters mean what SQL says, identically in every scan API.

Proof      : coq/Props/C12.v over Gen/GenFilter.v (the expression _build_condition builds, the `&`-fold of
             to_pyarrow_compute_expression) and Gen/GenFilterConst.v (operator alias table, between /
             is_null alias tuples), REGENERATED from filters.py on every run; Model/Filter.v (pyarrow
             primitive semantics eval3, parse, the read pipelines of transaction.py after the repairs).
             Tables with a HISTORY: Model/Manifest.v (manifest entries, commit_tx = Transaction._commit_file_ops: every
             manifest of the base snapshot kept / rewritten from its survivors / dropped, then one manifest of all appended
             files; run = any sequence of commits; table_files = Table._get_all_data_files) over Gen/GenManifest.v (the
             bound expressions of create_manifest_file / read_manifest_file, the survivor test and the keep / rewrite / drop
             decision, REGENERATED from file_manager.py / transaction.py; fail-closed on anything but the modelled codec
             pair) and Gen/GenBound.v.  C12_manifest_roundtrip, C12_rewrite_decision, C12_history_view (for ANY history the
             decoded entries of the manifests are the flat list semantics spec_run: deleted files removed, appended added,
             bounds untouched), C12_history_files, C12_history_sql (every API returns the SQL answer on the live files).
Oracles    : implementation only, judged by harness/lib/sqlref.py (plain Python, no datashard import); the oracle tables also
             carry column types for which the writer stores NO bounds (binary, fixed: bytes, compared lexicographically) next to
             columns with bounds, in several files -- wrong pruning on absent statistics makes every API agree on a wrong (empty)
             answer, which only the SQL reference sees.  These kinds are oracle-only (the Coq `value` type has no bytes kind).
               e2e        random schemas / file layouts / filters / projections x 12 API variants
                          (scan, scan(parallel=2), scan_batches(1|3|10000), iter_records, each with
                          verify_checksums on/off): all variants agree, and equal the reference
               malformed  enumerated malformed filters x {empty, populated, all-files-pruned table} x all APIs
               edges      per column type: empty / NULL-only / NULL-containing value sets, comparisons with NULL,
                          between with NULL or reversed bounds, every is_null alias, conjunctions, all-pruned
               rewrites   per column type (and long text): a table whose manifests went through REWRITES (several files per
                          transaction, partial deletes -- one manifest twice --, a mixed transaction, expiry, collection,
                          fresh handle; harness/lib/c12_hist.py), literals at / around every live file's extremes + edge cases
               histories  half of the e2e tables are built by a random history (transactions appending 1-4 files, deleting
                          part of a manifest / whole manifests / across manifests, both at once, expiry, aborted transactions,
                          garbage collection, reload); expected rows = rows of the files live by the harness' own list semantics
               textbounds per length boundary (1 ... 4096 characters) a table of single-valued files whose text values have L-1 / L /
                          L+1 characters closed by a character of every plane (U+10000, an emoji, U+10FFFF, U+FFFF, U+FFFD, DEL, NUL ...),
                          filled with 1- / 2- / 4-byte characters; every value looked up with == and one more operator
               corpus     the hand-confirmed failing inputs (F-C12 NaN pushdown, malformed filter on an empty table, a data file
                          without rows, text as value set / between argument, the flag False)
             Every table generator also produces data files WITHOUT rows (append_records([]) / append_data([]) commit one), the
             filter generators columns the table does not have, str / bytes where a value set or a (lo, hi) pair is expected,
             and ('is_null', False); in / not_in value sets are held by EVERY iterable kind (list, tuple, set, frozenset, dict
             views, range, deque, iterator, generator, map object -- a fresh object for every single call, sqlref.realise -- and a
             dict, which is not a value set); every oracle also runs tables WRITTEN by a process in one time zone and READ by a
             process in another (POSIX TZ strings, harness/lib/procconf.py; always when a column is temporal); the long-text domains contain values at and around random length boundaries with astral
             tails, and the literals around a text value include every truncation of it, closed and not closed by U+FFFF / U+10FFFF.
Findings   : five defects of the unchanged tree (findings/C12-*unchanged-tree.log, findings/C12-replay-*.json), all repaired on
             the library branch: (1) scan(filter, verify_checksums=False) pushed the filter into pq.read_table, whose row-group
             statistics ignore NaN; (2) scan() accepted malformed filters on an empty table and scan_batches() skipped building
             the expression when every file was pruned; (3) on a data file WITHOUT rows scan_batches / iter_records evaluated
             nothing and returned [] where scan() raised on a filter pyarrow cannot bind (unknown column, literal of the wrong
             type); (4) a str / bytes given as in / not_in value set or as between argument was iterated / unpacked character by
             character; (5) the flag of is_null / is_not_null was ignored: ('is_null', False) selected the NULL rows;
             (6) an in / not_in value set was iterated twice (expression build, then file pruning): a one-shot iterable
             (iterator, generator, map) was empty for pruning, every file was skipped and ('in', iter([7])) returned no rows on
             a table holding 7; a dict was read as the set of its keys (findings/C12-one-shot-value-set-unchanged-tree.log).
             Open (modelled, C12_api_agree_empty_projection_refuted, excluded from
             the oracle): scan(columns=[]) returns no rows (pa.concat_tables) while the batch APIs yield one {} per row.
             Reading: a NULL inside an in / not_in value set is dropped (documented contract); for NOT IN that is not the SQL
             standard's UNKNOWN -- C12_not_in_nulls_dropped / C12_not_in_null_differs_from_sql state the difference exactly.
Tie        : correspondence of every hand-written model piece with the real code:
               prims      every cexpr constructor evaluated by real pyarrow     vs Model/Filter.v eval3
               parse      filters.parse_filter_dict                              vs parse (uses Gen tables)
               build      filters.to_pyarrow_compute_expression + Table.filter   vs build (uses Gen) + filter_rows
               pipelines  Table.scan / scan_batches / iter_records on real tables vs scan_table / scan_batches / iter_records
                          (a third of the tables built by a history; the model scans the live files with exact bounds)
               history    real histories vs Model/Manifest.v `run`: the current snapshot's manifests entry by entry (file,
                          per bounded column the STORED tag and the value decoded from the stored string), the data files
                          _get_all_data_files returns vs `table_files`, both vs the list semantics
"""
from __future__ import annotations

import datetime as dt
import itertools
import os
import shutil
from typing import Any, Dict, List, Optional, Tuple

from harness.lib import c12_hist as hist
from harness.lib import coqbuild, procconf, sqlref
from harness.lib.coqio import C, Some, coq_string
from harness.lib import values as _values
from harness.lib.values import LITERALS as _LITERALS, NAN, same, val_to_coq, vals_to_coq

# Column kinds WITHOUT stored bounds (the writer skips binary / fixed in _compute_column_bounds).  The Coq `value`
# type has no bytes kind: these columns are ORACLE-ONLY (e2e, edges, malformed), judged by harness/lib/sqlref.py;
# the model correspondences (prims, build, pipelines) keep to MODEL_KINDS.
BYTES_DOMAIN = [b"", b"a", b"ab", b"b", b"\x00", b"\x00\x01", b"\xff", b"zz"]
BYTES_LITERALS = [b"", b"a", b"aa", b"ab", b"b", b"c", b"\x00", b"\xff\xff", b"zz"]
MODEL_KINDS = list(_values.DOMAIN)
DOMAIN = dict(_values.DOMAIN, binary=BYTES_DOMAIN, fixed=BYTES_DOMAIN)
LITERALS = list(_LITERALS) + BYTES_LITERALS
NOBOUNDS_KINDS = ["binary", "fixed"]


def val_json(v):
    if isinstance(v, (bytes, bytearray)):
        return {"k": "bytes", "v": bytes(v).hex()}
    if isinstance(v, (list, tuple)):
        return {"k": "list", "v": [val_json(i) for i in v]}
    return _values.val_json(v)


def val_unjson(j):
    if j["k"] == "bytes":
        return bytes.fromhex(j["v"])
    if j["k"] == "list":
        return [val_unjson(i) for i in j["v"]]
    return _values.val_unjson(j)


LEVEL = "proof"
THEOREMS = ["C12_compile_correct", "C12_compile_total", "C12_conj", "C12_api_agree", "C12_api_sql", "C12_api_sql_sound_bounds", "C12_text_bounds_conservative", "C12_prefix_lower_bound",
            "C12_prefix_upper_bound_refuted", "C12_typed_evaluates", "C12_refused_raises", "C12_zero_row_file_check_needed",
            "C12_strict", "C12_strict_value_set", "C12_strict_value_set_mapping", "C12_value_set_kind_irrelevant",
            "C12_one_shot_second_reading_empty", "C12_strict_everywhere", "C12_operator_faithful", "C12_operator_table", "C12_special_keys",
            "C12_project_after", "C12_not_in_nulls_dropped", "C12_not_in_null_differs_from_sql",
            "C12_api_agree_empty_projection_refuted",
            "C12_manifest_roundtrip", "C12_rewrite_decision", "C12_history_view", "C12_history_files", "C12_history_files_distinct_paths", "C12_history_sql"]
GEN_FILES = ["GenFilter.v", "GenFilterConst.v", "GenPrune.v", "GenBound.v", "GenManifest.v"]
REQ = ["DS.Model.Value", "DS.Model.FilterExpr", "DS.Gen.GenPrune", "DS.Model.Prune", "DS.Gen.GenFilterConst", "DS.Gen.GenFilter",
       "DS.Model.Filter"]
REQ_HIST = REQ + ["DS.Model.BoundPrim", "DS.Gen.GenBound", "DS.Model.Bound", "DS.Model.ManifestBase", "DS.Gen.GenManifest", "DS.Model.Manifest"]

MANIFEST_ENTRY = {
    "level_text": "C12_compile_correct / C12_conj (the compiled expression is TRUE exactly on the SQL-TRUE rows), C12_api_agree "
                  "(scan verify on/off, scan_batches with any batching, iter_records return the same rows or the same error for "
                  "every table, layout -- data files without rows included --, projection and filter), C12_api_sql (that answer is "
                  "project cols (filter sql (concat files)), pruning included), C12_refused_raises (an expression pyarrow refuses to "
                  "bind, or refuses on a row, raises in EVERY API; C12_zero_row_file_check_needed: why the batch readers must show "
                  "a file without rows to pyarrow), C12_strict (the parser fails EXACTLY on the conditions outside the documented "
                  "language -- unknown / non-string operator, {c: None}, a str / scalar / mapping as value set, a str as between "
                  "argument, the flag False -- and otherwise returns exactly their independent meaning), C12_strict_value_set, "
                  "C12_strict_value_set_mapping, C12_value_set_kind_irrelevant (a value set held by any other iterable -- set, dict "
                  "view, range, an iterator or generator that can be read only once -- gives, in every API on every table, the "
                  "answer of the list of the same values: it is read once, by the parser), C12_strict_everywhere, "
                  "C12_operator_faithful / C12_operator_table (the regenerated tables ARE the independent reading of the "
                  "spellings), C12_not_in_nulls_dropped / C12_not_in_null_differs_from_sql (NULLs in a NOT IN value set are "
                  "dropped: exactly how that differs from the SQL standard), C12_project_after, and for tables "
                  "with a HISTORY C12_history_view / C12_history_files / C12_history_sql (after any sequence of committed "
                  "transactions -- multi-file appends, deletes that keep / rewrite / drop manifests, both at once -- the data "
                  "files a scan finds and the bounds pruning reads are those of the flat list semantics, and every API returns "
                  "the SQL answer on the live files; no hypothesis that paths are distinct: a path registered twice is read once, "
                  "C12_history_files states the dedup form), C12_manifest_roundtrip, C12_rewrite_decision -- proved in Coq, "
                  "unbounded, over the filter compiler and operator tables regenerated from filters.py and the manifest bound "
                  "expressions / rewrite decision regenerated from file_manager.py / transaction.py on every run; pyarrow "
                  "primitive semantics, parser, builder, the four read pipelines and the manifest machine tied to the real code "
                  "by differential execution; implementation-only oracles (12 API variants vs an independent SQL evaluator, on "
                  "tables appended file by file and on tables built by random / directed histories) search for a failing input",
    "level_note": "trusted: Coq kernel; translator/gen_filter.py, gen_manifest.py, gen_bound.py; JSON / Avro transport of a stored "
                  "(tag, payload) pair and str(k) / int(k) of field ids taken as exact (validated by the 'history' correspondence); "
                  "snapshot expiry, rolled-back transactions, garbage collection and re-opening modelled as not touching the "
                  "current manifests (exercised by the oracles and the 'history' correspondence); pyarrow primitive semantics as written in Model/Filter.v eval3 "
                  "(validated by the 'prims' correspondence); oracles X (lossy is_in casts), E (literals pyarrow refuses at "
                  "evaluation), B (expressions pyarrow refuses to bind to the files' schema, rows or no rows), PA (literals pyarrow "
                  "refuses when building) are universally quantified; the three argument guards of parse_filter_dict are pinned by "
                  "golden AST and modelled by hand (unpack2, flag_true, text_value_set; bytes value sets are outside the Coq value "
                  "type: oracle only); the value-set guard `isinstance(value, Mapping)` / `value = list(value)` is pinned by the same "
                  "golden AST and modelled by hand (value_set, value_set_iter; an iterable is abstracted to the values it yields and "
                  "whether it yields them again: iterk); an iterable that is not a list as the literal of a COMPARISON is modelled as "
                  "the list literal (pyarrow refuses both; whether at build or at evaluation is PA's choice, not tied to the kind); "
                  "C12_one_shot_second_reading_empty is explanatory (what the second reader of the unrepaired code saw); the time zone "
                  "of the process is not in the model (the codec is zone-free): oracle and 'history' correspondence only; executor.map order preservation for parallel scans; date vs "
                  "timestamp comparisons (pyarrow casts, Python refuses) are outside the model and covered by the oracle only",
    "technique": "Coq proof over translator-regenerated filter compiler and manifest kernels (induction over transaction histories) "
                 "+ differential correspondence + independent SQL oracle over random and directed table histories",
    "design_ref": "DESIGN.md section 5 C12",
}

TEMPORAL_KINDS = ["timestamp", "date", "time"]
OPS = ["EQ", "NE", "LT", "LE", "GT", "GE", "IN", "NOT_IN", "IS_NULL", "IS_NOT_NULL"]
SCALAR_OPS = ["EQ", "NE", "LT", "LE", "GT", "GE"]
CMPOP = {"EQ": "CEq", "NE": "CNe", "LT": "CLt", "LE": "CLe", "GT": "CGt", "GE": "CGe"}
KINDS = MODEL_KINDS                 # kinds the Coq model covers (correspondences)
E2E_KINDS = MODEL_KINDS + NOBOUNDS_KINDS * 2   # oracle tables: no-bounds kinds next to kinds with bounds, over-weighted


def arrow_type(kind: str):
    import pyarrow as pa
    return {"long": pa.int64(), "int": pa.int32(), "double": pa.float64(), "float": pa.float32(), "string": pa.string(),
            "boolean": pa.bool_(), "timestamp": pa.timestamp("us"), "date": pa.date32(), "time": pa.time64("us"),
            "binary": pa.binary(), "fixed": pa.binary()}[kind]


def canon_cell(kind: str, v: Any) -> Any:
    """What the column actually holds after Arrow conversion (float32 rounding etc.)."""
    import pyarrow as pa
    return pa.array([v], arrow_type(kind))[0].as_py()


# =================================================================================== Gallina rendering
def arg_coq(arg: Tuple[str, Any]) -> str:
    tag, v = arg
    if tag == "val":
        return f"(AVal {val_to_coq(v)})"
    return f"(AList {vals_to_coq(list(v))})"


def opkey_coq(opkey: Tuple[str, Any]) -> str:
    if opkey[0] == "str":
        return f"(OpStr {coq_string(opkey[1])})"
    return "OpOther"


ITERK_COQ = dict({k: "IAgain" for k in sqlref.REITERABLE_KINDS}, **{k: "IOnce" for k in sqlref.ONE_SHOT_KINDS}, **{k: "IMap" for k in sqlref.MAPPING_KINDS})


def cond_coq(cond: Tuple) -> str:
    if cond[0] == "plain":
        return f"(CPlain {arg_coq(cond[1])})"
    if cond[2][0] in ITERK_COQ:
        return f"(CPairIter {opkey_coq(cond[1])} {ITERK_COQ[cond[2][0]]} {vals_to_coq(list(cond[2][1]))})"
    return f"(CPair {opkey_coq(cond[1])} {arg_coq(cond[2])})"


def filter_coq(flt: List[Tuple[str, Tuple]], colnum: Dict[str, int]) -> str:
    return "[" + "; ".join(f"({colnum[c]}, {cond_coq(cd)})" for c, cd in flt) + "]"


def row_coq(r: Dict[str, Any], colnum: Dict[str, int]) -> str:
    return "[" + "; ".join(f"({colnum[c]}, {val_to_coq(v)})" for c, v in r.items()) + "]"


def rows_coq(rows: List[Dict[str, Any]], colnum: Dict[str, int]) -> str:
    return "[" + "; ".join(row_coq(r, colnum) for r in rows) + "]"


# concrete instances of the oracles for the correspondence runs (the theorems quantify over all of them):
#   X0  same-kind is_in: equality, and NaN matches NaN
#   E0  a leaf whose literal is of another kind than the column is refused (the generators use only kind
#       pairs for which pyarrow really refuses: everything except int<->float and date<->timestamp)
#   PA0 pa.array accepts kind-homogeneous lists; pa.scalar accepts everything the generators produce
PREAMBLE = """
Definition okind_eqb (a b : option kind) : bool :=
  match a, b with Some x, Some y => kind_eqb x y | None, None => true | _, _ => false end.
Definition X0 (a b : value) : bool := (is_nan a && is_nan b) || py_eqb a b.
Definition mismatch (k : option kind) (l : value) : bool := negb (is_null l) && negb (okind_eqb k (kind_of l)).
Definition E0 (kinds : list (Z * kind)) (e : cexpr) (r : row) : bool :=
  match e with
  | Cmp _ c (AVal l) => mismatch (lookup c kinds) l
  | IsIn c vals => existsb (mismatch (lookup c kinds)) vals
  | _ => false
  end.
(* B0: what pyarrow refuses when it BINDS the expression to the table's schema -- rows or no rows: a column the table
   does not have, a literal / value set of another kind than the column, a list literal *)
Fixpoint B0 (kinds : list (Z * kind)) (e : cexpr) : bool :=
  match e with
  | Cmp _ c (AVal l) => match lookup c kinds with None => true | Some k => mismatch (Some k) l end
  | Cmp _ _ (AList _) => true
  | IsIn c vals => match lookup c kinds with None => true | Some k => existsb (mismatch (Some k)) vals end
  | IsValid c | IsNull c => match lookup c kinds with None => true | Some _ => false end
  | Not a => B0 kinds a
  | And a b => B0 kinds a || B0 kinds b
  | Scalar _ => false
  end.
Definition PA0 (a : parg) : bool :=
  match a with
  | AVal _ => true
  | AList [] => true
  | AList (v :: vs) => forallb (fun w => okind_eqb (kind_of v) (kind_of w)) vs
  end.
Definition code_of {A} (r : res A) (d : A) : Z * A :=
  match r with Ok a => (0, a) | Err EParse => (1, d) | Err EBuild => (2, d) | Err EEval => (3, d) | Err EProj => (4, d) end.
Definition idx (r : row) : Z := match cell r 99 with VInt z => z | _ => -1 end.
Definition tvz (t : option tv) : Z := match t with Some TT => 1 | Some TF => 0 | Some TN => 2 | None => 3 end.
"""

KIND_COQ = {"long": "KInt", "int": "KInt", "double": "KFlt", "float": "KFlt", "string": "KStr", "boolean": "KBool",
            "timestamp": "KTs", "date": "KDate", "time": "KTime"}


# =================================================================================== random generators
OP_SPELLINGS = ["==", "=", "eq", "!=", "<>", "ne", "<", "lt", "<=", "le", ">", "gt", ">=", "ge", "in", "not_in", "not in", "notin",
                "between", "is_null", "isnull", "is_not_null", "notnull", "isnotnull"]
UNKNOWN_OPS = ["gte", "lte", "like", "startswith", "", " ", "= =", "=>", "is", "not", "is null", "nin", "!", "≠", "İN", "betwéen",
               "is_nul", "in ", " in", "IN_", "not-in", "equals", "neq"]


def rand_case(rng, s: str) -> str:
    r = rng.random()
    if r < 0.6:
        return s
    if r < 0.8:
        return s.upper()
    return "".join(ch.upper() if rng.random() < 0.5 else ch for ch in s)


# Long text sharing long prefixes (URLs, payloads, composite keys): a string column's bounds are compared with
# the literal as whole strings, so a bound that is only a PREFIX of the real extreme (or any other inexact
# stored statistic) shows up only when values and literals differ beyond that prefix.  Lengths straddle 128,
# 1000 and 4096 characters.
_P = "k" * 128
_U = "https://example.org/" + "segment/" * 30            # 260 characters
MODEL_LONG_TEXT = ["", "a", _P[:127], _P, _P + "a", _P + "b", _P[:127] + "j", _P + "kk" + "m"]   # short enough for Coq terms
LONG_TEXT = ["", "a", "z", _P[:127], _P, _P + "a", _P + "b", _P + "b" * 900, _P[:127] + "j", _P + "k" * 1100 + "m",
             _P + "k" * 1100 + "n", _U, _U + "a", _U + "a/b", _U[:128], _U + "z" * 1500, _U + "z" * 5000 + "!"]


# Text AT AND AROUND LENGTH BOUNDARIES, closed by characters from every plane.  A stored string statistic that is cut at
# some length (in characters, UTF-16 units or UTF-8 bytes), rounded up by a sentinel, or compared in another order than
# the column's (code points = UTF-8 bytes) is wrong only for values that differ from the stored bound right AFTER the cut:
# a value of L-1 / L / L+1 characters followed by a character above the Basic Multilingual Plane (U+10000, an emoji,
# U+10FFFF), by the highest BMP characters (U+FFFF, U+FFFD, a surrogate-adjacent U+D7FF / U+E000), by DEL / 'z' / NUL.
TEXT_BOUNDARIES = [1, 2, 4, 8, 12, 16, 20, 24, 32, 48, 64, 100, 128, 200, 255, 256, 500, 512, 1000, 1024, 2048, 4096]
TEXT_TAILS = ["\U00010000", "\U0001F600", "\U0010FFFF", "\uffff", "\ufffd", "\ud7ff", "\ue000", "\x7f", "z", "\x00", ""]
TEXT_FILLS = ["k", "\u00e9", "\U0001F600"]        # 1, 2 and 4 UTF-8 bytes (1, 1 and 2 UTF-16 units) per character


def boundary_text(length: int, tail: str, fill: str = "k", more: str = "") -> str:
    return fill * length + tail + more


def boundary_family(rng, n_lengths: int, fills: Optional[List[str]] = None) -> List[str]:
    """Values around `n_lengths` boundaries (each with L-1, L, L+1 characters before the tail), every tail."""
    out: List[str] = []
    for L in rng.sample(TEXT_BOUNDARIES, min(n_lengths, len(TEXT_BOUNDARIES))):
        for d in (-1, 0, 1):
            fill = rng.choice(fills or TEXT_FILLS)
            for tail in TEXT_TAILS:
                v = boundary_text(max(0, L + d), tail, fill, rng.choice(["", "", "a", "\U00010000"]))
                if v not in out:
                    out.append(v)
    return out


def text_around(v: str) -> List[str]:
    """Literals just above / below a text value and just above / below what a TRUNCATED bound of it would be."""
    out = [v, v + "a", v + "\x00", v + "\U00010000", v[:-1]]
    if v:
        c = ord(v[-1])
        out += [v[:-1] + chr(c + 1) if c < 0x10FFFF and not 0xD7FF <= c < 0xDFFF else v + "\x00",
                v[:-1] + chr(c - 1) if c > 0 and not 0xE000 >= c > 0xD800 else v[:-1]]
    for L in TEXT_BOUNDARIES:
        if L < len(v):
            out += [v[:L], v[:L] + "\uffff", v[:L] + "\U0010FFFF", v[:L + 1]]
    seen: List[str] = []
    for w in out:
        if w not in seen:
            seen.append(w)
    return seen


def neighbours(v: Any) -> List[Any]:
    """Literals just at / below / above a value, of the same kind."""
    if isinstance(v, bool) or v is None:
        return [v]
    if isinstance(v, int):
        return [v, v - 1, v + 1]
    if isinstance(v, float):
        return [v] if v != v or v in (float("inf"), float("-inf")) else [v, v - 0.5, v + 0.5]
    if isinstance(v, str):
        return text_around(v)
    if isinstance(v, bytes):
        return [v, v + b"a", v[:-1], v + b"\x00"]
    if isinstance(v, dt.datetime):
        return [v, v + dt.timedelta(microseconds=1), v - dt.timedelta(microseconds=1)]
    if isinstance(v, dt.date):
        return [v, v + dt.timedelta(days=1), v - dt.timedelta(days=1)]
    return [v]


def col_dom(case: Dict[str, Any], i: int) -> List[Any]:
    doms = case.get("doms")
    return doms[i] if doms else DOMAIN[case["kinds"][i]]


def gen_rows(rng, cols: List[str], kinds: List[str], n: int, doms: Optional[List[List[Any]]] = None) -> List[Dict[str, Any]]:
    rows = []
    for _ in range(n):
        r = {}
        for i, (c, k) in enumerate(zip(cols, kinds)):
            r[c] = None if rng.random() < 0.2 else canon_cell(k, rng.choice(doms[i] if doms else DOMAIN[k]))
        rows.append(r)
    return rows


def gen_literal(rng, kind: str, cross: float, dom: Optional[List[Any]] = None) -> Any:
    if rng.random() < cross:
        return rng.choice(LITERALS)
    if dom is not None and dom is not DOMAIN.get(kind):
        v = rng.choice(dom)
        return rng.choice(neighbours(v)) if rng.random() < 0.5 else v
    v = rng.choice(DOMAIN[kind] + [x for x in LITERALS if sqlref.pykind(x) == sqlref.COLKIND[kind]])
    return v


def value_set_arg(rng, vals: List[Any], iterable: float = 0.45) -> Tuple[str, List[Any]]:
    """The value set `vals` as a list / tuple or -- with probability `iterable` -- as any other iterable kind (set, frozenset,
    dict view, range, deque, iterator, generator, map, and a dict, which is not a value set): sqlref.VALUE_SET_KINDS."""
    if rng.random() < iterable:
        kind = rng.choice(sqlref.ITERABLE_KINDS + sqlref.ONE_SHOT_KINDS)        # the one-shot kinds twice as often
        if kind == "range" and not all(isinstance(v, int) and not isinstance(v, bool) for v in vals):
            kind = "iter"
        if kind == "range" and vals:
            vals = list(range(min(vals), min(vals) + len(vals))) if max(vals) - min(vals) > 8 else list(range(min(vals), max(vals) + 1))
        return sqlref.fit_value_set(kind, vals)
    return (rng.choice(["list", "tuple"]) if len(vals) != 2 else "list", vals)


def vary_value_sets(flt: List[Tuple[str, Tuple]], k: int) -> List[Tuple[str, Tuple]]:
    """The same filter with every in / not_in value set held by the k-th iterable kind (the directed oracles rotate k)."""
    out = []
    for c, cd in flt:
        if cd[0] == "pair" and cd[1][0] == "str" and sqlref.SPELLINGS.get(str(cd[1][1]).lower()) in ("IN", "NOT_IN") and cd[2][0] in ("list", "tuple"):
            kind = sqlref.ITERABLE_KINDS[k % len(sqlref.ITERABLE_KINDS)]
            vals = list(cd[2][1])
            if kind == "range":
                kind = "gen"
            cd = ("pair", cd[1], sqlref.fit_value_set(kind, vals))
        out.append((c, cd))
    return out


def has_value_set(flt: List[Tuple[str, Tuple]]) -> bool:
    return any(cd[0] == "pair" and cd[2][0] in ("list", "tuple") and cd[1][0] == "str"
               and sqlref.SPELLINGS.get(str(cd[1][1]).lower()) in ("IN", "NOT_IN") for _c, cd in flt)


def gen_cond(rng, kind: str, cross: float = 0.15, malformed: float = 0.0, dom: Optional[List[Any]] = None,
             pick: Optional[Any] = None) -> Tuple:
    """`pick`: optional literal source overriding the domain (used for literals at a file's min / max)."""
    lit = (lambda c: pick()) if pick is not None else (lambda c: gen_literal(rng, kind, c, dom))
    r = rng.random()
    if r < malformed:
        m = rng.random()
        if m < 0.5:
            return ("pair", ("str", rng.choice(UNKNOWN_OPS)), ("val", lit(0)))
        if m < 0.65:
            return ("pair", ("other", rng.choice([5, None, 1.5, True])), ("val", lit(0)))
        if m < 0.8:
            return ("plain", ("val", None))
        if m < 0.72:
            return ("pair", ("str", "between"), ("tuple", [lit(0) for _ in range(rng.choice([0, 1, 3]))]))
        if m < 0.8:
            # a str / bytes where (lo, hi) is expected: "ab" must not be unpacked into 'a', 'b'
            return ("pair", ("str", rand_case(rng, "between")), ("val", rng.choice(["ab", "az", "", "a", "abc", b"ab", b"\x00\xff", 5])))
        if m < 0.9:
            # a str / bytes where a value SET is expected: "ab" must not be read as ['a', 'b'] (nor b"ab" as [97, 98])
            texts = [v for v in [lit(0) for _ in range(3)] if isinstance(v, (str, bytes))] + ["ab", "", "a", "123", b"ab", b"\x01"]
            return ("pair", ("str", rand_case(rng, rng.choice(["in", "not_in", "not in", "notin"]))), ("val", rng.choice(texts)))
        if m < 0.95:
            # the OPPOSITE flag: ("is_null", False) must not select the NULL rows
            return ("pair", ("str", rand_case(rng, rng.choice(["is_null", "isnull", "is_not_null", "notnull", "isnotnull"]))), ("val", False))
        return ("pair", ("str", rng.choice(["in", "not_in"])), ("val", rng.choice([5, None, 1.5])))
    r = rng.random()
    if r < 0.12:
        return ("plain", ("val", rng.choice([v for v in [lit(cross) for _ in range(4)] if v is not None] or [0])))
    if r < 0.55:
        op = rng.choice(["==", "=", "eq", "!=", "<>", "ne", "<", "lt", "<=", "le", ">", "gt", ">=", "ge"])
        return ("pair", ("str", rand_case(rng, op)), ("val", lit(cross)))
    if r < 0.8:
        op = rng.choice(["in", "not_in", "not in", "notin"])
        n = rng.choice([0, 1, 1, 2, 3])
        vals = [None if rng.random() < 0.15 else lit(cross) for _ in range(n)]
        return ("pair", ("str", rand_case(rng, op)), value_set_arg(rng, vals))
    if r < 0.9:
        lo, hi = lit(cross), lit(cross)
        return ("pair", ("str", rand_case(rng, "between")), (rng.choice(["list", "tuple"]), [lo, hi]))
    op = rng.choice(["is_null", "isnull", "is_not_null", "notnull", "isnotnull"])
    return ("pair", ("str", rand_case(rng, op)), ("val", rng.choice([True, True, None, False])))


def gen_table_case(rng, kinds_pool: List[str], cross: float, malformed: float, max_files: int = 4,
                   long_text: float = 0.0, long_dom: Optional[List[Any]] = None, history: float = 0.0,
                   max_steps: int = 5, zero_rows: float = 0.0) -> Dict[str, Any]:
    """`history`: probability that the table is built by a random HISTORY (harness/lib/c12_hist.py: transactions appending
    several files, deleting some files of a manifest or whole manifests, both at once, expiring snapshots, aborted
    transactions, collections, reloads) instead of one append per file."""
    long_dom = long_dom if long_dom is not None else LONG_TEXT
    ncols = rng.choice([1, 2, 2, 3])
    kinds = [rng.choice(kinds_pool) for _ in range(ncols)]
    if long_text and rng.random() < long_text:
        kinds[rng.randrange(ncols)] = "string"
    cols = [f"c{i}" for i in range(ncols)]
    doms = [long_dom if (k == "string" and long_text and rng.random() < 0.6) else DOMAIN[k] for k in kinds]
    files = []
    steps = None
    if history and rng.random() < history:
        steps, nfiles = hist.gen_history(rng, max_steps=max_steps)
    else:
        nfiles = rng.choice(list(range(0, max_files + 1)) + [1, 2])
    for _ in range(nfiles):
        # ... a data file may have NO rows (append_records([]) / append_data([]) commit one): nothing is evaluated row by
        # row there, yet every API has to give the same answer -- or raise the same way -- as on any other file
        rows = gen_rows(rng, cols, kinds, 0 if rng.random() < zero_rows else rng.choice([1, 2, 3, 5]), doms)
        if rows and rng.random() < 0.25:
            rows = [dict(rows[0]) for _ in rows]          # single-valued file (prunable)
        files.append(rows)
    case = {"cols": cols, "kinds": kinds, "files": files, "doms": doms}
    if steps is not None:
        case["history"] = steps
    return case


def file_extremes(case: Dict[str, Any], col: str) -> List[Any]:
    """min and max of the column in each file (non-NULL, non-NaN values), i.e. what exact bounds would be."""
    out = []
    for f in hist.live_files(case):
        vs = [r[col] for r in f if r[col] is not None and r[col] == r[col]]
        if vs:
            try:
                out += [min(vs), max(vs)]
            except TypeError:
                pass
    return out


def gen_filter(rng, case: Dict[str, Any], cross: float, malformed: float, boundary: float = 0.0, unknown: float = 0.0) -> List[Tuple[str, Tuple]]:
    cols, kinds = case["cols"], case["kinds"]
    n = rng.choice([0, 1, 1, 1, 2, 2, 3])
    chosen = rng.sample(range(len(cols)), min(n, len(cols)))
    out = []
    if unknown and rng.random() < unknown:
        # a column the table does not have: pyarrow cannot bind the expression -- in every API alike
        out.append(("nosuch", gen_cond(rng, rng.choice(kinds), 0.0, 0.0)))
    for i in chosen:
        ext = file_extremes(case, cols[i]) if boundary and rng.random() < boundary else []
        if ext:
            # literals at / just below / just above some file's minimum or maximum: where pruning decides
            out.append((cols[i], gen_cond(rng, kinds[i], 0.0, 0.0, pick=lambda e=ext: rng.choice(neighbours(rng.choice(e))))))
        else:
            out.append((cols[i], gen_cond(rng, kinds[i], cross, malformed, col_dom(case, i))))
    return out


def gen_columns(rng, case: Dict[str, Any]) -> Optional[List[str]]:
    r = rng.random()
    if r < 0.4:
        return None
    cols = case["cols"]
    k = rng.randint(1, len(cols))
    return rng.sample(cols, k)


# ----------------------------------------------------------------------------------- process environment: the time zone
# A case may carry "tz": [zone of the process that WRITES the table, zone of the process that READS it] (POSIX TZ strings,
# harness/lib/procconf.py).  Columns hold naive datetimes: neither zone may change which rows a filter selects, what a
# manifest stores, or what is decoded from it.  Without "tz" the process stays as the harness found it.
def write_zone(case: Dict[str, Any]) -> Optional[str]:
    return case["tz"][0] if case.get("tz") else None


def read_zone(case: Dict[str, Any]) -> Optional[str]:
    return case["tz"][1] if case.get("tz") else None


def reading(case: Dict[str, Any]):
    return procconf.timezone(read_zone(case), keep="tz" not in case)


def with_tz(rng, case: Dict[str, Any], p: float = 1.0) -> Dict[str, Any]:
    """The case with a (write zone, read zone) pair drawn: equal zones, UTC on either side, two different zones."""
    if rng.random() < p:
        r = procconf.draw_tz(rng, 0.85)
        w = r if rng.random() < 0.5 else procconf.draw_tz(rng, 0.5)
        return dict(case, tz=[w, r])
    return case


# =================================================================================== the real library
def make_table(path: str, case: Dict[str, Any]):
    """The table of a case: its files appended one by one, or -- when the case has a "history" -- built by that sequence of
    multi-file / deleting / mixed / expiring / aborted transactions, collections and reloads (harness/lib/c12_hist.py)."""
    shutil.rmtree(path, ignore_errors=True)
    with procconf.timezone(write_zone(case), keep="tz" not in case):
        return hist.build(path, case)[0]


API_VARIANTS: List[Tuple[str, Any]] = []
for _v in (True, False):
    API_VARIANTS.append((f"scan(verify={_v})", lambda t, c, f, v=_v: t.scan(columns=c, filter=f, verify_checksums=v)))
    API_VARIANTS.append((f"scan(parallel=2,verify={_v})", lambda t, c, f, v=_v: t.scan(columns=c, filter=f, parallel=2, verify_checksums=v)))
    for _bs in (1, 3, 10000):
        API_VARIANTS.append((f"scan_batches({_bs},verify={_v})",
                             lambda t, c, f, v=_v, bs=_bs: [r for b in t.scan_batches(batch_size=bs, columns=c, filter=f, verify_checksums=v) for r in b]))
    API_VARIANTS.append((f"iter_records(verify={_v})", lambda t, c, f, v=_v: list(t.iter_records(columns=c, filter=f, verify_checksums=v))))


def run_apis(table, columns: Optional[List[str]], fpy: Optional[Dict[str, Any]]) -> Dict[str, Any]:
    """variant -> ("rows", canonical sorted rows) | ("raises", exception class name)"""
    out = {}
    for name, fn in API_VARIANTS:
        try:
            # a FRESH filter dict per call: a value set may be a one-shot iterator (sqlref.realise)
            rows = fn(table, list(columns) if columns is not None else None, sqlref.realise(fpy))
            out[name] = ("rows", sqlref.canon_rows(rows))
        except Exception as e:  # noqa: BLE001 - every exception class is an observation here
            out[name] = ("raises", type(e).__name__)
    return out


JUDGED = {"malformed_must_raise": 0, "agreement_only": 0, "exact_sql_answer": 0, "numeric_cross_answer_or_all_raise": 0}


def judge(case: Dict[str, Any], flt: List[Tuple[str, Tuple]], columns: Optional[List[str]], results: Dict[str, Any]) -> Optional[Tuple[str, str]]:
    """None if the property holds on this case, else (key, text). Uses only sqlref (independent)."""
    v, cls = _judge(case, flt, columns, results)
    JUDGED[cls] += 1
    return v


def _judge(case, flt, columns, results):
    kinds = dict(zip(case["cols"], case["kinds"]))
    allrows = hist.live_rows(case)          # what the table holds after its history (list semantics, no library)
    outcomes = {name: (r[0], tuple(r[1]) if r[0] == "rows" else None) for name, r in results.items()}
    distinct = set(outcomes.values())
    try:
        ats = sqlref.atoms(flt)
    except sqlref.Malformed as m:
        bad = [n for n, r in results.items() if r[0] != "raises"]
        if bad:
            return ("malformed-accepted", f"malformed filter ({m}) is not rejected by {bad[0]} (+{len(bad) - 1} more): returns {results[bad[0]][1]!r}"), "malformed_must_raise"
        return None, "malformed_must_raise"
    except sqlref.Unjudged:
        ats = None
    if len(distinct) > 1:
        groups: Dict[Any, List[str]] = {}
        for n, o in outcomes.items():
            groups.setdefault(o, []).append(n)
        desc = "; ".join(f"{ns[0]}(+{len(ns) - 1}) -> {('raises ' + results[ns[0]][1]) if o[0] == 'raises' else list(o[1])}" for o, ns in groups.items())
        return ("api-differ", "scan APIs disagree: " + desc), "agreement_only"
    if ats is None:
        return None, "agreement_only"
    cls = sqlref.EXACT
    for c, op, lit in ats:
        if c not in kinds:
            cls = max(cls, sqlref.AGREE_ONLY)
            continue
        cls = max(cls, sqlref.classify(kinds[c], op, lit, [r[c] for r in allrows]))
    if cls == sqlref.AGREE_ONLY:
        return None, "agreement_only"
    cname = "exact_sql_answer" if cls == sqlref.EXACT else "numeric_cross_answer_or_all_raise"
    any_name = next(iter(results))
    kind, payload = results[any_name]
    if kind == "raises":
        if cls == sqlref.NUMERIC_CROSS or not allrows:
            return None, cname
        # a well-typed filter on a table with rows must not raise ... unless every file is pruned away (then nothing is evaluated)
        return ("well-typed-raises", f"well-typed filter raises {payload} in every API"), cname
    if columns is not None and any(c not in kinds for c in columns):
        return None, "agreement_only"
    exp = sqlref.canon_rows(sqlref.expected_rows(allrows, ats, columns))
    if list(payload) != exp:
        return ("wrong-rows", f"every API returns {list(payload)} but SQL semantics selects {exp}"), cname
    return None, cname


# =================================================================================== replay encoding
def arg_json(arg):
    tag, v = arg
    return [tag, val_json(v)] if tag == "val" else [tag, [val_json(x) for x in v]]


def arg_unjson(j):
    tag, v = j
    return (tag, val_unjson(v)) if tag == "val" else (tag, [val_unjson(x) for x in v])


def cond_json(cond):
    if cond[0] == "plain":
        return ["plain", arg_json(cond[1])]
    return ["pair", [cond[1][0], val_json(cond[1][1])], arg_json(cond[2])]


def cond_unjson(j):
    if j[0] == "plain":
        return ("plain", arg_unjson(j[1]))
    return ("pair", (j[1][0], val_unjson(j[1][1])), arg_unjson(j[2]))


def case_json(case, flt, columns, extra=None):
    d = {"cols": case["cols"], "kinds": case["kinds"],
         "files": [[{k: val_json(v) for k, v in r.items()} for r in f] for f in case["files"]],
         "filter": [[c, cond_json(cd)] for c, cd in flt], "columns": columns}
    if case.get("history") is not None:
        d["history"] = case["history"]
        d["live_files"] = hist.live_indexes(case)
    if case.get("tz"):
        d["tz"] = list(case["tz"])
    d.update(extra or {})
    return d


def case_unjson(d):
    case = {"cols": d["cols"], "kinds": d["kinds"], "files": [[{k: val_unjson(v) for k, v in r.items()} for r in f] for f in d["files"]]}
    if d.get("history") is not None:
        case["history"] = d["history"]
    if d.get("tz"):
        case["tz"] = list(d["tz"])
    flt = [(c, cond_unjson(cd)) for c, cd in d["filter"]]
    return case, flt, d["columns"]


# =================================================================================== oracles
_TABLE_SEQ = [0]
_PINNED = [0]
_POOL: List[Any] = []


def pool():
    """The children that run every library operation (harness/lib/c12_worker.py)."""
    from harness.lib import c12_worker
    if not _POOL:
        _POOL.append(c12_worker.Pool())
    return _POOL[0]


def wire(case: Dict[str, Any]) -> Dict[str, Any]:
    """What a child needs of a case."""
    return {k: case[k] for k in ("cols", "kinds", "files", "history", "tz") if k in case}


def w_run_table(path: str, case: Dict[str, Any], requests: List[Tuple[Optional[List[str]], Optional[Dict[str, Any]]]]):
    """CHILD: build the table, run all 12 API variants for every (columns, filter dict)."""
    table = make_table(path, case)
    try:
        with reading(case):
            if "tz" in case:
                from datashard import load_table
                table = load_table(path)                   # the reading process opens the table itself
            return [run_apis(table, cols, fpy) for cols, fpy in requests]
    finally:
        shutil.rmtree(path, ignore_errors=True)


def job_timeout(case: Dict[str, Any], nreq: int) -> float:
    return 45.0 + 2.0 * len(case["files"]) + 4.0 * nreq


def run_tables(ctx, jobs: List[Tuple[Dict[str, Any], List[Tuple[List[Tuple[str, Tuple]], Optional[List[str]], Optional[Dict[str, Any]]]], str]]):
    """jobs: (case, [(flt, columns, filter dict)], source).  Runs them on the pool; returns per job the list of
    API results (None where the library could not be run).  A job that hangs, dies or fails outside the scan APIs is
    re-run request by request to pin the input down, and reported."""
    pj = []
    for case, reqs, _src in jobs:
        _TABLE_SEQ[0] += 1
        pj.append(("w_run_table", (os.path.join(ctx.scratch, f"w{_TABLE_SEQ[0]}"), wire(case),
                                   [(c, f) for _flt, c, f in reqs]), job_timeout(case, len(reqs))))
    res = pool().map(pj)
    out = []
    for (case, reqs, src), (status, val) in zip(jobs, res):
        if status == "ok":
            out.append(val)
            continue
        if status == "skipped":
            ctx.stats["jobs_skipped_after_hangs"] = ctx.stats.get("jobs_skipped_after_hangs", 0) + 1
            out.append([None] * len(reqs))
            continue
        # pin the input down: the requests one by one, up to the first that fails alone (for the first two failing jobs)
        single: List[Any] = [None] * len(reqs)
        _PINNED[0] += 1
        pinned = False
        for k, (flt, cols, fpy) in enumerate(reqs or [([], None, None)]):
            if _PINNED[0] > 2:
                break
            _TABLE_SEQ[0] += 1
            st, v = pool().call("w_run_table", (os.path.join(ctx.scratch, f"w{_TABLE_SEQ[0]}"), wire(case), [(cols, fpy)]),
                                job_timeout(case, 1))
            if st == "ok":
                if reqs:
                    single[k] = v[0]
                continue
            pinned = True
            if st in ("timeout", "died", "skipped"):
                ctx.violation(f"library-{'died' if st == 'died' else 'hang'}:scan",
                              f"[{src}] the library did not finish ({st} {v}) on filter {sqlref.filter_py(flt)!r} columns={cols}",
                              case_json(case, flt, cols, {"verdict": "library-" + st, "detail": repr(v)}))
            else:
                ctx.proof_problems.append(f"case could not be run [{src}]: {str(v)[-400:]}")
            break
        if not pinned:
            if status in ("timeout", "died"):
                flt0, cols0 = (reqs[0][0], reqs[0][1]) if reqs else ([], None)
                ctx.violation(f"library-{'died' if status == 'died' else 'hang'}:scan",
                              f"[{src}] the library did not finish ({status} {val}) on a table with {len(reqs)} filters; first: {sqlref.filter_py(flt0)!r}",
                              case_json(case, flt0, cols0, {"verdict": "library-" + status, "detail": repr(val), "note": "not pinned to one filter"}))
            else:
                ctx.proof_problems.append(f"case could not be run [{src}]: {str(val)[-400:]}")
        out.append(single)
    ctx.stats["worker_pool"] = {"children": len(pool().children), "restarts": pool().restarts, "timeouts": pool().timeouts,
                                "slowest_job_s": round(pool().slowest, 1)}
    return out


def evaluate_case(ctx, case, flt, columns) -> Tuple[Optional[Tuple[str, str]], Dict[str, Any]]:
    fpy = sqlref.filter_py(flt) if flt is not None else None
    res = run_tables(ctx, [(case, [(flt or [], columns, fpy)], "single case")])[0]
    if not res or res[0] is None:
        raise RuntimeError("case could not be run")
    return judge(case, flt or [], columns, res[0]), res[0]


def shrink(ctx, case, flt, columns, key: str, budget: int = 60):
    """Greedy delta debugging: drop files, rows, filter entries, projection while the same verdict key persists."""
    def still(c, f, cols):
        if not hist.well_formed(c):
            return False
        try:
            v, _ = evaluate_case(ctx, c, f, cols)
        except Exception:  # noqa: BLE001
            return False
        return v is not None and v[0] == key
    changed = True
    while changed and budget > 0:
        changed = False
        for i in range(len(case["files"])):
            c2 = hist.drop_file(case, i)
            budget -= 1
            if still(c2, flt, columns):
                case, changed = c2, True
                break
        if changed:
            continue
        if case.get("history") is not None:
            # steps that append nothing (deletes, expiry, collections, reloads, aborted transactions), then single operations
            cands = [hist.drop_step(case, k) for k in range(len(case["history"]))]
            cands = [c for c in cands if c is not None] + [c for k in range(len(case["history"])) for c in hist.simplify_step(case, k)]
            for c2 in cands:
                budget -= 1
                if still(c2, flt, columns):
                    case, changed = c2, True
                    break
            if changed:
                continue
        for i, f in enumerate(case["files"]):
            for j in range(len(f)):
                if len(f) == 1:
                    continue
                c2 = dict(case, files=case["files"][:i] + [f[:j] + f[j + 1:]] + case["files"][i + 1:])
                budget -= 1
                if still(c2, flt, columns):
                    case, changed = c2, True
                    break
            if changed:
                break
        if changed:
            continue
        for i in range(len(flt)):
            f2 = flt[:i] + flt[i + 1:]
            budget -= 1
            if f2 and still(case, f2, columns):
                flt, changed = f2, True
                break
        if changed:
            continue
        if columns is not None:
            budget -= 1
            if still(case, flt, None):
                columns, changed = None, True
                continue
        if case.get("tz"):
            # the zones: none at all (the failure does not depend on the process environment), then UTC on the writing side
            for c2 in ([{k: v for k, v in case.items() if k != "tz"}] + ([dict(case, tz=["UTC", case["tz"][1]])] if case["tz"][0] != "UTC" else [])):
                budget -= 1
                if still(c2, flt, columns):
                    case, changed = c2, True
                    break
    return case, flt, columns


_SHRUNK: Dict[str, int] = {}


def report(ctx, verdict, case, flt, columns, results, source: str) -> None:
    key, text = verdict
    _SHRUNK[key] = _SHRUNK.get(key, 0) + 1
    if _SHRUNK[key] <= 3:                       # the first few failing inputs of a kind are minimised; the others are reported as found
        case, flt, columns = shrink(ctx, case, flt, columns, key)
    try:
        v2, results2 = evaluate_case(ctx, case, flt, columns)
    except RuntimeError:
        v2, results2 = None, results
    if v2 is not None and v2[0] == key:
        text, results = v2[1], results2
    sub = "other"
    if key == "api-differ":
        groups: Dict[Any, List[str]] = {}
        for n_, r_ in results.items():
            groups.setdefault((r_[0], tuple(r_[1]) if r_[0] == "rows" else r_[1]), []).append(n_)
        minority = min(groups.values(), key=len)
        if all(n_.startswith("scan(") and "verify=False" in n_ for n_ in minority):
            sub = "scan-verify-off-pushdown"
        elif any(not f for f in hist.live_files(case)) and {n_.startswith("scan(") for n_ in minority} != {True, False} \
                and any(r_[0] == "raises" for r_ in results.values()):
            sub = "zero-row-file"          # scan binds the expression against the file's schema, the batch readers evaluate nothing
        elif all(n_.startswith("scan(") for n_ in minority) and len(minority) == 4:
            sub = "scan-vs-batches"
    elif key == "malformed-accepted":
        acc = [n_ for n_, r_ in results.items() if r_[0] != "raises"]
        try:
            sqlref.atoms(flt)
            why = ""
        except sqlref.Malformed as m_:
            why = str(m_)
        except sqlref.Unjudged:
            why = ""
        is_text = why.endswith(("not a str", "not a bytes", "not a bytearray"))
        if why.startswith("between needs (lo, hi), not a") and is_text:
            sub = "between-text-unpacked"
        elif why.startswith("in / not_in need a list of values, not a") and is_text:
            sub = "text-value-set-iterated"
        elif why.endswith("with the flag False"):
            sub = "null-test-flag-false"
        elif why.endswith("not a mapping"):
            sub = "mapping-value-set-read-as-keys"
        else:
            sub = ("scan" if all(n_.startswith("scan(") for n_ in acc) else "other") + ("-empty-table" if not hist.live_files(case) else "-populated-table")
    elif key == "wrong-rows":
        got = list(next(iter(results.values()))[1]) if next(iter(results.values()))[0] == "rows" else []
        try:
            exp = sqlref.canon_rows(sqlref.expected_rows(hist.live_rows(case), sqlref.atoms(flt), columns))
        except Exception:  # noqa: BLE001
            exp = []
        missing, extra = [r for r in exp if r not in got], [r for r in got if r not in exp]
        sub = "rows-missing" if missing and not extra else "rows-extra" if extra and not missing else "rows-missing-and-extra"
        if any(cd[0] == "pair" and cd[2][0] in sqlref.ONE_SHOT_KINDS for _c, cd in flt):
            # an iterator / generator as value set, consumed by the first reader -- if the same filter with LISTS is answered correctly
            as_lists = [(c, ("pair", cd[1], ("list", list(cd[2][1]))) if cd[0] == "pair" and cd[2][0] in sqlref.ONE_SHOT_KINDS else cd) for c, cd in flt]
            try:
                v3, _r3 = evaluate_case(ctx, case, as_lists, columns)
            except Exception:  # noqa: BLE001
                v3 = None
            if v3 is None or v3[0] != key:
                sub = "one-shot-value-set-" + sub
    ops = sub
    if case.get("tz"):
        source += f"; table written by a process with TZ={case['tz'][0]!r}, read by one with TZ={case['tz'][1]!r}"
        if key == "wrong-rows" and case["tz"][1] != "UTC" and not ops.startswith("one-shot"):
            ops += "-reader-outside-utc"
    ctx.violation(f"{key}:{ops}", f"[{source}] filter {sqlref.filter_py(flt)!r} columns={columns}: {text}",
                  case_json(case, flt, columns, {"verdict": key, "results": {k: list(v) if v[0] == "raises" else [v[0], list(v[1])] for k, v in results.items()}}))


# hand-confirmed failing inputs of the unchanged tree; always run first
CORPUS: List[Dict[str, Any]] = [
    {"name": "F-C12 != loses the NaN row with verify_checksums=False",
     "cols": ["x"], "kinds": ["double"], "files": [[{"x": 5.0}, {"x": NAN}]],
     "filter": [("x", ("pair", ("str", "!="), ("val", 5.0)))], "columns": None},
    {"name": "F-C12 not_in loses the NaN row with verify_checksums=False",
     "cols": ["x", "k"], "kinds": ["double", "long"], "files": [[{"x": 5.0, "k": 1}, {"x": NAN, "k": 2}]],
     "filter": [("x", ("pair", ("str", "not_in"), ("list", [5.0])))], "columns": ["k"]},
    {"name": "F-C12 in [NaN] loses the NaN row with verify_checksums=False",
     "cols": ["x"], "kinds": ["double"], "files": [[{"x": 5.0}, {"x": NAN}]],
     "filter": [("x", ("pair", ("str", "in"), ("list", [NAN])))], "columns": None},
    {"name": "unknown operator accepted by scan() on an empty table",
     "cols": ["x"], "kinds": ["long"], "files": [],
     "filter": [("x", ("pair", ("str", "gte"), ("val", 1)))], "columns": None},
    {"name": "{'x': None} accepted by scan() on an empty table",
     "cols": ["x"], "kinds": ["long"], "files": [],
     "filter": [("x", ("plain", ("val", None)))], "columns": None},
    {"name": "a filter pyarrow cannot bind (string literal on a long column) raises in scan() only, on a data file without rows",
     "cols": ["a"], "kinds": ["long"], "files": [[]],
     "filter": [("a", ("plain", ("val", "x")))], "columns": None},
    {"name": "a filter on a column the table does not have raises in scan() only, on a data file without rows",
     "cols": ["a"], "kinds": ["long"], "files": [[]],
     "filter": [("nosuch", ("plain", ("val", 1)))], "columns": None},
    {"name": "a string value set is read as the set of its characters",
     "cols": ["s", "k"], "kinds": ["string", "long"], "files": [[{"s": "q", "k": 1}, {"s": "qb", "k": 2}]],
     "filter": [("s", ("pair", ("str", "in"), ("val", "qb")))], "columns": None},
    {"name": "a string between argument is unpacked into its characters",
     "cols": ["s", "k"], "kinds": ["string", "long"], "files": [[{"s": "q", "k": 1}, {"s": "az", "k": 2}]],
     "filter": [("s", ("pair", ("str", "between"), ("val", "az")))], "columns": None},
    {"name": "('is_null', False) selects the NULL rows",
     "cols": ["s", "k"], "kinds": ["string", "long"], "files": [[{"s": "q", "k": 1}, {"s": None, "k": 2}]],
     "filter": [("s", ("pair", ("str", "is_null"), ("val", False)))], "columns": None},
    {"name": "an iterator as value set is consumed when the expression is built: pruning sees an empty set and skips every file",
     "cols": ["a"], "kinds": ["long"], "files": [[{"a": 7}], [{"a": 9}]],
     "filter": [("a", ("pair", ("str", "in"), ("iter", [7])))], "columns": None},
    {"name": "a dict as value set is read as the set of its keys",
     "cols": ["a"], "kinds": ["long"], "files": [[{"a": 7}], [{"a": 9}]],
     "filter": [("a", ("pair", ("str", "in"), ("dict", [7])))], "columns": None},
    {"name": "heterogeneous IN list raises in scan() only when every file is pruned",
     "cols": ["x", "k"], "kinds": ["long", "long"], "files": [[{"x": 1, "k": 1}, {"x": 2, "k": 2}]],
     "filter": [("x", ("pair", ("str", "in"), ("list", [1, "a"]))), ("k", ("pair", ("str", ">"), ("val", 100)))], "columns": None},
]


def judge_all(ctx, jobs, results, tag: str) -> int:
    n = 0
    for (case, reqs, src), res in zip(jobs, results):
        for (flt, columns, _fpy), r in zip(reqs, res):
            if r is None:
                continue
            n += 1
            ctx.count(len(API_VARIANTS), (tag, repr(case["files"]), repr(case.get("history")), repr(flt), repr(columns)))
            verdict = judge(case, flt, columns, r)
            if verdict:
                report(ctx, verdict, case, flt, columns, r, src)
    return n


def oracle_corpus(ctx) -> None:
    jobs = []
    for ent in CORPUS:
        case = {"cols": ent["cols"], "kinds": ent["kinds"], "files": ent["files"]}
        jobs.append((case, [(ent["filter"], ent["columns"], sqlref.filter_py(ent["filter"]))], "corpus: " + ent["name"]))
    judge_all(ctx, jobs, run_tables(ctx, jobs), "corpus")
    ctx.stats["corpus_cases"] = len(CORPUS)


MALFORMED: List[Tuple[str, Tuple]] = (
    [("unknown operator", ("pair", ("str", s), ("val", 1))) for s in UNKNOWN_OPS]
    + [("non-string operator", ("pair", ("other", o), ("val", 1))) for o in (5, None, 1.5, True)]
    + [("None as value", ("plain", ("val", None)))]
    + [("between arity", ("pair", ("str", "between"), a)) for a in (("tuple", []), ("tuple", [1]), ("tuple", [1, 2, 3]), ("val", 5), ("val", None))]
    + [("between text", ("pair", ("str", "Between"), ("val", a))) for a in ("13", "", "abc", b"\x00\x09")]
    + [("text value set", ("pair", ("str", op), ("val", a))) for op in ("in", "NOT_IN") for a in ("13", "", b"\x01\x03")]
    + [("scalar value set", ("pair", ("str", "in"), ("val", a))) for a in (1, None)]
    + [("mapping as value set", ("pair", ("str", op), ("dict", a))) for op in ("in", "Not_In") for a in ([1], [], [1, 3])]
    + [("null test with the flag False", ("pair", ("str", op), ("val", False))) for op in ("is_null", "IsNotNull")]
)


def oracle_malformed(ctx) -> None:
    """Each malformed condition, alone and next to a valid one, on an empty, a populated and an all-pruned table."""
    tables = {
        "empty": {"cols": ["x", "k"], "kinds": ["long", "long"], "files": []},
        "populated": {"cols": ["x", "k"], "kinds": ["long", "long"], "files": [[{"x": 1, "k": 1}, {"x": None, "k": 2}], [{"x": 3, "k": None}]]},
        "zero-row-file": {"cols": ["x", "k"], "kinds": ["long", "long"], "files": [[]]},
        "text": {"cols": ["x", "k"], "kinds": ["string", "long"], "files": [[{"x": "1", "k": 1}, {"x": None, "k": 2}], [], [{"x": "3", "k": None}, {"x": "13", "k": 4}]]},
    }
    conds = MALFORMED if ctx.tier == "thorough" else MALFORMED[:6] + MALFORMED[len(UNKNOWN_OPS):]
    jobs = []
    for tname, case in tables.items():
        reqs = []
        for _what, cond in conds:
            for flt in ([("x", cond)], [("k", ("pair", ("str", ">"), ("val", 100))), ("x", cond)]):
                reqs.append((flt, None, sqlref.filter_py(flt)))
        jobs.append((case, reqs, f"malformed filters on the {tname} table"))
    ctx.stats["malformed_cases"] = judge_all(ctx, jobs, run_tables(ctx, jobs), "malformed")


def edge_filters(kind: str, dom: Optional[List[Any]] = None) -> List[List[Tuple[str, Tuple]]]:
    """Systematic NULL / empty-set / alias edge cases for one column type (column c0; c1 is a long)."""
    dom = dom or DOMAIN[kind]
    a, b = dom[0], dom[-1]
    P = lambda op, arg: ("pair", ("str", op), arg)
    out = [
        [("c0", P("in", ("list", [])))], [("c0", P("not_in", ("list", [])))],
        [("c0", P("in", ("list", [None])))], [("c0", P("not_in", ("list", [None])))],
        [("c0", P("in", ("list", [None, a])))], [("c0", P("not_in", ("list", [None, a])))],
        [("c0", P("IN", ("tuple", [a, b, a])))], [("c0", P("Not In", ("tuple", [b])))],
        [("c0", P("==", ("val", None)))], [("c0", P("!=", ("val", None)))], [("c0", P("<", ("val", None)))],
        [("c0", P("between", ("tuple", [None, b])))], [("c0", P("between", ("list", [a, None])))],
        [("c0", P("between", ("tuple", [a, b])))], [("c0", P("BETWEEN", ("tuple", [b, a])))],
        [("c0", P("is_null", ("val", True)))], [("c0", P("isnull", ("val", None)))],
        [("c0", P("is_not_null", ("val", True)))], [("c0", P("NotNull", ("val", 0)))], [("c0", P("isnotnull", ("val", True)))],
        [("c0", ("plain", ("val", a)))], [("c0", P("=", ("val", a)))], [("c0", P("<>", ("val", a)))],
        [("c0", P("ne", ("val", a))), ("c1", P("is_null", ("val", True)))],
        [("c0", P("not_in", ("list", [a]))), ("c1", P("in", ("list", [1, None, 2])))],
        [("c0", P("is_null", ("val", True))), ("c1", P(">=", ("val", 1)))],
        [("c1", P(">", ("val", 100))), ("c0", P("!=", ("val", a)))],            # every file pruned
    ]
    return out


def oracle_edges(ctx) -> None:
    jobs = []
    nk = len(sqlref.ITERABLE_KINDS)
    for kn, kind in enumerate(MODEL_KINDS + NOBOUNDS_KINDS):
        dom = [canon_cell(kind, v) for v in DOMAIN[kind]]
        rows = [{"c0": v, "c1": i % 3} for i, v in enumerate(dom)] + [{"c0": None, "c1": 1}, {"c0": dom[0], "c1": None}, {"c0": None, "c1": None}]
        case = {"cols": ["c0", "c1"], "kinds": [kind, "long"], "files": [rows[:2], rows[2:], [dict(rows[0])]]}
        if kn % 2 or kind in TEMPORAL_KINDS:
            case = with_tz(ctx.rng, case)
        reqs = []
        for k, flt in enumerate(edge_filters(kind)):
            for columns in ((None, ["c1"]) if ctx.tier == "thorough" else ((None,) if k % 2 else (["c1"],))):
                reqs.append((flt, columns, sqlref.filter_py(flt)))
            if has_value_set(flt):
                # the same value set held by the other iterable kinds (all of them in the thorough tier, three per filter --
                # rotating, so that every column type meets every kind -- in the quick one)
                for j in (range(nk) if ctx.tier == "thorough" else [(kn + k + 4 * i) % nk for i in range(3)]):
                    f2 = vary_value_sets(flt, j)
                    reqs.append((f2, None, sqlref.filter_py(f2)))
        jobs.append((case, reqs, f"edge cases on a {kind} column"))
    ctx.stats["edge_cases"] = judge_all(ctx, jobs, run_tables(ctx, jobs), "edges")


def extreme_filters(col: str, ext: List[Any], other: Optional[str]) -> List[List[Tuple[str, Tuple]]]:
    """Filters whose literals sit at / just below / just above the minimum and the maximum of each file: the inputs on
    which file pruning decides, and on which an inexact stored bound (rounded, truncated, widened the wrong way) loses rows."""
    P = lambda op, arg: ("pair", ("str", op), arg)
    lits: List[Any] = []
    for e in ext:
        for v in neighbours(e):
            if not any(type(v) is type(w) and (v == w) for w in lits):
                lits.append(v)
    out: List[List[Tuple[str, Tuple]]] = []
    for v in lits:
        for op in ("==", ">=", ">", "<=", "<", "!="):
            out.append([(col, P(op, ("val", v)))])
        out.append([(col, P("in", ("list", [v])))])
        out.append([(col, P("not_in", ("list", [v, None])))])
    for lo in ext:
        for hi in ext:
            out.append([(col, P("between", ("tuple", [lo, hi])))])
    top = max(ext) if ext else None
    if top is not None:
        for v in neighbours(top):
            out.append([(col, P("between", ("tuple", [v, v])))])
            out.append([(col, P("in", ("list", [v, min(ext)])))])
            if other:
                out.append([(col, P(">=", ("val", v))), (other, P("is_not_null", ("val", True)))])
    return out


def oracle_extremes(ctx) -> None:
    """Per ordered column type -- and for LONG TEXT sharing prefixes beyond 128 / 1000 / 4096 characters -- a table of
    several files with distinct value ranges, filtered with literals at and around every file's minimum and maximum."""
    families: List[Tuple[str, str, List[Any]]] = [("string", "long text with shared prefixes", LONG_TEXT)]
    for kind in MODEL_KINDS + NOBOUNDS_KINDS:
        if kind != "boolean":
            families.append((kind, kind, DOMAIN[kind]))
    jobs = []
    for kind, label, dom in families:
        vals = []
        for v in dom:
            c = canon_cell(kind, v)
            if c == c:
                vals.append(c)
        vals = sorted(set(vals)) if kind not in ("double", "float") else sorted(set(vals))
        k3 = max(1, len(vals) // 3)
        groups = [vals[:k3], vals[k3:2 * k3], vals[2 * k3:]]
        files = [[{"c0": v, "c1": i} for i, v in enumerate(g)] + [{"c0": None, "c1": 7}] for g in groups if g]
        files.append([{"c0": vals[-1], "c1": 9}])                       # single-valued file holding the overall maximum
        case = {"cols": ["c0", "c1"], "kinds": [kind, "long"], "files": files}
        ext = file_extremes(case, "c0")
        flts = extreme_filters("c0", ext, "c1")
        if ctx.tier == "quick":
            flts = ctx.rng.sample(flts, min(len(flts), 160 if label == "long text with shared prefixes" else 40))
        reqs = []
        for k, flt in enumerate(flts):
            columns = None if k % 3 else ["c1"]
            if k % 2 and has_value_set(flt):
                flt = vary_value_sets(flt, k // 2)       # value sets at the file extremes held by every iterable kind
            reqs.append((flt, columns, sqlref.filter_py(flt)))
        # several jobs per family so that the pool shares the work
        step = 60
        for a in range(0, len(reqs), step):
            jobs.append((case, reqs[a:a + step], f"literals at the file extremes of a {label} column"))
        # ... and with the writing / reading process in other time zones: every temporal kind, the others in rotation
        nz = (3 if ctx.tier == "thorough" else 2) if kind in TEMPORAL_KINDS else (1 if len(jobs) % 3 == 0 else 0)
        for _z in range(nz):
            zc = with_tz(ctx.rng, case)
            part = reqs if len(reqs) <= step else ctx.rng.sample(reqs, step)
            jobs.append((zc, part, f"literals at the file extremes of a {label} column"))
    ctx.stats["extreme_cases"] = judge_all(ctx, jobs, run_tables(ctx, jobs), "extremes")


def oracle_textbounds(ctx) -> None:
    """Directed: per length boundary L (1 ... 4096 characters) one table whose string column holds values of L-1 / L / L+1
    characters closed by a character of every plane (U+10000, an emoji, U+10FFFF, U+FFFF, U+FFFD, DEL, 'z', NUL, nothing),
    filled with 1-, 2- and 4-byte characters -- ONE value per data file (so that every value is some file's stored minimum
    and maximum), all files appended by one transaction (one manifest).  Every value is looked up with == and with one
    more operator (>=, <=, in, between, > the value without its last character) through all API variants: a stored bound
    that is cut, rounded or closed by a sentinel which some value exceeds prunes the file that holds the value."""
    rng = ctx.rng
    P = lambda op, arg: ("pair", ("str", op), arg)
    jobs = []
    nvals = 0
    for L in TEXT_BOUNDARIES:
        vals: List[str] = []
        for d in (-1, 0, 1):
            tails = TEXT_TAILS if (d == 0 or ctx.tier == "thorough") else rng.sample(TEXT_TAILS[:3], 1) + rng.sample(TEXT_TAILS[3:], 2)
            fill = "k" if d == 0 else rng.choice(TEXT_FILLS)
            for tail in tails:
                v = boundary_text(max(0, L + d), tail, fill, rng.choice(["", "", "b"]))
                if v not in vals:
                    vals.append(v)
        rng.shuffle(vals)
        files = [[{"c0": v, "c1": i}] + ([{"c0": None, "c1": 1000 + i}] if i % 4 == 0 else []) for i, v in enumerate(vals)]
        case = {"cols": ["c0", "c1"], "kinds": ["string", "long"], "files": files, "history": [["tx", [["append", i] for i in range(len(files))]]]}
        reqs = []
        for i, v in enumerate(vals):
            second = [P(">=", ("val", v)), P("<=", ("val", v)), P("in", ("list", [v, None])), P("between", ("tuple", [v, v])),
                      P(">", ("val", v[:-1])), P("not_in", ("list", [w for w in vals if w != v][:40]))][i % 6]
            for k, cond in enumerate((P("==", ("val", v)), second)):
                flt = [("c0", cond)]
                reqs.append((flt, None if (i + k) % 3 else ["c1"], sqlref.filter_py(flt)))
        nvals += len(vals)
        jobs.append((case, reqs, f"text values at and around {L} characters, one value per data file"))
    ctx.stats["textbound_cases"] = judge_all(ctx, jobs, run_tables(ctx, jobs), "textbounds")
    ctx.stats["textbound_values"] = nvals


def add_shape(acc: Dict[str, int], case: Dict[str, Any]) -> None:
    if case.get("history") is None:
        return
    acc["tables_built_by_a_history"] = acc.get("tables_built_by_a_history", 0) + 1
    sh = hist.shape(case)
    for k, v in sh.items():
        acc[k] = acc.get(k, 0) + v
    if sh["partial_manifest_deletes"]:
        acc["tables_with_a_rewritten_manifest"] = acc.get("tables_with_a_rewritten_manifest", 0) + 1


def oracle_rewrites(ctx) -> None:
    """Per column type (ordered or not, with or without stored bounds) and for long text: a table whose manifests went
    through REWRITES before it is queried -- several files appended by one transaction, some of them deleted later (the
    manifest is rewritten with the survivors carried over, one manifest twice), a mixed transaction, expiry, a collection,
    a fresh handle -- filtered with literals at and around every live file's minimum and maximum, the NULL / empty-set /
    alias edge cases, through all API variants.  The expected rows are those of the files that are live by the list
    semantics of harness/lib/c12_hist.py."""
    families: List[Tuple[str, str, List[Any]]] = [("string", "long text with shared prefixes", LONG_TEXT + boundary_family(ctx.rng, 1, ["k"]))]
    for kind in MODEL_KINDS + NOBOUNDS_KINDS:
        families.append((kind, kind, DOMAIN[kind]))
    jobs = []
    shapes: Dict[str, int] = {}
    for kind, label, dom in families:
        vals = []
        for v in dom:
            c = canon_cell(kind, v)
            if c == c and not any(same(c, w) for w in vals):
                vals.append(c)
        vals = sorted(vals)
        nans = [canon_cell(kind, v) for v in dom if isinstance(v, float) and v != v][:1]
        nfiles = 5
        # contiguous value ranges per file (values repeat over the files when the domain is small), NULL and NaN rows spread
        files = []
        for j in range(nfiles):
            lo, hi = j * len(vals) // nfiles, max(j * len(vals) // nfiles + 1, (j + 1) * len(vals) // nfiles)
            g = vals[lo:hi] or [vals[j % len(vals)]]
            rows = [{"c0": v, "c1": 10 * j + i} for i, v in enumerate(g)]
            if j % 2 == 0:
                rows.append({"c0": None, "c1": 10 * j + 7})
            if nans and j in (1, 2):
                rows.append({"c0": nans[0], "c1": 10 * j + 8})
            files.append(rows)
        for variant in (0, 1):
            case = {"cols": ["c0", "c1"], "kinds": [kind, "long"], "files": files, "history": hist.rewrite_history(nfiles, variant)}
            if variant == 1 or kind in TEMPORAL_KINDS:
                case = with_tz(ctx.rng, case)
            add_shape(shapes, case)
            ext = file_extremes(case, "c0")
            flts = extreme_filters("c0", ext, "c1") + edge_filters(kind, [r["c0"] for f in hist.live_files(case) for r in f if r["c0"] is not None])
            if ctx.tier == "quick":
                flts = ctx.rng.sample(flts, min(len(flts), 45 if label.startswith("long text") else 28))
            reqs = []
            for k, flt in enumerate(flts):
                columns = None if k % 3 else ["c1"]
                reqs.append((flt, columns, sqlref.filter_py(flt)))
            step = 40
            for a in range(0, len(reqs), step):
                jobs.append((case, reqs[a:a + step], f"rewritten manifests (history {variant}) of a {label} column"))
    ctx.stats["rewrite_cases"] = judge_all(ctx, jobs, run_tables(ctx, jobs), "rewrites")
    ctx.stats["rewrite_histories"] = shapes


def oracle_e2e(ctx) -> None:
    rng = ctx.rng
    ntables = 120 if ctx.tier == "quick" else 900
    nfilters = 10 if ctx.tier == "quick" else 14
    stats = {"all_raise": 0, "empty_result": 0, "nonempty_result": 0, "projected": 0, "empty_tables": 0, "tables_with_long_text": 0,
             "tables_with_a_zero_row_file": 0, "tables_with_time_zones": 0,
             "filters_with_literal_at_a_file_extreme": 0}
    opmix: Dict[str, int] = {}
    shapes: Dict[str, int] = {}
    jobs = []
    for t in range(ntables):
        # long text: the fixed family plus values at and around a few (random) length boundaries, astral tails included
        long_dom = LONG_TEXT + boundary_family(rng, 2)
        case = gen_table_case(rng, E2E_KINDS, cross=0.15, malformed=0.1, long_text=0.25, long_dom=long_dom, history=0.5, zero_rows=0.12)
        # the time zones of the writing and of the reading process (always drawn when the table has a temporal column)
        case = with_tz(rng, case, 1.0 if any(k in TEMPORAL_KINDS for k in case["kinds"]) else 0.3)
        if case.get("tz"):
            stats["tables_with_time_zones"] += 1
        add_shape(shapes, case)
        if not hist.live_files(case):
            stats["empty_tables"] += 1
        if any(d is long_dom for d in case["doms"]):
            stats["tables_with_long_text"] += 1
        if any(not f for f in hist.live_files(case)):
            stats["tables_with_a_zero_row_file"] += 1
        reqs = []
        for _ in range(nfilters):
            flt = gen_filter(rng, case, cross=0.15, malformed=0.08, boundary=0.35, unknown=0.04)
            columns = gen_columns(rng, case)
            fpy = sqlref.filter_py(flt) if (flt or rng.random() < 0.5) else None
            reqs.append((flt, columns, fpy))
            for _c, cd in flt:
                k = str(cd[1][1]).lower() if cd[0] == "pair" else "plain"
                opmix[k] = opmix.get(k, 0) + 1
        jobs.append((case, reqs, "random"))
    results = run_tables(ctx, jobs)
    for (case, reqs, _src), res in zip(jobs, results):
        for (flt, columns, _f), r in zip(reqs, res):
            if r is None:
                continue
            first = next(iter(r.values()))
            if first[0] == "raises":
                stats["all_raise"] += 1
            elif first[1]:
                stats["nonempty_result"] += 1
            else:
                stats["empty_result"] += 1
            if columns is not None:
                stats["projected"] += 1
    total = judge_all(ctx, jobs, results, "e2e")
    if jobs and results and results[0] and results[0][0] is not None:
        case, reqs, _ = jobs[0]
        ctx.sample({"e2e_case": case_json(case, reqs[0][0], reqs[0][1]), "outcome": {k: (v[1] if v[0] == "raises" else len(v[1])) for k, v in list(results[0][0].items())[:3]}})
    ctx.stats["e2e_filters"] = total
    ctx.stats["e2e_api_calls"] = total * len(API_VARIANTS)
    ctx.stats["e2e_outcomes"] = stats
    ctx.stats["e2e_histories"] = shapes
    ctx.stats["judgement_classes_all_oracles"] = dict(JUDGED)
    ctx.stats["e2e_operator_mix"] = dict(sorted(opmix.items(), key=lambda kv: -kv[1])[:30])


# =================================================================================== correspondence: prims
def leaf_coq(leaf: Tuple) -> str:
    t = leaf[0]
    if t == "cmp":
        return f"(Cmp {CMPOP[leaf[1]]} 0 {arg_coq(leaf[2])})"
    if t == "isin":
        return f"(IsIn 0 {vals_to_coq(leaf[1])})"
    if t == "valid":
        return "(IsValid 0)"
    if t == "null":
        return "(IsNull 0)"
    if t == "scalar":
        return f"(Scalar {'true' if leaf[1] else 'false'})"
    if t == "not":
        return f"(Not {leaf_coq(leaf[1])})"
    if t == "and":
        return f"(And {leaf_coq(leaf[1])} {leaf_coq(leaf[2])})"
    raise ValueError(t)


def leaf_pa(leaf: Tuple):
    import pyarrow as pa
    import pyarrow.compute as pc
    f = pc.field("c")
    t = leaf[0]
    if t == "cmp":
        lit = sqlref.arg_py(leaf[2])
        return {"EQ": lambda: f == lit, "NE": lambda: f != lit, "LT": lambda: f < lit, "LE": lambda: f <= lit,
                "GT": lambda: f > lit, "GE": lambda: f >= lit}[leaf[1]]()
    if t == "isin":
        return pc.is_in(f, value_set=pa.array(leaf[1]))
    if t == "valid":
        return f.is_valid()
    if t == "null":
        return f.is_null()
    if t == "scalar":
        return pc.scalar(leaf[1])
    if t == "not":
        return ~leaf_pa(leaf[1])
    if t == "and":
        return leaf_pa(leaf[1]) & leaf_pa(leaf[2])
    raise ValueError(t)


def leaf_same_kind(kind: str, leaf: Tuple) -> bool:
    k = sqlref.COLKIND[kind]
    t = leaf[0]
    if t == "cmp":
        return leaf[2][0] == "val" and (leaf[2][1] is None or sqlref.pykind(leaf[2][1]) == k)
    if t == "isin":
        # an all-None list has Arrow type null: pyarrow may refuse it (compile never builds one: NULLs are dropped)
        return all(w is None or sqlref.pykind(w) == k for w in leaf[1]) and any(w is not None for w in leaf[1])
    if t in ("not",):
        return leaf_same_kind(kind, leaf[1])
    if t == "and":
        return leaf_same_kind(kind, leaf[1]) and leaf_same_kind(kind, leaf[2])
    return True


def leaf_inexact(kind: str, leaf: Tuple) -> bool:
    """float32 column against a literal that is not float32-representable, or ints beyond the column's width."""
    def bad(w):
        if isinstance(w, float) and kind == "float":
            return not sqlref.f32_exact(w)
        if isinstance(w, int) and not isinstance(w, bool):
            return not (-2**31 <= w < 2**31) if kind == "int" else not (-2**63 <= w < 2**63)
        return False
    t = leaf[0]
    if t == "cmp":
        return leaf[2][0] == "val" and bad(leaf[2][1])
    if t == "isin":
        return any(bad(w) for w in leaf[1])
    if t == "not":
        return leaf_inexact(kind, leaf[1])
    if t == "and":
        return leaf_inexact(kind, leaf[1]) or leaf_inexact(kind, leaf[2])
    return False


def pa_masks(table, expr) -> Any:
    """Per row: 1 TRUE, 0 FALSE, 2 NULL -- or ('raises', class)."""
    try:
        tt = set(table.filter(expr).column("i").to_pylist())
        ff = set(table.filter(~expr).column("i").to_pylist())
    except Exception as e:  # noqa: BLE001
        return ("raises", type(e).__name__)
    return [1 if i in tt else 0 if i in ff else 2 for i in range(table.num_rows)]


def corr_prims(ctx) -> None:
    import pyarrow as pa
    rng = ctx.rng
    cases: List[Tuple[str, Tuple]] = []
    for kind in MODEL_KINDS:
        dom = DOMAIN[kind]
        lits = list(_LITERALS) + [d for d in dom if not any(same(d, l) for l in _LITERALS)]
        for op in SCALAR_OPS:
            for lit in (lits if ctx.tier == "thorough" else rng.sample(lits, 9)):
                cases.append((kind, ("cmp", op, ("val", lit))))
        cases.append((kind, ("cmp", rng.choice(SCALAR_OPS), ("list", [dom[0]]))))
        cases.append((kind, ("cmp", rng.choice(SCALAR_OPS), ("list", []))))
        same_lits = [l for l in lits if sqlref.pykind(l) == sqlref.COLKIND[kind]]
        for _ in range(24 if ctx.tier == "thorough" else 6):
            n = rng.choice([1, 1, 2, 3])
            pool = same_lits + [None] if rng.random() < 0.7 else lits
            cases.append((kind, ("isin", [rng.choice(pool) for _ in range(n)])))
        cases += [(kind, ("valid",)), (kind, ("null",)), (kind, ("scalar", True)), (kind, ("scalar", False))]
        simple = [("cmp", rng.choice(SCALAR_OPS), ("val", rng.choice(same_lits + [None]))) for _ in range(8)] + \
                 [("isin", [rng.choice(same_lits + [None]) for _ in range(rng.choice([1, 2]))]) for _ in range(3)] + \
                 [("valid",), ("null",), ("scalar", True), ("scalar", False)]
        for _ in range(40 if ctx.tier == "thorough" else 12):
            a, b = rng.choice(simple), rng.choice(simple)
            shape = rng.choice(["not", "and", "and_not", "not_and", "and3"])
            if shape == "not":
                e = ("not", a)
            elif shape == "and":
                e = ("and", a, b)
            elif shape == "and_not":
                e = ("and", ("not", a), b)
            elif shape == "not_and":
                e = ("not", ("and", a, b))
            else:
                e = ("and", ("and", a, b), ("not", rng.choice(simple)))
            cases.append((kind, e))
    exprs, impl, kept = [], [], []
    for kind, leaf in cases:
        cells = [canon_cell(kind, v) for v in DOMAIN[kind]] + [None]
        table = pa.table({"c": pa.array(cells, arrow_type(kind)), "i": pa.array(list(range(len(cells))), pa.int64())})
        try:
            expr = leaf_pa(leaf)
            got = pa_masks(table, expr)
        except Exception as e:  # noqa: BLE001 - building the expression itself refused (pa.scalar / pa.array)
            got = ("raises", type(e).__name__)
        rows = "[" + "; ".join(f"[(0, {val_to_coq(c)})]" for c in cells) + "]"
        exprs.append(f"map (fun r => tvz (eval3 X0 (fun _ _ => false) {leaf_coq(leaf)} r)) {rows}")
        impl.append(got)
        kept.append((kind, leaf, cells))
    model = coqbuild.coq_eval(REQ, exprs, preamble=PREAMBLE)
    bad = []
    st = {"compared_rows": 0, "pyarrow_refuses_cross_kind": 0, "outside_temporal_cross": 0, "skipped_lossy_is_in": 0, "skipped_inexact_literal": 0}
    for (kind, leaf, cells), got, mod in zip(kept, impl, model):
        ctx.count(1, ("prims", kind, repr(leaf)))
        samek = leaf_same_kind(kind, leaf)
        desc = {"kind": kind, "expr": repr(leaf), "pyarrow": got if isinstance(got, list) else list(got), "model": mod}
        if leaf_inexact(kind, leaf):
            st["skipped_inexact_literal"] += 1
            continue
        if isinstance(got, tuple):
            if samek and all(m != 3 for m in mod):
                bad.append(dict(desc, why="pyarrow refuses a same-kind expression the model evaluates"))
            else:
                st["pyarrow_refuses_cross_kind"] += 1
            continue
        if any(m == 3 for m in mod):
            lit_kinds = {sqlref.pykind(leaf[2][1])} if leaf[0] == "cmp" and leaf[2][0] == "val" else set()
            if {sqlref.COLKIND[kind]} | lit_kinds == {"date", "ts"}:
                st["outside_temporal_cross"] += 1
                continue
            bad.append(dict(desc, why="model says pyarrow refuses, pyarrow evaluates"))
            continue
        for cell, g, m in zip(cells, got, mod):
            if leaf[0] == "isin" and cell is not None and not samek:
                st["skipped_lossy_is_in"] += 1       # value set cast to the column type: oracle X (X0 covers same-kind sets only)
                continue
            st["compared_rows"] += 1
            if g != m:
                bad.append(dict(desc, cell=val_json(cell), why="mask differs (1 TRUE, 0 FALSE, 2 NULL)"))
                break
    ctx.correspondence("prims", len(kept), bad)
    ctx.stats["prims"] = dict(st, expressions=len(kept))


# =================================================================================== correspondence: parse
def gen_parse_filter(rng) -> List[Tuple[str, Tuple]]:
    flt = []
    for i in range(rng.choice([1, 1, 2, 3])):
        r = rng.random()
        vals = [1, 0, -3, 2.5, "ab", "a", "", "abc", True, None, dt.date(2020, 1, 1)]
        def arg():
            a = rng.random()
            if a < 0.5:
                return ("val", rng.choice(vals))
            n = rng.choice([0, 1, 2, 2, 3])
            if a > 0.8:
                # any other iterable kind (with every operator spelling: a value set for in / not_in only)
                return sqlref.fit_value_set(rng.choice([k for k in sqlref.ITERABLE_KINDS if k != "range"]), [rng.choice(vals) for _ in range(n)])
            return (rng.choice(["list", "tuple"]), [rng.choice(vals) for _ in range(n)])
        if r < 0.15:
            a = arg()
            if a[0] == "tuple" and len(a[1]) == 2:
                a = ("list", a[1])
            if a[0] in sqlref.ITERABLE_KINDS:
                a = ("list", a[1])
            cond = ("plain", a)
        elif r < 0.75:
            cond = ("pair", ("str", rand_case(rng, rng.choice(OP_SPELLINGS))), arg())
        elif r < 0.92:
            cond = ("pair", ("str", rand_case(rng, rng.choice(UNKNOWN_OPS))), arg())
        else:
            cond = ("pair", ("other", rng.choice([5, None, 2.5, False])), arg())
        flt.append((f"c{i}", cond))
    return flt


def plain_value(v: Any) -> Any:
    """expr.value as the correspondences compare it: a scalar, a list / tuple, or -- when the library kept some other
    iterable in the FilterExpression -- a marker naming its type (never equal to what the model holds: a list)."""
    if isinstance(v, (list, tuple)) or v is None or isinstance(v, (bool, int, float, str, bytes, dt.date, dt.time)):
        return v
    return ("kept-as", type(v).__name__)


def w_parse(fpys: List[Dict[str, Any]]) -> List[Optional[List[Tuple[str, str, Any]]]]:
    """CHILD: filters.parse_filter_dict on each filter dict -> [(column, op name, value)] or None when it raises."""
    from datashard import filters
    out: List[Optional[List[Tuple[str, str, Any]]]] = []
    for fpy in fpys:
        try:
            out.append([(e.column, e.op.name, plain_value(e.value)) for e in filters.parse_filter_dict(sqlref.realise(fpy))])
        except Exception:  # noqa: BLE001
            out.append(None)
    return out


def front_end_failed(ctx, what: str, status: str, val: Any) -> None:
    if status in ("timeout", "died"):
        ctx.violation(f"library-{'hang' if status == 'timeout' else 'died'}:{what}",
                      f"the filter front end ({what}) did not finish: {status} {val}", {"verdict": "library-" + status, "phase": what})
    else:
        ctx.proof_problems.append(f"{what} could not be run: {str(val)[-400:]}")


def corr_parse(ctx) -> None:
    rng = ctx.rng
    colnum = {f"c{i}": i for i in range(4)}
    cases = [[("c0", ("pair", ("str", s), ("val", 1)))] for s in OP_SPELLINGS + UNKNOWN_OPS + [s.upper() for s in OP_SPELLINGS]]
    cases += [[("c0", ("pair", ("str", "between"), a))] for a in
              (("tuple", [1, 2]), ("list", [1, 2]), ("tuple", [1]), ("tuple", [1, 2, 3]), ("val", "ab"), ("val", "abc"), ("val", ""), ("val", 5), ("val", None), ("list", [None, "x"]))]
    cases += [[("c0", ("pair", ("str", op), sqlref.fit_value_set(k, vs)))] for op in ("in", "NOT_IN", "between", "is_null", "==", "<")
              for k in sqlref.ITERABLE_KINDS for vs in ([], [1, 2], [None, "a"])]
    cases += [gen_parse_filter(rng) for _ in range(2500 if ctx.tier == "thorough" else 500)]
    exprs, impl = [], []
    accepted = 0
    status, parsed = pool().call("w_parse", ([sqlref.filter_py(f) for f in cases],), 120.0)
    if status != "ok":
        front_end_failed(ctx, "parse_filter_dict", status, parsed)
        return
    for flt, es in zip(cases, parsed):
        if es is not None:
            items = []
            for column, opname, v in es:
                if isinstance(v, tuple) and len(v) == 2 and v[0] == "kept-as":
                    # the FilterExpression holds the iterable itself: as the literal of a comparison the model renders it as
                    # the list of its values; as an in / not_in value set it must have been materialised (never equal)
                    given = dict(flt)[column][2]
                    arg = f"(AList {vals_to_coq(list(given[1]))})" if opname not in ("IN", "NOT_IN") else f"(AVal {val_to_coq('<' + v[1] + ' kept>')})"
                else:
                    given = dict(flt)[column]
                    if given[0] == "pair" and given[2][0] in ("set", "frozenset") and isinstance(v, list) \
                            and sorted(map(repr, v)) == sorted(map(repr, given[2][1])):
                        v = list(given[2][1])        # a hashed container iterates in an order of its own: compared as a multiset
                    arg = f"(AList {vals_to_coq(list(v))})" if isinstance(v, (list, tuple)) else f"(AVal {val_to_coq(v)})"
                items.append(f"({colnum[column]}, {opname}, {arg})")
            exp = "Some [" + "; ".join(items) + "]"
            accepted += 1
        else:
            exp = "None"
        impl.append(exp)
        exprs.append(f"(match parse {filter_coq(flt, colnum)} with Ok ps => Some (map (fun p => (pcol p, pop p, pval p)) ps) | Err _ => None end, "
                     f"({exp} : option (list (Z * fop * parg))))")
    got = coqbuild.coq_eval(REQ, exprs, preamble=PREAMBLE)
    bad = []
    for flt, (m, i) in zip(cases, got):
        ctx.count(1, ("parse", repr(flt)))
        if m != i:
            bad.append({"filter": repr(sqlref.filter_py(flt)), "model": repr(m)[:300], "impl": repr(i)[:300]})
    ctx.correspondence("parse", len(cases), bad)
    ctx.stats["parse"] = {"cases": len(cases), "accepted_by_impl": accepted}


# =================================================================================== correspondence: build + filter
def refusable_pair(colkind: str, lit: Any) -> bool:
    """Kind pairs inside the scope of the concrete oracle E0: same kind, or a pair pyarrow certainly refuses."""
    k, lk = sqlref.COLKIND[colkind], sqlref.pykind(lit)
    if lit is None or lk == k:
        return True
    return {k, lk} not in ({"int", "float"}, {"date", "ts"})


def gen_model_literal(rng, kind: str, cross: float, dom: Optional[List[Any]] = None) -> Any:
    """Literals the model decides exactly: same kind and exactly representable, or certainly-refused cross kind."""
    for _ in range(50):
        v = gen_literal(rng, kind, cross, dom)
        if isinstance(v, bytes) or not refusable_pair(kind, v):
            continue
        if isinstance(v, float) and kind == "float" and not sqlref.f32_exact(v):
            continue
        if isinstance(v, int) and not isinstance(v, bool):
            if kind == "int" and not -2**31 <= v < 2**31:
                continue
            if not -2**63 <= v < 2**63:
                continue
        return v
    return None


def gen_model_cond(rng, kind: str, cross: float, malformed: float, dom: Optional[List[Any]] = None) -> Tuple:
    """Like gen_cond, restricted to what the model with X0/E0/PA0 decides exactly."""
    if rng.random() < malformed:
        for _ in range(20):
            cd = gen_cond(rng, kind, 0.0, 1.0)
            if not isinstance(cd[-1][1], (bytes, bytearray)):       # the Coq `value` type has no bytes kind
                return cd
        return ("plain", ("val", None))
    r = rng.random()
    lit = lambda: gen_model_literal(rng, kind, cross, dom)
    if r < 0.1:
        v = lit()
        return ("plain", ("val", v)) if v is not None else ("pair", ("str", "is_null"), ("val", True))
    if r < 0.5:
        op = rng.choice(["==", "=", "eq", "!=", "<>", "ne", "<", "lt", "<=", "le", ">", "gt", ">=", "ge"])
        return ("pair", ("str", rand_case(rng, op)), ("val", lit()))
    if r < 0.78:
        op = rng.choice(["in", "not_in", "not in", "notin"])
        n = rng.choice([0, 1, 1, 2, 3])
        vals = [None if rng.random() < 0.2 else lit() for _ in range(n)]
        # is_in CASTS the value set to the column type instead of refusing (numeric <-> bool <-> temporal, and even
        # numeric-looking strings: '123' -> 123): that is oracle X / E territory, explored by `prims` and judged by
        # cross-API agreement in the e2e oracle.  The concrete E0 / X0 instance is exact for same-kind sets only.
        k = sqlref.COLKIND[kind]
        vals = [v for v in vals if v is None or sqlref.pykind(v) == k]
        return ("pair", ("str", rand_case(rng, op)), value_set_arg(rng, vals, 0.4))
    if r < 0.9:
        return ("pair", ("str", rand_case(rng, "between")), (rng.choice(["list", "tuple"]), [lit(), lit()]))
    op = rng.choice(["is_null", "isnull", "is_not_null", "notnull", "isnotnull"])
    return ("pair", ("str", rand_case(rng, op)), ("val", rng.choice([True, None, False])))


def w_build(cases: List[Tuple[List[str], List[Dict[str, Any]], Dict[str, Any]]]):
    """CHILD: per case (kinds, rows, filter dict): None when parsing raises, else ([(column, op, value)], (phase, kept row indexes))."""
    import pyarrow as pa
    from datashard import filters
    out = []
    for kinds, rows, fpy in cases:
        try:
            fes = filters.parse_filter_dict(sqlref.realise(fpy))
        except Exception:  # noqa: BLE001
            out.append(None)
            continue
        table = pa.table({"c0": pa.array([r["c0"] for r in rows], arrow_type(kinds[0])),
                          "c1": pa.array([r["c1"] for r in rows], arrow_type(kinds[1])),
                          "i": pa.array(list(range(len(rows))), pa.int64())})
        phase = 2
        try:
            expr = filters.to_pyarrow_compute_expression(fes)
            phase = 3
            kept = table.filter(expr).column("i").to_pylist() if expr is not None else list(range(len(rows)))
            got = (0, kept)
        except Exception:  # noqa: BLE001
            got = (phase, [])
        out.append(([(e.column, e.op.name, plain_value(e.value)) for e in fes], got))
    return out


def corr_build(ctx) -> None:
    """FilterExpression lists -> real to_pyarrow_compute_expression -> real Table.filter, vs build + filter_rows."""
    rng = ctx.rng
    n = 5000 if ctx.tier == "thorough" else 600
    exprs, impl, descs = [], [], []
    gen = []
    for _ in range(n):
        kinds = [rng.choice(KINDS), rng.choice(KINDS)]
        cols = ["c0", "c1"]
        rows = gen_rows(rng, cols, kinds, rng.choice([0, 1, 2, 4, 6]))      # 0: Table.filter on a table WITHOUT rows (binding only)
        flt = []
        for i in rng.sample([0, 1], rng.choice([1, 1, 2])):
            flt.append((cols[i], gen_model_cond(rng, kinds[i], 0.12, 0.0)))
        gen.append((kinds, rows, flt))
    status, built = pool().call("w_build", ([(k, r, sqlref.filter_py(f)) for k, r, f in gen],), 180.0)
    if status != "ok":
        front_end_failed(ctx, "to_pyarrow_compute_expression", status, built)
        return
    colnum = {"c0": 0, "c1": 1, "i": 99}
    for (kinds, rows, flt), b in zip(gen, built):
        if b is None:
            continue
        fes, got = b
        ps = []
        for column, opname, v in fes:
            arg = f"(AList {vals_to_coq(list(v))})" if isinstance(v, (list, tuple)) else f"(AVal {val_to_coq(v)})"
            ps.append(f"{{| pcol := {colnum[column]}; pop := {opname}; pval := {arg} |}}")
        mrows = "[" + "; ".join(row_coq(dict(r, i=k), colnum) for k, r in enumerate(rows)) + "]"
        kinds_coq = f"[(0, {KIND_COQ[kinds[0]]}); (1, {KIND_COQ[kinds[1]]})]"
        exprs.append(f"code_of (bind (build PA0 [{'; '.join(ps)}]) (fun ce => bind (apply_filter X0 (E0 {kinds_coq}) (B0 {kinds_coq}) ce {mrows}) (fun out => Ok (map idx out)))) []")
        impl.append(got)
        descs.append({"kinds": kinds, "rows": [{k: val_json(v) for k, v in r.items()} for r in rows], "filter": repr(sqlref.filter_py(flt))})
    model = coqbuild.coq_eval(REQ, exprs, preamble=PREAMBLE)
    bad = []
    raised = 0
    for d, g, m in zip(descs, impl, model):
        ctx.count(1, ("build", d["filter"], repr(d["rows"])))
        if g[0] != 0:
            raised += 1
        if (g[0], list(g[1])) != (m[0], list(m[1])):
            bad.append(dict(d, impl=list(g), model=[m[0], list(m[1])]))
    ctx.correspondence("build", len(descs), bad)
    ctx.stats["build"] = {"cases": len(descs), "impl_raises": raised}


# =================================================================================== correspondence: pipelines
MODEL_APIS = [
    ("scan(verify=True)", lambda t, c, f: t.scan(columns=c, filter=f, verify_checksums=True), "scan"),
    ("scan(verify=False)", lambda t, c, f: t.scan(columns=c, filter=f, verify_checksums=False), "scan_nv"),
    ("scan(parallel=2)", lambda t, c, f: t.scan(columns=c, filter=f, parallel=2), "scan"),
    ("scan_batches(1)", lambda t, c, f: [r for b in t.scan_batches(batch_size=1, columns=c, filter=f) for r in b], "b1"),
    ("scan_batches(2,verify=False)", lambda t, c, f: [r for b in t.scan_batches(batch_size=2, columns=c, filter=f, verify_checksums=False) for r in b], "b2"),
    ("iter_records", lambda t, c, f: list(t.iter_records(columns=c, filter=f)), "iter"),
]


def phase_of(flt_py: Optional[Dict[str, Any]]) -> int:
    """1 if the real front end rejects the filter while parsing, 2 while building, else 0."""
    from datashard import filters
    if not flt_py:
        return 0
    try:
        es = filters.parse_filter_dict(sqlref.realise(flt_py))
    except Exception:  # noqa: BLE001
        return 1
    try:
        filters.to_pyarrow_compute_expression(es)
    except Exception:  # noqa: BLE001
        return 2
    return 0


def w_run_pipelines(path: str, case: Dict[str, Any], requests):
    """CHILD: per (columns, filter dict): (front-end phase, [(outcome code, rows) per MODEL_APIS entry])."""
    table = make_table(path, case)
    out = []
    try:
        for columns, fpy in requests:
            with reading(case):
                ph = phase_of(fpy)
                gots = []
                for _name, fn, _mkey in MODEL_APIS:
                    try:
                        rows = fn(table, list(columns) if columns is not None else None, sqlref.realise(fpy))
                        gots.append((0, rows))
                    except KeyError:
                        gots.append((4, []))
                    except Exception:  # noqa: BLE001
                        gots.append((ph if ph else 3, []))
                out.append((ph, gots))
    finally:
        shutil.rmtree(path, ignore_errors=True)
    return out


def corr_pipelines(ctx) -> None:
    rng = ctx.rng
    ntables = 40 if ctx.tier == "quick" else 250
    nfilters = 8 if ctx.tier == "quick" else 12
    exprs, impl, descs = [], [], []
    order_equal = 0
    with_history = 0
    gen = []
    for t in range(ntables):
        # some string columns hold text longer than 128 characters sharing its prefix: the model's bounds are the exact
        # minimum / maximum (file_bounds), so an inexact stored bound shows as a pruning disagreement
        # ... and some tables are built by a HISTORY (multi-file transactions, partial deletes that rewrite manifests, mixed
        # transactions, expiry): the model scans the LIVE files of the list semantics with their exact bounds
        # (C12_history_sql), so a bound that a manifest rewrite changed shows as a pruning disagreement too
        case = gen_table_case(rng, KINDS, 0.0, 0.0, max_files=3, long_text=0.2, long_dom=MODEL_LONG_TEXT, history=0.35, max_steps=4, zero_rows=0.2)
        case = with_tz(rng, case, 1.0 if any(k in TEMPORAL_KINDS for k in case["kinds"]) else 0.25)
        if case.get("history") is not None:
            with_history += 1
        reqs = []
        for _ in range(nfilters):
            flt = []
            n = rng.choice([0, 1, 1, 2, 2, 3])
            if rng.random() < 0.05:
                flt.append(("zz", gen_model_cond(rng, "long", 0.0, 0.0)))      # a column the table does not have (B0 refuses)
            for i in rng.sample(range(len(case["cols"])), min(n, len(case["cols"]))):
                ext = file_extremes(case, case["cols"][i]) if col_dom(case, i) is MODEL_LONG_TEXT and rng.random() < 0.6 else []
                if ext:
                    v = rng.choice(neighbours(rng.choice(ext)))
                    op = rng.choice(["==", ">=", ">", "<=", "<", "!=", "in"])
                    flt.append((case["cols"][i], ("pair", ("str", op), ("list", [v]) if op == "in" else ("val", v))))
                else:
                    flt.append((case["cols"][i], gen_model_cond(rng, case["kinds"][i], 0.08, 0.06, col_dom(case, i))))
            columns = gen_columns(rng, case)
            if columns is not None and rng.random() < 0.06 and flt:
                columns = columns + ["zz"]         # unknown projected column (with a filter every API raises KeyError)
            elif rng.random() < 0.05:
                columns = []                       # empty projection: scan() loses the rows in pa.concat_tables (modelled)
            reqs.append((flt, columns))
        gen.append((case, reqs))
    jobs = [("w_run_pipelines", (os.path.join(ctx.scratch, f"p{t}"), wire(case),
                                 [(c, sqlref.filter_py(f)) for f, c in reqs]), job_timeout(case, len(reqs)))
            for t, (case, reqs) in enumerate(gen)]
    ran = pool().map(jobs)
    for (case, reqs), (status, val) in zip(gen, ran):
        if status == "skipped":
            continue
        if status != "ok":
            if status in ("timeout", "died"):
                ctx.violation(f"library-{'hang' if status == 'timeout' else 'died'}:scan",
                              f"[pipelines] the library did not finish ({status} {val}) on a table with filters "
                              f"{[sqlref.filter_py(f) for f, _c in reqs][:3]!r} ...", case_json(case, reqs[0][0] if reqs else [], reqs[0][1] if reqs else None,
                                                                                             {"verdict": "library-" + status}))
            else:
                ctx.proof_problems.append(f"pipelines case could not be run: {str(val)[-400:]}")
            continue
        cols, kinds = case["cols"], case["kinds"]
        colnum = {c: i for i, c in enumerate(cols)}
        colnum["zz"] = 50
        files_coq = "[" + "; ".join(f"{{| frows := {rows_coq(f, colnum)}; fcs := true |}}" for f in hist.live_files(case)) + "]"
        sch = "[" + "; ".join(str(colnum[c]) for c in cols) + "]"
        ids = "[" + "; ".join(f"({colnum[c]}, {i + 1})" for i, c in enumerate(cols)) + "]"
        kinds_coq = "[" + "; ".join(f"({colnum[c]}, {KIND_COQ[k]})" for c, k in zip(cols, kinds)) + "]"
        for (flt, columns), (_ph, gots) in zip(reqs, val):
            cols_coq = "None" if columns is None else "(Some [" + "; ".join(str(colnum[c]) for c in columns) + "])"
            common = f"X0 (E0 {kinds_coq}) (B0 {kinds_coq}) PA0 {sch} {ids} (fun f => file_bounds {ids} (frows f))"
            fl = filter_coq(flt, colnum)
            model_terms = {
                "scan": f"code_of (scan_table {common} true {cols_coq} {fl} {files_coq}) []",
                "scan_nv": f"code_of (scan_table {common} false {cols_coq} {fl} {files_coq}) []",
                "b1": f"code_of (bind (scan_batches {common} (chunk 1) {cols_coq} {fl} {files_coq}) (fun bs => Ok (List.concat bs))) []",
                "b2": f"code_of (bind (scan_batches {common} (chunk 2) {cols_coq} {fl} {files_coq}) (fun bs => Ok (List.concat bs))) []",
                "iter": f"code_of (iter_records {common} {cols_coq} {fl} {files_coq}) []",
            }
            for (name, _fn, mkey), got in zip(MODEL_APIS, gots):
                # the model's rows are rendered next to the implementation's so that both are parsed alike
                out_cols = columns if columns is not None else cols
                exp_rows = "[" + "; ".join("[" + "; ".join(f"({colnum[c]}, {val_to_coq(r[c])})" for c in out_cols if c in r) + "]" for r in got[1]) + "]" if got[0] == 0 else "[]"
                exprs.append(f"({model_terms[mkey]}, ({got[0]}, ({exp_rows} : list row)))")
                impl.append(got)
                descs.append({"api": name, "case": case_json(case, flt, columns)})
    got = coqbuild.coq_eval(REQ, exprs, preamble=PREAMBLE, chunk=60)
    bad = []
    errs = 0
    for d, g3 in zip(descs, got):
        m, i = (g3[0], g3[1]), g3[2]           # Coq prints ((a, b), c) as (a, b, c)
        ctx.count(1, ("pipelines", d["api"], repr(d["case"])))
        if i[0] != 0:
            errs += 1
        if m[0] != i[0]:
            bad.append(dict(d, model=repr(m)[:400], impl=repr(i)[:400], why="outcome code differs (0 rows, 1 parse, 2 build, 3 eval, 4 projection)"))
            continue
        mrows = [sorted(map(repr, r)) for r in m[1]]
        irows = [sorted(map(repr, r)) for r in i[1]]
        if mrows == irows:
            order_equal += 1
        if sorted(map(repr, mrows)) != sorted(map(repr, irows)):
            bad.append(dict(d, model=repr(m)[:400], impl=repr(i)[:400], why="row multiset differs"))
    ctx.correspondence("pipelines", len(descs), bad)
    ctx.stats["pipelines"] = {"api_runs": len(descs), "impl_error_outcomes": errs, "same_order_too": order_equal,
                              "tables_built_by_a_history": with_history}


# =================================================================================== correspondence: history
def w_history(path: str, case: Dict[str, Any]):
    """CHILD: run the history; -> (manifests of the current snapshot as stored, data files the scans will read)."""
    try:
        with procconf.timezone(write_zone(case), keep="tz" not in case):
            table, paths = hist.build(path, case)
        by_path = {p.lstrip("/"): i for i, p in paths.items()}
        # the manifests are decoded by the READING process: in its zone (the model's codec knows no zone)
        with reading(case):
            view = hist.manifest_view(table, paths)
            dfs = [(by_path.get(df.file_path.lstrip("/"), -1), sorted((df.lower_bounds or {}).items()), sorted((df.upper_bounds or {}).items()))
                   for df in table._get_all_data_files()]
        return view, dfs
    finally:
        shutil.rmtree(path, ignore_errors=True)


def history_terms(case: Dict[str, Any]) -> Tuple[str, str]:
    """(ids, txs) of a case as Model/Manifest.v terms: file i is `written ids i {| frows := rows of file i |}`, path = i."""
    cols = case["cols"]
    colnum = {c: i for i, c in enumerate(cols)}
    ids = "[" + "; ".join(f"({colnum[c]}, {i + 1})" for i, c in enumerate(cols)) + "]"
    wr = lambda i: f"written {ids} {i} {{| frows := {rows_coq(case['files'][i], colnum)}; fcs := true |}}"
    txs = "[" + "; ".join("{| tx_app := [" + "; ".join(wr(i) for i in apps) + "]; tx_del := [" + "; ".join(str(i) for i in dels) + "] |}"
                          for apps, dels in hist.transactions(case)) + "]"
    return ids, txs


def corr_history(ctx) -> None:
    """The manifest machine: real histories (Transaction.commit -> _commit_file_ops -> create_manifest_file /
    read_manifest_file) vs Model/Manifest.v `run` -- manifest by manifest, entry by entry: which file, and per bounded
    column the STORED tag and the value decoded from the stored string; then Table._get_all_data_files vs `table_files`,
    and both against the list semantics (`spec_run`, harness/lib/c12_hist.live_indexes)."""
    rng = ctx.rng
    cases = []
    for kind in KINDS:                                   # directed: every column type through both rewrite histories
        if kind == "string":
            vals = sorted(MODEL_LONG_TEXT[1:6])
        else:
            vals = sorted({c for c in (canon_cell(kind, v) for v in DOMAIN[kind]) if c == c})
        nan = [NAN] if kind in ("double", "float") else []
        files = [[{"c0": vals[j % len(vals)], "c1": j}] + ([{"c0": None, "c1": 50 + j}] if j % 2 else []) + ([{"c0": nan[0], "c1": 60 + j}] if nan and j == 1 else [])
                 for j in range(5)]
        for variant in (0, 1):
            case = {"cols": ["c0", "c1"], "kinds": [kind, "long"], "files": files, "history": hist.rewrite_history(5, variant)}
            cases.append(with_tz(rng, case) if (variant or kind in TEMPORAL_KINDS) else case)
    for _ in range(40 if ctx.tier == "quick" else 400):
        case = gen_table_case(rng, KINDS, 0.0, 0.0, long_text=0.2, long_dom=MODEL_LONG_TEXT, history=1.0, max_steps=5)
        cases.append(with_tz(rng, case, 1.0 if any(k in TEMPORAL_KINDS for k in case["kinds"]) else 0.3))
    jobs = [("w_history", (os.path.join(ctx.scratch, f"h{t}"), wire(case)), 60.0 + 2.0 * len(case["files"])) for t, case in enumerate(cases)]
    ran = pool().map(jobs)
    exprs, descs = [], []
    shapes: Dict[str, int] = {}
    side = lambda bs: "[" + "; ".join(f"({k}, {coq_string(tag)}, {val_to_coq(v)})" for k, tag, v in bs) + "]"
    plain = lambda bs: "[" + "; ".join(f"({k}, {val_to_coq(v)})" for k, v in bs) + "]"
    for case, (status, val) in zip(cases, ran):
        if status == "skipped":
            continue
        if status != "ok":
            if status in ("timeout", "died"):
                ctx.violation("library-" + ("hang" if status == "timeout" else "died") + ":history",
                              f"[history] the library did not finish ({status} {val}) building a table by the history {case['history']!r}",
                              case_json(case, [], None, {"verdict": "library-" + status}))
            else:
                ctx.proof_problems.append(f"history case could not be run: {str(val)[-400:]}")
            continue
        add_shape(shapes, case)
        view, dfs = val
        ids, txs = history_terms(case)
        impl_view = "[" + "; ".join("[" + "; ".join(f"({i}, {side(lo)}, {side(hi)})" for i, lo, hi in m) + "]" for m in view) + "]"
        impl_dfs = "[" + "; ".join(f"({i}, {plain(lo)}, {plain(hi)})" for i, lo, hi in dfs) + "]"
        tagged = "(fun kv => (fst kv, fst (snd kv), dec (snd kv)))"
        exprs.append(f"(map (map (fun e => (spath e, map {tagged} (slo e), map {tagged} (shi e)))) (run {txs} []), "
                     f"({impl_view} : list (list (Z * list (Z * string * value) * list (Z * string * value)))), "
                     f"map (fun d => (dpath d, dlo d, dhi d)) (table_files (run {txs} [])), "
                     f"({impl_dfs} : list (Z * list (Z * value) * list (Z * value))), "
                     f"map dpath (spec_run {txs} []))")
        descs.append(case)
    got = coqbuild.coq_eval(REQ_HIST, exprs, preamble=PREAMBLE, chunk=20)
    bad = []
    for case, g in zip(descs, got):
        ctx.count(1, ("history", repr(case["files"]), repr(case["history"])))
        # Coq prints ((((a, b), c), d), e) as (a, b, c, d, e)
        m_view, i_view, m_dfs, i_dfs, spec = g
        d = {"case": case_json(case, [], None)}
        if m_view != i_view:
            k = next((j for j, (a, b) in enumerate(zip(m_view, i_view)) if a != b), min(len(m_view), len(i_view)))
            bad.append(dict(d, why="manifests of the current snapshot differ (file, [(field id, stored tag, decoded bound)] lower, upper)",
                            first_differing_manifest=k, model=repr(m_view[k:k + 1])[:600], impl=repr(i_view[k:k + 1])[:600]))
        elif m_dfs != i_dfs:
            bad.append(dict(d, why="the data files a scan reads (with decoded bounds) differ", model=repr(m_dfs)[:600], impl=repr(i_dfs)[:600]))
        elif [int(x) for x in spec] != hist.live_indexes(case) or [int(x[0]) for x in m_dfs] != hist.live_indexes(case):
            bad.append(dict(d, why="live files differ from the list semantics", model=repr(spec), harness=hist.live_indexes(case)))
    ctx.correspondence("history", len(descs), bad)
    ctx.stats["history"] = dict(shapes, cases=len(descs))


# =================================================================================== driver
def run(ctx) -> None:
    ctx.rule = ("oracle: random tables (1-3 columns over 9 column types plus binary / fixed columns without stored bounds, 0-4 files appended one by one "
                "OR built by a random history of multi-file / deleting / mixed / expiring / aborted transactions, collections and reloads; NULL / NaN / inf / single-valued files) x random filters "
                "(all operator spellings in random case, between, in/not_in with empty / NULL-containing / cross-kind sets, is_null aliases, "
                "conjunctions, 8% malformed) x projections x 12 API variants, judged by an independent SQL evaluator; a case is distinct by "
                "its (files, history, filter, projection); directed: per column type a table whose manifests were rewritten (twice), "
                "literals at the live files' extremes; correspondence: pyarrow primitives on exhaustive small domains, parser on "
                "enumerated + random conditions, builder and pipelines on random tables, manifest machine on random and directed histories")
    ctx.trusted_base += [
        "translator/gen_filter.py (Python ast -> Gallina for _build_condition handlers, the &-fold, the operator/alias tables; rest of "
        "parse_filter_dict / _parse_op / to_pyarrow_compute_expression pinned by golden AST)",
        "pyarrow primitive semantics as written in Model/Filter.v eval3 / select / select_lenient (validated by the 'prims', 'build' and "
        "'pipelines' correspondences against the installed pyarrow)",
        "oracles X, E, B, PA are universally quantified in every theorem (nothing assumed about lossy is_in casts, refused literals)",
        "translator/gen_manifest.py (bound expressions of create_manifest_file / read_manifest_file, survivor test and keep / rewrite / "
        "drop decision of _commit_file_ops; loop / call structure around them checked, fail-closed), translator/gen_bound.py",
        "harness: harness/props/c12.py, harness/lib/c12_hist.py (histories and their list semantics), harness/lib/sqlref.py (independent SQL evaluator), harness/lib/coqbuild.py",
    ]
    ctx.assumptions += [
        "pyarrow refuses an expression either when binding it to the table's schema (oracle B: independent of the rows, also on a table without rows) "
        "or on a row (oracle E); all files of a table share the schema, so B does not depend on the file",
        "scan(parallel=N) is executor.map over the same per-file read (order preserving); covered by the oracle and the pipelines correspondence, not by a separate model definition",
        "all files of a table share the parquet schema `sch` (C11); projections are judged against it",
        "date vs timestamp comparisons (pyarrow casts, Python refuses) and inexact literals on float32 columns are outside the model; the oracle demands cross-API agreement there",
        "NaN membership (NaN in [NaN]) is judged by cross-API agreement only (DESIGN.md C12 Interpretation)",
        "histories: the generated histories give every data file its own path (uuid names; C12_history_files / C12_history_sql do not need it: dedup form); paths are compared after stripping "
        "leading '/' on both sides (pinned by the translator; the oracle deletes by both spellings); the JSON text and the Avro map between "
        "_encode_bound and _decode_bound carry (tag, payload) exactly (Model/Bound.v; checked per entry by the 'history' correspondence)",
        "the content of a table after a history is DEFINED by the list semantics (a committed transaction removes the files it deletes and "
        "adds the files it appends); a file appended and deleted by the same transaction is not generated",
    ]
    import time
    timings: Dict[str, float] = {}

    def timed(name, fn):
        t0 = time.time()
        try:
            fn(ctx)
        finally:
            timings[name] = round(time.time() - t0, 1)
            ctx.stats["phase_wall_s"] = timings

    timed("proofs", lambda c: (c.proofs(THEOREMS, gen_files=GEN_FILES), c.allow_axioms([])))
    # implementation-only oracles always run: they are the search for a concrete failing input
    for name, fn in (("corpus", oracle_corpus), ("malformed", oracle_malformed), ("edges", oracle_edges), ("extremes", oracle_extremes),
                     ("textbounds", oracle_textbounds), ("rewrites", oracle_rewrites), ("e2e", oracle_e2e)):
        timed("oracle_" + name, fn)
    try:
        for name, fn in (("prims", corr_prims), ("parse", corr_parse), ("build", corr_build), ("history", corr_history),
                         ("pipelines", corr_pipelines)):
            timed("corr_" + name, fn)
    except RuntimeError as e:
        ctx.proof_problems.append("model evaluation failed: " + str(e)[:600])


def replay(ctx, payload) -> int:
    d = payload.get("case", {})
    if "filter" not in d or "files" not in d:
        print("replay: payload kind not replayable directly (no concrete table/filter); re-run ./bin/check C12 thorough")
        return 2
    case, flt, columns = case_unjson(d)
    verdict, results = evaluate_case(ctx, case, flt, columns)
    if case.get("history") is not None:
        print("replay: table built by the history", case["history"], "-> live files", hist.live_indexes(case), "of", len(case["files"]))
    print("replay: filter", repr(sqlref.filter_py(flt)), "columns", columns)
    for k, v in results.items():
        print("   ", k, "->", v[1] if v[0] == "raises" else list(v[1]))
    print("replay:", ("STILL FAILS " + verdict[0] + ": " + verdict[1]) if verdict else "passes now")
    return 1 if verdict else 0
