"""C03 -- A crash at any point leaves the table in the pre- or post-operation state.

Proof      : coq/Props/C03.v over Model/Commit.v + Model/Fault.v with ECrash events (the process dies: no
             handler runs, the kernel drops an exclusive flock): after ANY event list containing crashes the
             table is the serial application of the pointer flips (a crashed operation is reflected iff its flip
             happened), every file referenced by a committed version is present, the commit invariant holds and a
             fresh committer can always run to success (C03_writable).
Tie/oracle : fork-and-kill (harness/lib/crash.py): each operation runs in a forked child that dies by os._exit at
             crash point k, for EVERY k (storage-level calls and the OS-level sub-steps of the atomic writes:
             mkstemp, write, fsync, close, replace, directory fsync, unlink; lock take/release); the parent reopens
             as a fresh process: state is pre or post (post only if the pointer content changed), every retained
             snapshot fully readable, a follow-up append succeeds, and a grace-0 collection leaves every retained
             snapshot readable.  The model's prediction "reflected iff the pointer flip was reached" is compared
             with the observed state for every k (the flip step is identified in the child's step trace).
"""
from __future__ import annotations

import os
import shutil
from typing import Any, Callable, Dict, List, Optional, Tuple

from harness.lib import crash, protocol as P

LEVEL = "proof"
THEOREMS = ["C03_crash_atomic", "C03_readable", "C03_writable", "C03_lock_released", "C03_pointer_spelling_invisible"]
MANIFEST_ENTRY = {
    "level_text": "Crash atomicity proved in Coq over the commit machine with crash events at every step of any number of "
                  "concurrent operations: pointer-named table = serial application of flips (pre/post, post iff flipped), "
                  "referenced files present, invariant preserved, a fresh committer can run to success after any crash; "
                  "tied to the code by fork-and-kill at EVERY storage-level / OS-level step of create, append, delete_files, "
                  "expire, delete_snapshot, garbage_collect and of transactions COMBINING kinds (append+expire, delete+append, "
                  "delete+append+expire, two appends: one operation, one pointer advance) on tables with 0..3 prior snapshots, each followed by reopen, "
                  "full read of every retained snapshot, follow-up append and grace-0 collection; the pre-state's pointer is taken in "
                  "every accepted spelling (file name + newline / CR LF / blanks), which the regenerated parser provably cannot "
                  "tell apart (C03_pointer_spelling_invisible: parse and resolution depend on the stripped content only)",
    "level_note": "scope of the THEOREMS: commit-protocol crashes (append, delete_files, expire, delete_snapshot and combined "
                  "transactions are all one commit of the machine); 'reopen' in Coq is the table the pointer names (pointer intact: "
                  "recovery after pointer loss is C10); crashes of table CREATION, of a COLLECTION, at the OS-level sub-steps of one "
                  "atomic write, and 'a later collection removes only leftovers' are decided by the fork-and-kill harness (every step k, "
                  "then reopen / full read / follow-up append / grace-0 collection / aged-marker collection), not by a Coq statement; "
                  "trusted: Coq kernel; fork/os._exit as the crash (page cache survives: power loss is C16); kernel drops flocks "
                  "of a dead process; the model's steps are the protocol steps, the sub-steps of one atomic write are covered by "
                  "the kill harness and by C16's publish theorem",
    "technique": "Coq invariant proof with crash events + exhaustive fork-and-kill differential check",
    "design_ref": "DESIGN.md section 5 C03",
}

SCHEMA_FIELDS = [{"id": 1, "name": "x", "type": "long", "required": False}]


# table configurations (properties the commit path consults) as a dimension of the pre-state: name -> properties
TABLE_CONFS = {
    "": {},
    "retention": {"datashard.snapshot.retention-count": "{n}"},                 # the table is AT its retention bound: the next commit prunes
    "short-log": {"write.metadata.previous-versions-max": "1"},                 # the smallest legal metadata-log bound
    "retention+short-log": {"datashard.snapshot.retention-count": "{n}", "write.metadata.previous-versions-max": "2"},
}


def make_template(scratch: str, nsnap: int, conf: str = "") -> str:
    import datashard
    from datashard.data_structures import Schema
    path = os.path.join(scratch, f"c03-template-{nsnap}" + (f"-{conf}" if conf else ""))
    if not os.path.exists(path):
        t = datashard.create_table(path, Schema(schema_id=1, fields=SCHEMA_FIELDS))
        if conf:
            # (there is no setter API: the library's own tests set properties through MetadataManager.commit as well)
            new = t.metadata_manager.refresh()
            for k, v in TABLE_CONFS[conf].items():
                new.properties[k] = v.format(n=max(1, nsnap))
            t.metadata_manager.commit(t.metadata_manager.refresh(), new)
        for i in range(nsnap):
            t.append_records([{"x": -(i + 1)}])
    return path


# equivalent spellings of a pointer's content: what echo / an editor / a restore script leaves; _parse_hint_content strips it
PTR_SPELLINGS = {"": "%s", "nl": "%s\n", "crlf": "%s\r\n", "pad": " %s \n"}


def respell_pointer(root: str, spelling: str) -> None:
    if not spelling:
        return
    p = os.path.join(root, P.HINT)
    name = open(p, "rb").read().decode("utf-8").strip()
    with open(p, "wb") as f:
        f.write((PTR_SPELLINGS[spelling] % name).encode("utf-8"))


def op_fn(kind: str, root: str, pre: Optional[Dict[str, Any]]) -> Callable[[], Any]:
    def fn() -> Any:
        import datashard
        from datashard.data_structures import Schema
        if kind == "create":
            datashard.create_table(root, Schema(schema_id=1, fields=SCHEMA_FIELDS))
            return
        t = datashard.load_table(root)
        if kind == "append":
            t.append_records([{"x": 100}])
        elif kind == "delete_files":
            with t.new_transaction() as tx:
                tx.delete_files([pre["snapshots"][pre["current"]]["files"][0]])
                tx.commit()
        elif kind == "expire":
            with t.new_transaction() as tx:
                tx.expire_snapshots(2**62)
                tx.commit()
        elif kind == "delete_snapshot":
            t.snapshot_manager.delete_snapshot(pre["log_order"][0])
        # ONE transaction combining several kinds of operation is ONE operation: it must take effect as a whole
        # (a crash may show the pre-state or the post-state, never "the append without the expiry")
        elif kind == "append+expire":
            with t.new_transaction() as tx:
                tx.append_data([{"x": 100}])
                tx.expire_snapshots(2**62)
                tx.commit()
        elif kind == "delete+append":
            with t.new_transaction() as tx:
                tx.delete_files([pre["snapshots"][pre["current"]]["files"][0]])
                tx.append_data([{"x": 100}])
                tx.commit()
        elif kind == "delete+append+expire":
            with t.new_transaction() as tx:
                tx.delete_files([pre["snapshots"][pre["current"]]["files"][0]])
                tx.append_data([{"x": 100}])
                tx.expire_snapshots(2**62)
                tx.commit()
        elif kind == "append+append":
            with t.new_transaction() as tx:
                tx.append_data([{"x": 100}])
                tx.append_data([{"x": 101}])
                tx.commit()
        elif kind == "collect":
            t.garbage_collect(grace_period_ms=0)
        else:
            raise ValueError(kind)
    return fn


_OLD_IDS: set = set()


def sig(state: Optional[Dict[str, Any]]) -> Any:
    """Structural signature: snapshot ids that did not exist before the operation are random -> 'new'."""
    if state is None:
        return None
    ren = lambda i: i if i in _OLD_IDS or i in (None, -1) else "new"
    return (tuple(ren(i) for i in state["snapshot_order"]), ren(state["current"]), tuple(sorted(r["x"] for r in state["rows"])))


def read_state(root: str) -> Optional[Dict[str, Any]]:
    if not os.path.exists(os.path.join(root, P.HINT)):
        return None
    return P.read_table_independent(root)


def judge(kind: str, root: str, pre, post_sig, pre_ptr: Optional[bytes]) -> Tuple[Optional[str], bool]:
    """Oracle on the reopened table. Returns (violation text or None, reflected?)."""
    import datashard
    ptr_path = os.path.join(root, P.HINT)
    ptr = open(ptr_path, "rb").read() if os.path.exists(ptr_path) else None
    try:
        state = read_state(root)
    except Exception as e:
        return f"reopened table unreadable by the independent reader: {e!r}"[:300], False
    if state is not None and state["missing"]:
        return f"files referenced by retained snapshots are missing after the crash: {state['missing'][:3]}", False
    s = sig(state)
    pre_sig = sig(pre)
    reflected = s != pre_sig
    if s not in (pre_sig, post_sig):
        return f"state after crash is neither pre nor post: {s} (pre {pre_sig}, post {post_sig})", reflected
    if reflected and ptr == pre_ptr:
        return "post-state observed although the version pointer was never advanced", reflected
    # the library must open it (or, for create, see no table / the new table) and accept a commit
    try:
        if state is None:
            # table creation crashed before the pointer was written: the library may see "no table" or recover; either way
            # a retried create must succeed and yield a usable empty table
            t = datashard.create_table(root, __import__("datashard").data_structures.Schema(schema_id=1, fields=SCHEMA_FIELDS))
            base_rows: List[int] = []
        else:
            t = datashard.load_table(root)
            base_rows = sorted(r["x"] for r in state["rows"])
        t.append_records([{"x": 999}])
        got = sorted(r["x"] for r in t.scan())
    except Exception as e:
        return f"reopened table does not accept a new commit: {type(e).__name__}: {e}"[:300], reflected
    if state is None and kind == "create":
        # F-C03 candidate: did the reopen adopt a never-pointed v0 (identity of the dead creator)?
        pass
    if got != sorted(base_rows + [999]):
        return f"after follow-up append scan returned {got}, expected {sorted(base_rows + [999])}", reflected
    try:
        t.garbage_collect(grace_period_ms=0)
        after = P.read_table_independent(root)
    except Exception as e:
        return f"collection / re-read after the crash failed: {type(e).__name__}: {e}"[:300], reflected
    if after["missing"]:
        return f"grace-0 collection after the crash deleted referenced files: {after['missing'][:3]}", reflected
    if sorted(r["x"] for r in after["rows"]) != got:
        return "rows changed by the collection after the crash", reflected
    # ... and much later: whatever in-flight markers the dead writer left behind are past the abandonment window (24 h)
    # now; a collection sweeps them -- the files they name are committed (post-state) or orphans (pre-state), and the
    # table must come out unchanged either way
    infl = os.path.join(root, "metadata", "inflight")
    leftover = sorted(os.listdir(infl)) if os.path.isdir(infl) else []
    if leftover:
        import time as _t
        old = _t.time() - 25 * 3600
        for f in leftover:
            os.utime(os.path.join(infl, f), (old, old))
        try:
            datashard.load_table(root).garbage_collect(grace_period_ms=0)
            later = P.read_table_independent(root)
        except Exception as e:
            return f"collection after the leftover markers aged past the abandonment window failed: {type(e).__name__}: {e}"[:300], reflected
        if later["missing"]:
            return (f"collection after the dead writer's markers {leftover[:2]} aged past the abandonment window deleted referenced files: "
                    f"{later['missing'][:3]}"), reflected
        if sorted(r["x"] for r in later["rows"]) != got:
            return "rows changed by the collection that swept the dead writer's abandoned markers", reflected
    return None, reflected


def create_adoption_check(root: str, trace: List[Dict[str, Any]]) -> Optional[str]:
    """Known-finding probe: after a crash between the v0 metadata write and the pointer write, does a reopen
    (load_table) surface the never-pointed v0?"""
    import datashard
    if os.path.exists(os.path.join(root, P.HINT)):
        return None
    md = os.path.join(root, "metadata")
    v0 = [f for f in os.listdir(md)] if os.path.isdir(md) else []
    v0 = [f for f in v0 if f.startswith("v0") and f.endswith(".metadata.json")]
    if not v0:
        return None
    try:
        datashard.load_table(root)
    except ValueError:
        return None
    return f"pointer never written, yet load_table() opens the table from the orphan {v0[0]} (post-state without the pointer having advanced)"


def run(ctx) -> None:
    ctx.rule = ("fork-and-kill at every crash point k (storage-level calls + OS-level sub-steps of atomic writes + lock take/release) "
                "of each operation x tables with 0..3 prior snapshots; distinct = (operation, prior snapshots, k)")
    ctx.trusted_base += ["harness/lib/crash.py (fork + os._exit at a counted step; parent acts as the fresh process)"]
    ctx.assumptions += ["process death only (page cache intact); power loss is C16",
                        "pointer intact before the operation, in any spelling the resolution accepts (Model/Hint.v parse_hint strips "
                        "whitespace): as the library writes it, or the same file name followed / surrounded by whitespace"]
    # GenHint.v: what a reopen resolves the pointer's content to is part of what "reopening shows" means
    ctx.proofs(THEOREMS, gen_files=["GenCommit.v", "GenHint.v"])
    ctx.allow_axioms([])
    quick = ctx.tier == "quick"
    plan = [("append", 2, ""), ("delete_snapshot", 2, ""), ("create", 0, ""), ("expire", 3, ""), ("delete_files", 2, ""), ("append+expire", 3, ""),
            ("delete+append+expire", 2, ""), ("append", 1, "nl"), ("delete_snapshot", 2, "pad"),
            ("append", 2, "conf:retention"), ("delete+append", 2, "conf:retention+short-log")] if quick else \
        [("create", 0, ""), ("append", 0, ""), ("append", 1, ""), ("append", 3, ""), ("delete_files", 2, ""), ("expire", 3, ""), ("delete_snapshot", 2, ""),
         ("delete_snapshot", 3, ""), ("collect", 2, ""),
         ("append+expire", 3, ""), ("delete+append", 2, ""), ("delete+append+expire", 3, ""), ("append+append", 1, ""),
         ("append", 2, "nl"), ("append", 1, "pad"), ("delete_files", 2, "crlf"), ("expire", 3, "nl"), ("delete_snapshot", 2, "pad"), ("collect", 2, "nl"),
         ("delete+append+expire", 3, "crlf"),
         ("append", 2, "conf:retention"), ("append", 3, "conf:short-log"), ("delete_files", 2, "conf:retention"), ("delete+append", 2, "conf:retention+short-log"),
         ("append+expire", 3, "conf:retention"), ("delete_snapshot", 3, "conf:short-log"), ("collect", 2, "conf:retention")]
    bad = []
    total = 0
    for kind, nsnap, ptr_spelling in plan:
        tconf = ""
        if ptr_spelling.startswith("conf:"):
            tconf, ptr_spelling = ptr_spelling[5:], ""
        template = make_template(ctx.scratch, nsnap, tconf) if kind != "create" else None
        root = os.path.join(ctx.scratch, "c03-run")

        def fresh() -> None:
            shutil.rmtree(root, ignore_errors=True)
            if template:
                shutil.copytree(template, root)
                respell_pointer(root, ptr_spelling)
        # reference: completed run
        fresh()
        pre = read_state(root) if template else None
        _OLD_IDS.clear()
        _OLD_IDS.update(pre["snapshot_order"] if pre else [])
        pre_ptr = open(os.path.join(root, P.HINT), "rb").read() if template else None
        st, full = crash.run_child(10**9, op_fn(kind, root, pre), os.path.join(ctx.scratch, "trace.jsonl"))
        if st != "completed":
            ctx.proof_problems.append(f"reference run of {kind} did not complete: {st}")
            continue
        post_sig = sig(read_state(root))
        nsteps = len(full)
        ctx.stats.setdefault("crash_points", {})[f"{kind}/{nsnap}" + (f"/pointer:{ptr_spelling}" if ptr_spelling else "") + (f"/table:{tconf}" if tconf else "")] = nsteps
        flip_idx = next((e["i"] for e in full if e.get("step", "").startswith("os.replace:sb:metadata.version-hint")), None)
        ks = list(range(nsteps))
        if quick and len(ks) > 70:
            tail = ks[-55:]
            ks = sorted(set(ctx.rng.sample(ks[:-55], 15) + tail))
        if quick and (ptr_spelling or tconf):
            ks = ks[-30:]          # the commit-protocol end of the operation: where an unpublished version file can be left behind
        for k in ks:
            fresh()
            st, trace = crash.run_child(k, op_fn(kind, root, pre), os.path.join(ctx.scratch, "trace.jsonl"))
            total += 1
            ctx.count(1, (kind, nsnap, k, ptr_spelling))
            if st != "crashed":
                bad.append({"op": kind, "snapshots": nsnap, "k": k, "pointer": ptr_spelling, "child_status": st})
                continue
            before = trace[-1].get("before", "?") if trace else "?"
            if kind == "create":
                adopt = create_adoption_check(root, trace)
                if adopt:
                    ctx.violation("create-crash-adopts-unpointed-v0", adopt + f" [crash before step {k}: {before}]",
                                  {"op": kind, "snapshots": nsnap, "k": k, "before": before, "pointer": ptr_spelling, "table_conf": tconf})
            why, reflected = judge(kind, root, pre, post_sig, pre_ptr)
            if why:
                ctx.violation(f"crash:{kind}:{before.split(':')[0]}" + (f":pointer-{ptr_spelling}" if ptr_spelling else "") + (f":table-{tconf}" if tconf else ""),
                              f"{why} [crash before step {k}: {before}]" + (f" [pointer content before the operation: file name {PTR_SPELLINGS[ptr_spelling]!r}]" if ptr_spelling else ""),
                              {"op": kind, "snapshots": nsnap, "k": k, "before": before, "pointer": ptr_spelling, "table_conf": tconf})
            # model prediction (Props/C03.v C03_crash_atomic): reflected iff the flip step was reached before the crash
            if flip_idx is not None and kind != "collect":
                predicted = k > flip_idx
                if predicted != reflected and not why:
                    bad.append({"op": kind, "snapshots": nsnap, "k": k, "pointer": ptr_spelling, "before": before, "model_reflected": predicted, "impl_reflected": reflected})
        shutil.rmtree(root, ignore_errors=True)
    ctx.stats["crash_runs"] = total
    ctx.sample({"op": plan[0][0], "prior_snapshots": plan[0][1], "crash_points": ctx.stats["crash_points"]})
    ctx.stats["pointer_spellings_and_table_configurations"] = {k or "as-written": sum(1 for p in plan if p[2] == k) for k in sorted({p[2] for p in plan})}
    ctx.correspondence("crash-points", total, bad)


def replay(ctx, payload) -> int:
    c = payload.get("case", {})
    if "k" not in c:
        print("replay: no concrete case")
        return 2
    kind, nsnap, k = c["op"], c["snapshots"], c["k"]
    template = make_template(ctx.scratch, nsnap, c.get("table_conf", "")) if kind != "create" else None
    root = os.path.join(ctx.scratch, "c03-replay")
    if template:
        shutil.copytree(template, root)
        respell_pointer(root, c.get("pointer", ""))
    pre = read_state(root) if template else None
    _OLD_IDS.clear()
    _OLD_IDS.update(pre["snapshot_order"] if pre else [])
    pre_ptr = open(os.path.join(root, P.HINT), "rb").read() if template else None
    ref = os.path.join(ctx.scratch, "c03-ref")
    if template:
        shutil.copytree(template, ref)
        respell_pointer(ref, c.get("pointer", ""))
    crash.run_child(10**9, op_fn(kind, ref, pre), os.path.join(ctx.scratch, "t.jsonl"))
    post_sig = sig(read_state(ref))
    crash.run_child(k, op_fn(kind, root, pre), os.path.join(ctx.scratch, "t.jsonl"))
    # (as in run(): the adoption probe comes BEFORE the judge, whose follow-up create / append writes a pointer)
    adopt = create_adoption_check(root, []) if kind == "create" else None
    why, _ = judge(kind, root, pre, post_sig, pre_ptr)
    why = adopt or why
    print("replay:", "STILL FAILS: " + why if why else "passes now")
    return 1 if why else 0
