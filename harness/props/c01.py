"""C01 -- Concurrent commits are serializable: no acknowledged write lost or duplicated.

Proof      : coq/Props/C01.v over Model/Commit.v (interleaving machine of the OCC commit protocol, any number
             of committers, any clock): linear chain, each acknowledged commit reflected exactly once in
             pointer order, raised commits not reflected.
Tie        : trace validation.  Real Table / MetadataManager / FileLock code runs in real threads under
             harness/lib/sched.py (deterministic scheduler, protocol-level yield points, virtual clock); the
             observed storage log is projected onto the model's event alphabet and `Commit.run_strict`
             must accept it event by event (each event carries what the code read / decided); final pointer,
             flip order and outcomes must agree.  A storage call the projection does not know is a failure.
Oracle     : implementation-only serializability oracle: the final table (independent reader) must equal
             the serial replay, in pointer-flip order, of exactly the commits that reported success.
"""
from __future__ import annotations

import itertools
from typing import Any, Dict, List, Optional, Tuple

from harness.lib import coqbuild, protocol as P, sched as S

LEVEL = "proof"
THEOREMS = ["C01_serializable", "C01_acked_exactly_once", "C01_raised_not_reflected", "C01_chain_linear",
            "C01_skeleton_regenerated", "C01_conflict_retried"]
REQ = ["DS.Model.Commit"]
MANIFEST_ENTRY = {
    "level_text": "Serializability of the OCC commit protocol proved in Coq (C01_serializable and companions) by an inductive "
                  "invariant over every schedule of any number of committers with any clock readings, for exclusive-lock and CAS "
                  "storage; the model is tied to the code by trace validation: real commits run under a deterministic scheduler "
                  "at storage-operation granularity and every observed protocol event must be accepted by the model's strict "
                  "run; the validation kernel, the stamp rule, the action skeleton of MetadataManager.commit and the retry / handler "
                  "tables are regenerated from the source by translator/gen_commit.py (Gen/GenCommit.v) and the proofs re-run "
                  "against them (C01_skeleton_regenerated); an implementation-only serializability oracle judges every explored schedule",
    "level_note": "trusted: Coq kernel; translator/gen_commit.py; projection of the storage log onto model events (harness/lib/protocol.py); flock "
                  "exclusivity (kernel; C19); metadata files are write-once so pointer read + file read are one step; table "
                  "content abstracted to the list of applied operations (their meaning is C15)",
    "technique": "Coq invariant proof over an interleaving machine with translator-regenerated decision kernels and skeleton + trace validation of real executions",
    "design_ref": "DESIGN.md section 5 C01",
}

OPSETS = [
    [{"kind": "append", "rows": [{"x": 100}]}, {"kind": "append", "rows": [{"x": 200}]}],
    [{"kind": "append", "rows": [{"x": 100}]}, {"kind": "delete_snapshot", "which": "old"}],
    [{"kind": "delete_snapshot", "which": "current"}, {"kind": "append", "rows": [{"x": 200}]}],
    [{"kind": "expire", "cutoff": "mid"}, {"kind": "append", "rows": [{"x": 200}]}],
    [{"kind": "delete_snapshot", "which": "old"}, {"kind": "expire", "cutoff": "mid"}],
    [{"kind": "append", "rows": [{"x": 100}], "style": "explicit"}, {"kind": "delete_snapshot", "which": "current"}],
]
OPSETS3 = [
    [{"kind": "append", "rows": [{"x": 100}]}, {"kind": "append", "rows": [{"x": 200}]}, {"kind": "delete_snapshot", "which": "old"}],
    [{"kind": "append", "rows": [{"x": 100}]}, {"kind": "expire", "cutoff": "mid"}, {"kind": "delete_snapshot", "which": "current"}],
    [{"kind": "append", "rows": [{"x": 1}]}, {"kind": "append", "rows": [{"x": 2}]}, {"kind": "append", "rows": [{"x": 3}]},
     {"kind": "delete_snapshot", "which": "old"}],
]


def dev_chooser(dev: Dict[int, str]):
    """Default: keep running the last actor while enabled, else the first enabled; deviations force a switch."""
    def factory(_sc: S.Scheduler):
        state = {"i": 0, "last": None}

        def choose(enabled: List[str], _s: S.Scheduler) -> Optional[str]:
            i = state["i"]
            state["i"] += 1
            if i in dev and dev[i] in enabled:
                state["last"] = dev[i]
            elif state["last"] not in enabled:
                state["last"] = enabled[0]
            return state["last"]
        return choose
    return factory


STOPS = {
    "release": lambda op, path: op == "LockRel",
    "flock": lambda op, path: op == "LockFlock",
    "flip": lambda op, path: op in ("write_file", "write_file_cas") and P.path_class(path) == "hint",
    "metaw": lambda op, path: op == "write_file" and P.path_class(path) == "meta",
    "end": lambda op, path: False,
}


def script_chooser(script: List[Tuple[str, str]]):
    """script = [(actor, stop)]: run `actor` while it is enabled and not parked before an operation matching STOPS[stop]
    ("step:<n>" = exactly n steps); when the script is used up, first enabled."""
    def factory(_sc: S.Scheduler):
        st = {"k": 0, "n": 0}

        def choose(enabled: List[str], s: S.Scheduler) -> Optional[str]:
            while st["k"] < len(script):
                a, stop = script[st["k"]]
                if a in enabled:
                    if stop.startswith("step:"):
                        if st["n"] < int(stop[5:]):
                            st["n"] += 1
                            return a
                    else:
                        op, path = s.actors[a].pending or ("", "")
                        if not STOPS[stop](op, path):
                            return a
                st["k"] += 1
                st["n"] = 0
            return enabled[0] if enabled else None
        return choose
    return factory


def lock_handoff_scripts(n: int) -> List[List[Tuple[str, str]]]:
    """Three committers and the file lock at open / flock granularity: X holds the lock and is about to release it, Y has
    OPENED the lock file and is about to flock, X releases, Z acquires and goes on to its pointer flip, Y's flock is
    decided only now -- then both finish.  (flock locks the inode Y opened; what happened to the path meanwhile matters.)"""
    out = []
    names = [f"A{i}" for i in range(n)]
    for x in names:
        for y in names:
            for z in names:
                if len({x, y, z}) == 3:
                    for zstop in ("flip", "metaw"):
                        out.append([(x, "release"), (y, "flock"), (x, "step:1"), (z, zstop), (y, "flip"), (z, "end"), (y, "end"), (x, "end")])
    return out


def explore(ctx, case: Dict[str, Any], max_preempt: int, limit: int):
    """Bounded-preemption enumeration by re-execution (runs are deterministic)."""
    from collections import deque
    queue = deque([()])          # breadth-first: all schedules with k preemptions before any with k+1
    seen = set()
    n = 0
    while queue and n < limit:
        dev = queue.popleft()
        inj = {f"A{i}": mk() for i, mk in (case.get("injectors") or {}).items()}
        res = P.run_case(ctx.scratch, _fix_case(case), dev_chooser(dict(dev)), tag="c01", inject=inj or None)
        key = tuple(res.schedule)
        if key in seen:
            continue
        seen.add(key)
        n += 1
        yield dev, res
        if len(dev) < max_preempt:
            start = (dev[-1][0] + 1) if dev else 0
            for i in range(start, len(res.schedule)):
                for b in res.enabled_at[i]:
                    if b != res.schedule[i]:
                        queue.append(dev + ((i, b),))


def _fix_case(case: Dict[str, Any]) -> Dict[str, Any]:
    c = dict(case)
    ops = []
    for op in case["ops"]:
        op = dict(op)
        if op["kind"] == "expire" and op["cutoff"] == "mid":
            # between the two initial snapshots' timestamps (virtual clock: start+10, start+20)
            op["cutoff"] = 1_700_000_000_000 + 15
        ops.append(op)
    c["ops"] = ops
    return c


def kind_of(op: Dict[str, Any], init_cur_model: int = 1) -> Tuple[str, int]:
    """Gallina curk for the operation and its retry budget."""
    k = op["kind"]
    if k in ("append", "delete_files"):
        return "KFresh", 50
    if k == "expire":
        return "KKeep", 50
    if k == "delete_snapshot":
        if op.get("which") == "current":
            return f"(KCond {init_cur_model} 0)", 1
        return "KKeep", 1
    raise ValueError(k)


def model_expr(case: Dict[str, Any], res: P.CaseResult, events: List[Tuple[int, str]]) -> str:
    n = len(case["ops"])
    kinds = " ".join(f"| {i}%nat => {kind_of(op)[0]}" for i, op in enumerate(case["ops"]))
    maxrs = " ".join(f"| {i}%nat => {kind_of(op)[1]}%nat" for i, op in enumerate(case["ops"]))
    lu0 = res.initial["meta"]["last_updated_ms"]
    cfgs = "{| cas := %s; lockkind := %s |}" % ("true" if case.get("backend") == "s3cas" else "false",
                                               "GrantAll" if case.get("lock") == "grant_all" else
                                               ("Lease" if case.get("backend") == "s3cas" else "Excl"))
    evs = "[" + "; ".join(f"{{| e_actor := {ai}%nat; e_kind := {_nat_args(k)} |}}" for ai, k in events) + "]"
    return (f"match run_strict {cfgs} (init_world {{| m_ops := []; m_cur := 1; m_lu := {lu0} |}} "
            f"(fun a => match a with {kinds} | _ => KKeep end) (fun a => match a with {maxrs} | _ => 1%nat end)) {evs} 0%nat with "
            f"| inl w => (1, summary w {n}%nat) | inr i => (0, (i, [], [], [])) end")


def _nat_args(k: str) -> str:
    parts = k.split()
    if parts[0] in ("EBegin", "EValidate"):
        parts[1] = parts[1] + "%nat"
    return " ".join(parts)


# ---------------------------------------------------------------------------------------------------- oracle
def serial_oracle(case: Dict[str, Any], res: P.CaseResult, flips: Optional[List[str]] = None) -> Optional[str]:
    """Final table == serial replay, in flip order, of exactly the commits that reported success.
    `flips` (optional): the committers whose pointer write the STORE applied, in order, established by the caller (runs with
    lost responses / requests landing late, where a commit may be in the table without having been acknowledged); the caller
    then judges acknowledgement itself and this function only replays."""
    if res.deadlock:
        return f"deadlock: {res.deadlock}"
    if "error" in res.final:
        return f"final table unreadable: {res.final['error']}"
    ops = _fix_case(case)["ops"]
    init = res.initial
    # flip order as observed: successful pointer writes during actor runs
    given = flips is not None
    if flips is None:
        flips = [e["actor"] for e in res.log if e["op"] in ("write_file", "write_file_cas") and P.path_class(e["path"]) == "hint" and e["result"] == "ok"
                 and e["actor"].startswith("A")]
    acked = [a for a, (st, _d) in res.outcomes.items() if st == "ok" and a.startswith("A")]
    noop = [a for a, (st, d) in res.outcomes.items() if st == "ok" and d == "noop" and a.startswith("A")]
    if not given and sorted(flips) != sorted(a for a in acked if a not in noop):
        return f"acknowledged commits {sorted(acked)} != pointer flips {flips} (a success without a flip, a flip without success, or a double flip)"
    # reference replay over (snapshot list, current, rows per snapshot)
    snaps = [(sid, set(init["snapshots"][sid]["files"]), init["snapshots"][sid]["ts"]) for sid in init["snapshot_order"]]
    log = list(init["log_order"])
    cur = init["current"]
    rows_of_file: Dict[str, List[int]] = {}
    new_rows_by_actor: Dict[str, List[int]] = {}
    for a in flips:
        op = ops[int(a[1:])]
        cur_files = next((f for sid, f, _t in snaps if sid == cur), set())
        if op["kind"] == "append":
            new_rows_by_actor[a] = [r["x"] for r in op["rows"]]
            sid = ("new", a)
            snaps.append((sid, set(cur_files) | {("file", a)}, None))
            log.append(sid)
            cur = sid
        elif op["kind"] == "delete_snapshot":
            target = {"old": init["log_order"][0], "current": init["current"]}[op["which"]]
            snaps = [s for s in snaps if s[0] != target]
            log = [s for s in log if s != target]
            if cur == target:
                remaining = [s[0] for s in snaps]
                cur = next((s for s in reversed(log) if s in remaining), None)
        elif op["kind"] == "expire":
            snaps = [s for s in snaps if s[0] == cur or s[2] is None or s[2] >= op["cutoff"]]
            keep = {s[0] for s in snaps}
            log = [s for s in log if s in keep]
    # expected rows of the final current snapshot
    exp_rows: List[int] = []
    if cur is not None:
        files = next(f for sid, f, _t in snaps if sid == cur)
        for f in files:
            if isinstance(f, tuple):
                exp_rows.extend(new_rows_by_actor[f[1]])
            else:
                pass
        init_rows_by_file = _initial_rows_by_file(res)
        for f in files:
            if not isinstance(f, tuple):
                exp_rows.extend(init_rows_by_file[f])
    got_rows = sorted(r["x"] for r in res.final["rows"])
    if sorted(exp_rows) != got_rows:
        return f"final rows {got_rows} != serial replay of acknowledged commits in pointer order {sorted(exp_rows)} (flips {flips})"
    if len(res.final["snapshot_order"]) != len(snaps):
        return f"final snapshot count {len(res.final['snapshot_order'])} != serial replay {len(snaps)} (flips {flips})"
    # raised commits are not reflected: no row of a raised append, and the chain is linear with increasing sequence numbers
    for a, (st, _d) in res.outcomes.items():
        if not a.startswith("A"):
            continue
        op = ops[int(a[1:])]
        if st != "ok" and a not in flips and op["kind"] == "append" and any(r["x"] in got_rows for r in op["rows"]):
            return f"commit of {a} raised but its rows are in the table"
    seqs = [res.final["snapshots"][sid]["seq"] for sid in res.final["log_order"] if sid in res.final["snapshots"]]
    if any(b <= a for a, b in zip(seqs, seqs[1:])):
        return f"sequence numbers not strictly increasing in commit order: {seqs}"
    for sid, s in res.final["snapshots"].items():
        par = s["parent"]
        if par not in (None, -1) and par not in res.final["snapshots"]:
            return f"snapshot {sid} has a dangling parent {par}"
    return None


def _initial_rows_by_file(res: P.CaseResult) -> Dict[str, List[int]]:
    # initial snapshots were appended with rows x = -1, -2, ... one file each, in order
    out: Dict[str, List[int]] = {}
    seen: List[str] = []
    for sid in res.initial["log_order"]:
        for f in res.initial["snapshots"][sid]["files"]:
            if f not in seen:
                seen.append(f)
    for i, f in enumerate(seen):
        out[f] = [-(i + 1)]
    return out


# ---------------------------------------------------------------------------------------------------- driver
def check_runs(ctx, name: str, runs: List[Tuple[Dict[str, Any], Any, P.CaseResult]]) -> None:
    exprs, kept = [], []
    bad = []
    for case, dev, res in runs:
        ctx.count(1, (name, repr(case["ops"]), case.get("clock"), case.get("topology"), tuple(res.schedule)))
        why = serial_oracle(case, res)
        if why:
            ctx.violation(f"not-serializable:{case.get('clock', 'tick')}:{'+'.join(o['kind'] + ('-' + o['which'] if 'which' in o else '') for o in case['ops'])}",
                          why, {"case": _case_json(case), "deviations": list(dev), "schedule": res.schedule, "outcomes": res.outcomes})
        try:
            events, vids, _notes = P.project(res, len(case["ops"]), cas=(case.get("backend") == "s3cas"),
                                            lease=(case.get("backend") == "s3cas" and case.get("lock", "real") == "real"))
        except P.Nonconforming as e:
            bad.append({"case": _case_json(case), "schedule": res.schedule, "nonconforming": str(e)})
            continue
        exprs.append(model_expr(case, res, events))
        kept.append((case, dev, res, events, vids))
    vals = coqbuild.coq_eval(REQ, exprs, chunk=60) if exprs else []
    for (case, dev, res, events, vids), val in zip(kept, vals):
        ok, (ptr_or_idx, ops_final, hist, codes) = val
        if ok != 1:
            i = ptr_or_idx
            bad.append({"case": _case_json(case), "schedule": res.schedule, "rejected_event_index": i,
                        "event": events[i] if i < len(events) else None, "events": events[:i + 1][-8:]})
            continue
        final_vid = vids.get(res.final.get("pointer"), -1)
        flips = [int(e["actor"][1:]) for e in res.log if e["op"] in ("write_file", "write_file_cas") and P.path_class(e["path"]) == "hint" and e["result"] == "ok"]
        exp_codes = [1 if res.outcomes[f"A{i}"][0] == "ok" and res.outcomes[f"A{i}"][1] != "noop" else
                     (2 if "ConcurrentModification" in res.outcomes[f"A{i}"][1] else 0) for i in range(len(case["ops"]))]
        if ptr_or_idx != final_vid or [a for (_v, a) in hist] != flips or list(codes) != exp_codes:
            bad.append({"case": _case_json(case), "schedule": res.schedule, "model": {"ptr": ptr_or_idx, "hist": hist, "codes": codes},
                        "impl": {"ptr": final_vid, "flips": flips, "codes": exp_codes, "outcomes": res.outcomes}})
    ctx.correspondence(name, len(runs), bad)


def _case_json(case: Dict[str, Any]) -> Dict[str, Any]:
    return {k: v for k, v in case.items() if k not in ("yield_filter", "injectors")}


def run(ctx) -> None:
    ctx.rule = ("schedules of 2-4 committers at protocol yield points (pointer reads, lock attempts, validation, metadata-file "
                "write, fence, flip, release, marker cleanup, retry sleep), enumerated with bounded preemptions and sampled at "
                "random; x {separate, shared handle} x clock {tick, coarse, frozen} x operation mixes "
                "(append / expire / delete-snapshot old|current); distinct = distinct executed schedule per case")
    ctx.trusted_base += [
        "harness/lib/sched.py + protocol.py: deterministic scheduler, projection of the storage log onto Model/Commit.v events",
        "kernel flock exclusivity for the local lock (Excl); write-once metadata files",
    ]
    ctx.assumptions += ["pointer intact (C10 covers damaged pointers)", "no garbage collection concurrent with commits (C06)"]
    ctx.proofs(THEOREMS, gen_files=["GenCommit.v"])
    ctx.allow_axioms([])
    quick = ctx.tier == "quick"
    runs: List[Tuple[Dict[str, Any], Any, P.CaseResult]] = []
    # 1. enumerated schedules, 2 committers, frozen clock first (the adversarial one), then tick
    for clock in (["frozen", "tick"] if quick else ["frozen", "coarse", "tick"]):
        for ops in OPSETS:
            case = {"ops": ops, "clock": clock, "topology": "separate"}
            lim = 40 if quick else 400
            for dev, res in explore(ctx, case, 2 if quick else 3, lim):
                runs.append((case, dev, res))
    # 2. shared-handle topology
    for ops in OPSETS[:3] if quick else OPSETS:
        case = {"ops": ops, "clock": "frozen", "topology": "shared"}
        for dev, res in explore(ctx, case, 1 if quick else 2, 8 if quick else 120):
            runs.append((case, dev, res))
    # 3. random schedules, 3-4 committers
    nrand = 12 if quick else 400
    for i in range(nrand):
        ops = OPSETS3[i % len(OPSETS3)]
        case = {"ops": ops, "clock": ctx.rng.choice(["frozen", "coarse", "tick"]), "topology": ctx.rng.choice(["separate", "shared"])}
        seed = ctx.rng.randrange(1 << 30)
        import random as _r
        res = P.run_case(ctx.scratch, _fix_case(case), lambda sc, seed=seed: S.random_chooser(_r.Random(seed), 0.35), tag="c01r")
        runs.append((case, [("random", seed)], res))
    # 4. the file lock at open / flock granularity: lock hand-off among three committers (local backend)
    hand = [o for o in OPSETS3 if len(o) == 3][:1] + [[{"kind": "append", "rows": [{"x": 100 * (i + 1)}]} for i in range(3)]]
    for ops in hand:
        case = {"ops": ops, "clock": "tick", "topology": "separate", "fine_locks": True}
        scripts = lock_handoff_scripts(3)
        for sc_ in (scripts if not quick else scripts[::2]):
            res = P.run_case(ctx.scratch, _fix_case(case), script_chooser(sc_), tag="c01h")
            runs.append((case, [("script", sc_)], res))
    ctx.stats["lock_handoff_schedules"] = sum(1 for _c, d, _r in runs if d and d[0][0] == "script")
    ctx.stats["schedules"] = len(runs)
    ctx.stats["conflict_retries_observed"] = sum(1 for _c, _d, r in runs for e in r.log if e["op"] == "Sleep")
    ctx.stats["by_clock"] = {c: sum(1 for k, _d, _r in runs if k["clock"] == c) for c in ("frozen", "coarse", "tick")}
    if runs:
        c, d, r = runs[len(runs) // 2]
        ctx.sample({"case": _case_json(c), "schedule": r.schedule, "outcomes": r.outcomes})
    try:
        check_runs(ctx, "commit-trace", runs)
    except RuntimeError as e:
        ctx.proof_problems.append("model evaluation failed: " + str(e)[:800])


def replay(ctx, payload) -> int:
    case = payload.get("case", {}).get("case")
    if not case:
        print("replay: no concrete case in payload")
        return 2
    dev = payload["case"].get("deviations", [])
    if dev and dev[0][0] == "script":
        res = P.run_case(ctx.scratch, _fix_case(case), script_chooser([tuple(x) for x in dev[0][1]]), tag="replay")
    elif dev and dev[0][0] == "random":
        import random as _r
        res = P.run_case(ctx.scratch, _fix_case(case), lambda sc: S.random_chooser(_r.Random(dev[0][1]), 0.35), tag="replay")
    else:
        res = P.run_case(ctx.scratch, _fix_case(case), dev_chooser({int(i): a for i, a in dev}), tag="replay")
    why = serial_oracle(case, res)
    print("replay:", "STILL FAILS: " + why if why else "passes now")
    return 1 if why else 0
