"""C01 -- Concurrent commits are serializable: no acknowledged write lost or duplicated.

Proof      : coq/Props/C01.v over Model/Commit.v (interleaving machine of the OCC commit protocol, any number
             of committers, any clock): linear version chain, each acknowledged commit reflected exactly once in
             pointer order, raised commits not reflected -- for storage with real mutual exclusion (`lockkind = Excl`
             or conditional writes).  Commit.v holds a table's content as the list of applied operation ids; what that
             content MEANS is C15's Model/Meta.v, and the result is read through it (Model/CommitMeta.v `table_of`, for every
             interpretation of the committers as Meta operations): C01_serializable_tables (the table the pointer names =
             the initial table with exactly the flipped commits' mutators applied by Meta.step in pointer order) and
             C01_snapshot_chain (that table is well-formed w.r.t. the ghost history in pointer order -- parents are retained
             true ancestors -- and its snapshots' sequence numbers strictly increase in snapshot-log order; hypothesis on
             the interpretation only: distinct committers draw distinct positive snapshot ids / file names).  The retry
             budget of `step` is the regenerated one (C01_conflict_retried: the retry step is read off gen_tx_on, and with
             budget gen_max_retries a conflict is reported after exactly that many attempts).
             A REFUSAL (412) THAT ANSWERS AN APPLIED WRITE (an HTTP layer re-sending a conditional PUT whose first copy landed): the
             library reads the pointer back before calling a refusal a conflict (gen_refused_reads_back = true, regenerated), and
             "a commit that reported a conflict is not reflected" is stated over the machine WITH that read-back (Model/FlipFault.v
             XFlipResent / XReadBack): C01_conflict_not_reflected_full is FALSE on every schedule (_refuted: a second committer
             commits on top of the applied version before the read-back; committer 0, budget 1, reports the conflict and is in the
             chain) and holds on the prompt machine (_partial, exact hypothesis: no pointer write lands between the applied-and-refused
             write and its read-back).
             What `Excl` MEANS on a local filesystem is the layer below, Model/ProcLock.v:
             FileLock handles (one per Table handle) placed in OS processes by an arbitrary topology, the table of references
             to open descriptions of the lock file and the kernel's advisory lock under the ownership discipline of the
             primitive the source calls (Gen/GenFileLock.v, regenerated: flock = owned by the open file description), and
             processes created by FORK (`LFork`: the worker's handle is a copy of the parent's and INHERITS its descriptors =
             two handles sharing one open file description; an attempt through any reference re-locks, an unlock through
             any reference drops the lock, a close drops it only with the last reference).  Proved for every topology and
             every event list whose forks copy idle handles (`forks_quiescent`, spelled out in every statement): at most
             one handle believes it holds, the handle's flag (the fence of the commit point) is the kernel's owner, every
             event moves that view the way Commit.v's `step` moves `w_lock`, nothing another handle does -- in the holder's
             process, in another, a forked twin -- drops the holder's lock, and a quiescent fork inherits NOTHING because an
             idle handle of the regenerated program holds no descriptor (C01_lock_exclusive_any_topology_partial,
             C01_lock_refines_excl_partial, C01_lock_not_dropped_by_others_partial, C01_fork_inherits_nothing_partial,
             C01_lock_skeleton_regenerated_partial -- `_partial` = under forks_quiescent; without it exclusivity is FALSE,
             C01_lock_exclusive_refuted); the model has ONE lock object: that the lock file stays one inode (nothing in FileLock or
             the package unlinks / renames / re-creates it) is checked by the translator, fail-closed (gen_filelock.py
             _single_inode); refutation witnesses: process-owned locks (POSIX record locks) with two handles
             in one process; a fork while the copied handle holds (fork(2) itself); a handle that KEEPS its descriptor
             across acquisitions (Model/ProcLockKeep.v) forked while idle -- parent and worker both hold.
             STORAGE FAULTS AT THE COMMIT POINT and what the transaction does about them OUTSIDE the lock (conditional-write storage):
             Model/TxSettle.v, over Model/FlipFault.v (the pointer write raises, applied by the store or not, anywhere in any
             interleaving).  Once the exception has left MetadataManager.commit (lock released) the transaction's decision -- re-raise as
             it stands, or SETTLE the failure by reading the table back -- is a step of its own in the schedule; other committers may
             have run to completion in between.  STABILITY: for every settle policy whose verdict agrees with the published history
             at the settle step, the verdict stays true for the rest of the run (reported failed -> never reflected, reported
             committed -> reflected, no file of a reflected commit deleted) -- on the PROMPT machine and with NO pointer write landing
             after its sender unwound, both restrictions in the name (C01_settle_stable_prompt_no_late_landing_partial); the policy of
             the source is read off the regenerated handler table (gen_tx_on over gen_flip_exn) and on conditional-write storage it
             ASSERTS NOTHING: nobody is ever told "committed" / "definitely failed" on this path, nothing is deleted
             (C01_regenerated_settle_never_definite); "is the CURRENT version ours?" is not a sound policy (C01_tip_read_back_refuted: a second writer
             commits on top of the applied-but-unacknowledged version before the read-back).  A handler arm of any other shape is
             refused by the translator (fail-closed).  In the machine a request that lands after its client gave up lands BEFORE the
             sender's unwinding; the harness runs late landings against the real code.
Tie        : trace validation.  Real Table / MetadataManager / FileLock code runs under harness/lib/sched.py
             (deterministic scheduler, protocol-level yield points, virtual clock) with the committers as threads of one
             process, placed in several SPAWNED OS processes (harness/lib/procsched.py: worker processes stepped over pipes at
             the same yield points, one merged log; a worker can be SIGKILLed inside its critical section = the machines'
             ECrash / LKill), and in process FAMILIES: a parent process opens the table, uses its handle once (the metadata
             lock is taken and released), then FORKS workers which commit through the handle they inherited -- parent and
             worker, two workers, two threads of a worker next to another worker.  The observed storage log is projected onto
             the model's event alphabet and `Commit.run_strict` must accept it event by event (each event carries what the code
             read / decided); final pointer, flip order and outcomes must agree.  A storage call the projection does not know
             is a failure.
             Lock layer: every primitive on the lock file (open, non-blocking flock, unlock, close), per FileLock handle
             and process, with the REAL kernel's answer, and every fork (one LFork per handle the parent has used), must be
             accepted by `ProcLock.lrun_strict` under the regenerated discipline and the run's topology (model kernel = real
             kernel, event by event), all descriptors closed and the lock free at the end, and the protocol-level lock
             answers must be the kernel's.  A locking primitive outside that vocabulary (lockf, fcntl, unlink of the lock
             file, dup ...) is a correspondence failure.
             Commit-point faults: S3StorageBackend over the in-memory conditional-write S3 (harness/lib/mems3.py), real lease lock and
             a lock that excludes nobody; one request-level failure of a committer's pointer PUT (not applied / applied, response lost
             / in flight, landing later; timeouts, connection errors, 5xx); the scheduler keeps yielding at EVERY storage operation the
             transaction performs after MetadataManager.commit released the lock (tx_tail_yield_filter).  The projected trace
             (FlipFault events) followed by one TSettle per committer whose exception left commit() must be accepted by
             TxSettle.trun_strict under the regenerated policy, agreeing on final pointer, the store's order of applied writes, who
             failed, what each was told and whose data files were deleted.
Oracle     : implementation-only serializability oracle: the final table (independent reader) must equal
             the serial replay, in pointer-flip order, of exactly the commits that reported success -- on every schedule
             executed, in-process, across spawned processes and across forked families.
             On faulted schedules (ptr_fault_oracle), judged from the STORE's own history of the pointer: a commit() that returned is
             reflected exactly once; one that raised anything but AmbiguousCommitError is not reflected at all; an ambiguous one at
             most once; every data file referenced by a retained snapshot exists; the final table is the serial replay, in the
             store's order, of exactly the reflected commits (linear chain, increasing sequence numbers).
"""
from __future__ import annotations

import itertools
import random as _r
from typing import Any, Dict, List, Optional, Tuple

from harness.lib import coqbuild, procsched as PS, protocol as P, sched as S
from harness.lib.coqio import Some

LEVEL = "proof"
THEOREMS = ["C01_serializable", "C01_serializable_tables", "C01_acked_exactly_once", "C01_raised_not_reflected",
            "C01_conflict_not_reflected_partial", "C01_conflict_not_reflected_refuted",
            "C01_version_chain_linear", "C01_snapshot_chain",
            "C01_skeleton_regenerated", "C01_conflict_retried",
            "C01_lock_exclusive_any_topology_partial", "C01_lock_exclusive_refuted", "C01_lock_refines_excl_partial",
            "C01_lock_not_dropped_by_others_partial", "C01_fork_inherits_nothing_partial", "C01_lock_skeleton_regenerated_partial",
            "C01_settle_stable_prompt_no_late_landing_partial", "C01_regenerated_settle_never_definite", "C01_tip_read_back_refuted"]
REQ = ["DS.Gen.GenCommit", "DS.Model.Commit", "DS.Gen.GenFileLock", "DS.Model.ProcLock"]
MANIFEST_ENTRY = {
    "level_text": "Serializability of the OCC commit protocol proved in Coq (C01_serializable and companions) by an inductive "
                  "invariant over every schedule of any number of committers with any clock readings, for exclusive-lock and CAS "
                  "storage, and read through C15's Model/Meta.v: the table the pointer names is the initial table with exactly the "
                  "flipped commits' mutators applied in pointer order (C01_serializable_tables), it is well-formed and its snapshots' "
                  "sequence numbers strictly increase in pointer order (C01_snapshot_chain = C01 composed with C15_wf_invariant / "
                  "C15_seq_in_log_order; hypothesis: distinct committers draw distinct snapshot ids and file names); the exclusive lock "
                  "of a local table is itself modelled and proved (Model/ProcLock.v: FileLock handles "
                  "in OS processes under an arbitrary process topology including workers created by fork() that inherit the parent's "
                  "handle and descriptors, reference table of open descriptions and kernel lock with the ownership "
                  "discipline of the primitive the source calls; C01_lock_exclusive_any_topology_partial, C01_lock_refines_excl_partial, "
                  "C01_lock_not_dropped_by_others_partial, C01_fork_inherits_nothing_partial -- for every event list whose forks copy idle "
                  "handles; false without that hypothesis: C01_lock_exclusive_refuted); "
                  "the model is tied to the code by trace validation: real commits run under a "
                  "deterministic scheduler at storage-operation granularity, as threads of one process, distributed over "
                  "several spawned OS processes (including the death of a process inside its critical section) and in process families "
                  "(a parent that has used its handle forks workers that commit through the inherited handle), and every observed "
                  "protocol event, every primitive on the lock file (with the real kernel's answer) and every fork must be accepted by "
                  "the models' strict runs; the validation kernel, the stamp rule, the action "
                  "skeleton of MetadataManager.commit, the retry / handler tables and the retry budget (translator/gen_commit.py) and "
                  "FileLock's primitive skeleton and lock discipline (translator/gen_filelock.py) are regenerated from the source and the "
                  "proofs re-run against them; an implementation-only serializability oracle judges every explored schedule; "
                  "storage faults at the commit point on conditional-write S3 (pointer PUT not applied / applied with the response lost / "
                  "in flight and landing later) are combined with schedules in which another writer commits at every step of the faulted "
                  "committer, including the steps Transaction.commit performs outside the lock after MetadataManager.commit returned or "
                  "raised: Model/TxSettle.v proves, on the prompt machine without pointer writes landing after their sender unwound, that a settle "
                  "verdict agreeing with the published history at the settle step stays true (reported failed -> not reflected, reported "
                  "committed -> reflected, no file of a reflected commit deleted: C01_settle_stable_prompt_no_late_landing_partial), that the "
                  "policy read off the regenerated handler table never tells a caller anything definite and deletes nothing "
                  "(C01_regenerated_settle_never_definite) and that a tip-equality read-back is unsound (C01_tip_read_back_refuted); a conflict "
                  "reported for an applied-and-refused write: false on every schedule, true with a prompt read-back "
                  "(C01_conflict_not_reflected_refuted / _partial over Model/FlipFault.v, the machine with the library's read-back); faulted runs of the "
                  "real code are trace-validated against that machine and judged by an oracle over the store's own pointer history "
                  "(acknowledged / failed / ambiguous accounting, referenced files exist, serial replay)",
    "level_note": "trusted: Coq kernel; translator/gen_commit.py, gen_filelock.py; projection of the storage log and of the lock-file "
                  "primitives onto model events (harness/lib/protocol.py, props/c01.py project_locks); the kernel's flock semantics "
                  "as written in Model/ProcLock.v (grants / drops / shared descriptions after fork), compared with the real kernel's "
                  "answers on every run; metadata files are write-once so pointer read + file read are one step; table content is the "
                  "list of applied operations, interpreted by Model/CommitMeta.v table_of (that the bytes a committer writes are Meta.step "
                  "of its base's is C15's correspondence; the clock reading of an event is not identified with the `tu` of the interpreted "
                  "operation); partial / assumptions spelled out in the statements: forks copy idle handles (forks_quiescent; refuted "
                  "without it: C01_lock_exclusive_refuted / C01_fork_while_holding_not_exclusive -- fork(2) itself; LFork copies one handle per "
                  "event, FileLock.__del__ is pinned by the translator to `if self._locked: self.release()` and not modelled); the lock file "
                  "stays ONE inode (gen_filelock.py _single_inode: no os.* call in FileLock.__init__/acquire/__del__ beyond dirname/makedirs, "
                  "no other method, no other mention of the lock path in the package; fail-closed); a pointer write refused although applied "
                  "is read back PROMPTLY (C01_conflict_not_reflected_partial, hypothesis prompt = true; refuted on every schedule: "
                  "C01_conflict_not_reflected_refuted -- a second committer supersedes the applied version before the read-back); the lock-layer "
                  "refinement (C01_lock_refines_excl_partial) is per step and is not composed with Commit.run in Coq; descriptors are "
                  "not dup()ed (a dup on the lock file is a correspondence failure); commit-point faults: one fault per run, injected at the "
                  "boto surface (harness/lib/protocol.py s3_fault) over harness/lib/mems3.py; in Model/TxSettle.v a request landing after its "
                  "client gave up lands before the sender's unwinding and the machine is the prompt one (both in the name of "
                  "C01_settle_stable_prompt_no_late_landing_partial; late landings are run against the real code only); the settle statements "
                  "cover cas = true only; table configuration: the schedules also run on tables whose write.metadata.previous-versions-max / "
                  "datashard.snapshot.retention-count are set small, with histories below / at / above the bound",
    "technique": "Coq invariant proofs over two interleaving machines (commit protocol; lock layer under arbitrary process topologies with "
                 "fork / descriptor inheritance), composition with the metadata model of C15, "
                 "translator-regenerated kernels and skeletons + trace validation of real executions, in-process, multi-process and across fork(); "
                 "request-level fault injection at the commit point x directed / random schedules over a fake conditional-write S3, settle "
                 "machine over the failing-write machine",
    "design_ref": "DESIGN.md section 5 C01",
}

OPSETS = [
    [{"kind": "append", "rows": [{"x": 100}]}, {"kind": "append", "rows": [{"x": 200}]}],
    [{"kind": "append", "rows": [{"x": 100}]}, {"kind": "delete_snapshot", "which": "old"}],
    [{"kind": "delete_snapshot", "which": "current"}, {"kind": "append", "rows": [{"x": 200}]}],
    [{"kind": "expire", "cutoff": "mid"}, {"kind": "append", "rows": [{"x": 200}]}],
    [{"kind": "delete_snapshot", "which": "old"}, {"kind": "expire", "cutoff": "mid"}],
    [{"kind": "append", "rows": [{"x": 100}], "style": "explicit"}, {"kind": "delete_snapshot", "which": "current"}],
]
OPSETS3 = [
    [{"kind": "append", "rows": [{"x": 100}]}, {"kind": "append", "rows": [{"x": 200}]}, {"kind": "delete_snapshot", "which": "old"}],
    [{"kind": "append", "rows": [{"x": 100}]}, {"kind": "expire", "cutoff": "mid"}, {"kind": "delete_snapshot", "which": "current"}],
    [{"kind": "append", "rows": [{"x": 1}]}, {"kind": "append", "rows": [{"x": 2}]}, {"kind": "append", "rows": [{"x": 3}]},
     {"kind": "delete_snapshot", "which": "old"}],
]


# TABLE CONFIGURATION x HISTORY LENGTH.  The table's own properties bound what a version remembers of its past: the metadata log
# is trimmed to write.metadata.previous-versions-max entries, an append prunes snapshots beyond datashard.snapshot.retention-count.
# Anything a commit derives from such a bounded structure stops changing once the history is as long as the bound, so the
# schedules are run on tables whose history is SHORTER than, EQUAL to and LONGER than each bound -- with the bounds set small
# (a prehistory step sets the property) instead of building tables of default size (100 versions).
CAP_PROP = "write.metadata.previous-versions-max"
RETENTION_PROP = "datashard.snapshot.retention-count"
# operation mixes for tables with >= 3 snapshots: pairs / triples of commits that KEEP current_snapshot_id with DIFFERENT effects
# (so that one undone by the other shows in the final table), and mixes with appends
OPSETS_CFG = [
    [{"kind": "delete_snapshot", "which": "second"}, {"kind": "expire", "cutoff": "mid"}],
    [{"kind": "delete_snapshot", "which": "old"}, {"kind": "delete_snapshot", "which": "second"}],
    [{"kind": "expire", "cutoff": "mid"}, {"kind": "delete_snapshot", "which": "second"}, {"kind": "append", "rows": [{"x": 300}]}],
    [{"kind": "append", "rows": [{"x": 100}]}, {"kind": "delete_snapshot", "which": "second"}],
]


def config_histories(quick: bool) -> List[Tuple[str, List[Dict[str, Any]]]]:
    """(label, prehistory): one table property set to a small bound b, then a history of appends whose length relative to b is
    below / at / above it (never fewer than three snapshots, which the operation mixes need)."""
    out: List[Tuple[str, List[Dict[str, Any]]]] = []
    for prop, tag, bounds in ((CAP_PROP, "logcap", (1, 2, 5) if quick else (1, 2, 3, 5)),
                              (RETENTION_PROP, "retain", (5,) if quick else (3, 4, 5))):
        for b in bounds:
            # versions committed after create = the property commit + the appends = b + rel + 1: below / at / above the bound
            for rel in ((-2, 1) if quick else (-2, -1, 1)):
                nap = max(3, b + rel)
                label = f"{tag}{b}-hist{nap + 1}"
                pre = [{"do": "set_property", "key": prop, "value": str(b)}] + [{"do": "append"}] * nap
                if all(label != l for l, _p in out):
                    out.append((label, pre))
    return out


def dev_chooser(dev: Dict[int, str]):
    """Default: keep running the last actor while enabled, else the first enabled; deviations force a switch."""
    def factory(_sc: S.Scheduler):
        state = {"i": 0, "last": None}

        def choose(enabled: List[str], _s: S.Scheduler) -> Optional[str]:
            i = state["i"]
            state["i"] += 1
            if i in dev and dev[i] in enabled:
                state["last"] = dev[i]
            elif state["last"] not in enabled:
                state["last"] = enabled[0]
            return state["last"]
        return choose
    return factory


STOPS = {
    "release": lambda op, path: op == "LockRel",
    "flock": lambda op, path: op == "LockFlock",
    "flip": lambda op, path: op in ("write_file", "write_file_cas") and P.path_class(path) == "hint",
    "metaw": lambda op, path: op == "write_file" and P.path_class(path) == "meta",
    "fence": lambda op, path: op == "Fence",
    "lockclose": lambda op, path: op == "LockClose",
    "end": lambda op, path: False,
}


def script_chooser(script: List[Tuple[str, str]]):
    """script = [(actor, stop)]: run `actor` while it is enabled and not parked before an operation matching STOPS[stop]
    ("step:<n>" = exactly n steps); when the script is used up, first enabled."""
    def factory(_sc: S.Scheduler):
        st = {"k": 0, "n": 0}

        def choose(enabled: List[str], s: S.Scheduler) -> Optional[str]:
            while st["k"] < len(script):
                a, stop = script[st["k"]]
                if a in enabled:
                    if stop.startswith("step:"):
                        if st["n"] < int(stop[5:]):
                            st["n"] += 1
                            return a
                    else:
                        op, path = s.actors[a].pending or ("", "")
                        if not STOPS[stop](op, path):
                            return a
                st["k"] += 1
                st["n"] = 0
            return enabled[0] if enabled else None
        return choose
    return factory


def lock_handoff_scripts(n: int) -> List[List[Tuple[str, str]]]:
    """Three committers and the file lock at open / flock granularity: X holds the lock and is about to release it, Y has
    OPENED the lock file and is about to flock, X releases, Z acquires and goes on to its pointer flip, Y's flock is
    decided only now -- then both finish.  (flock locks the inode Y opened; what happened to the path meanwhile matters.)"""
    out = []
    names = [f"A{i}" for i in range(n)]
    for x in names:
        for y in names:
            for z in names:
                if len({x, y, z}) == 3:
                    for zstop in ("flip", "metaw"):
                        out.append([(x, "release"), (y, "flock"), (x, "step:1"), (z, zstop), (y, "flip"), (z, "end"), (y, "end"), (x, "end")])
    return out



# ---------------------------------------------------------------------------------------------------- process topologies
_POOL: List[Any] = [None]


def _pool() -> PS.Pool:
    if _POOL[0] is None:
        _POOL[0] = PS.Pool()
    return _POOL[0]


def _close_pool() -> None:
    if _POOL[0] is not None:
        _POOL[0].close()
        _POOL[0] = None


def _run(ctx, case: Dict[str, Any], chooser_factory, tag: str, inject=None) -> P.CaseResult:
    """One case under the scheduler: actors as threads of the harness process, or -- case['procs'] -- placed in OS
    processes (harness/lib/procsched.py).  The lock-layer trace of the run is attached to the result either way."""
    if case.get("procs") is not None:
        if inject:
            raise ValueError("fault injection is per harness-process actor")
        k = case.get("kill")
        return PS.run_case(ctx.scratch, _fix_case(case), chooser_factory, _pool(), tag=tag + "p",
                           kill={"actor": k["actor"], "when": STOPS[k["stop"]]} if k else None)
    res = P.run_case(ctx.scratch, _fix_case(case), chooser_factory, tag=tag, inject=inject)
    res.locklog = list(getattr(P.S_current(), "locklog", []))
    return res


def contention_scripts(n: int, stops: List[str]) -> List[List[Tuple[str, str]]]:
    """X is parked INSIDE its critical section (before the metadata-file write / the fence / the pointer flip / the
    release); then every other committer runs as far as it gets, in every order -- each tries the lock at least once,
    whatever process it lives in --; then X goes on, then the others finish.  (The shape of the lock layer's refutation
    witnesses, coq/Props/C01.v C01_process_owned_lock_not_exclusive: X holds, Y touches the lock file, Z attempts.)"""
    out = []
    names = [f"A{i}" for i in range(n)]
    for perm in itertools.permutations(names):
        x, rest = perm[0], list(perm[1:])
        for st in stops:
            out.append([(x, st)] + [(y, "end") for y in rest] + [(x, "end")] + [(y, "end") for y in rest])
    return out


def release_window_scripts(n: int, stops: List[str]) -> List[List[Tuple[str, str]]]:
    """The file lock at the granularity of EVERY primitive (fine_locks = "all"): X has committed and is inside release(),
    between the unlock and the close of its descriptor; Y takes the lock in that window and goes on
    to its metadata write / pointer flip; X finishes its release; Z runs to the end; Y finishes.  (What X's close does --
    to whose descriptor -- while Y holds is the lock layer's KClose-after-KUnlock interleaved with another handle's grant.)"""
    out = []
    names = [f"A{i}" for i in range(n)]
    for perm in itertools.permutations(names):
        x, y, rest = perm[0], perm[1], list(perm[2:])
        for st in stops:
            out.append([(x, "lockclose"), (y, st), (x, "end")] + [(z, "end") for z in rest] + [(y, "end"), (x, "end")])
    return out


# process FAMILIES: a parent process opens the table, uses its handle (one commit: the metadata lock is taken and released),
# then forks workers that go on using the handle they inherited (harness/lib/procsched.py, case["fork"])
FORK_FAMILIES = {
    2: [{"root": [0], "children": [[1]], "handles": "shared"},            # the parent and one forked worker
        {"root": [], "children": [[0], [1]], "handles": "shared"},        # two forked workers (a pre-forked pool)
        {"root": [0], "children": [[1]], "handles": "own"}],              # every committer a handle of its own, all inherited
    3: [{"root": [0], "children": [[1], [2]], "handles": "shared"},
        {"root": [], "children": [[0, 1], [2]], "handles": "shared"}],    # two threads of one worker + another worker
}


def _where(case: Dict[str, Any]) -> str:
    if case.get("fork"):
        f = case["fork"]
        return f"fork{len(f.get('root', []))}+" + "+".join(str(len(g)) for g in f["children"]) + f"-{f.get('handles', 'shared')}:"
    if case.get("procs") is not None:
        return "procs" + "+".join(str(len(g)) for g in case["procs"]) + ":"
    return ""


PROC_TOPOLOGIES = {
    2: [[[0], [1]], [[], [0, 1]]],
    3: [[[0, 1], [2]], [[0], [1, 2]], [[0], [1], [2]]],
    4: [[[0, 1], [2, 3]], [[0], [1, 2, 3]], [[0, 3], [1], [2]]],
}


def project_locks(res: P.CaseResult) -> Tuple[str, int]:
    """The run's lock-layer trace as an expression of Model/ProcLock.v: handles = FileLock instances in order of first
    use, topology = the OS process each lives in, one event per primitive with the REAL kernel's answer; the model's
    strict run (its kernel, the regenerated discipline) must accept every event.  Returns (Gallina term, #opens).
    Raises Nonconforming on a primitive outside the vocabulary (open, non-blocking exclusive flock, flock unlock, close)."""
    handles: Dict[Tuple[int, int], int] = {}
    procs: List[int] = []
    pidx: Dict[int, int] = {}
    last: Dict[int, str] = {}
    evs: List[str] = []
    opens = 0
    for i, e in enumerate(res.locklog):
        if e["prim"] == "fork":
            # the worker inherits every FileLock handle of its parent (object and open descriptors): one twin per handle the
            # parent has used so far, in the child's process
            cp = pidx.setdefault(e["child"], len(pidx))
            for (ppid, hobj), h in list(handles.items()):
                if ppid == e["pid"]:
                    handles[(e["child"], hobj)] = len(handles)
                    procs.append(cp)
                    evs.append(f"LFork {h} {handles[(e['child'], hobj)]}")
            continue
        if e["prim"] == "kill":
            if e["pid"] in pidx:                   # a process none of whose handles ever touched the lock file holds nothing
                evs.append(f"LKill {pidx[e['pid']]}")
            continue
        if not e.get("known", False):
            raise P.Nonconforming(f"lock primitive outside the vocabulary of the lock layer (os.open, fcntl.flock LOCK_EX|LOCK_NB, "
                                  f"fcntl.flock LOCK_UN, os.close) at locklog[{i}]: {e['prim']} by {e['actor']}")
        if e.get("handle") is None:
            raise P.Nonconforming(f"primitive on the lock file outside a FileLock instance at locklog[{i}]: {e['prim']} by {e['actor']}")
        key = (e["pid"], e["handle"])
        if key not in handles:
            handles[key] = len(handles)
            procs.append(pidx.setdefault(e["pid"], len(pidx)))
        h = handles[key]
        prim = e["prim"]
        if prim == "open":
            if not e["ok"]:
                raise P.Nonconforming(f"the lock file could not be opened at locklog[{i}] ({e['actor']})")
            k = "KOpen"
            opens += 1
        elif prim == "trylock":
            k = "KTry true" if e["ok"] else "KTry false"
        elif prim == "unlock":
            k = "KUnlock"
        elif prim == "close":
            k = "KCloseRefused" if last.get(h) == "KTry false" else "KClose"
        else:
            raise P.Nonconforming(f"unknown lock primitive at locklog[{i}]: {prim}")
        last[h] = k
        evs.append(f"LStep {h} ({k})")
    topo = "(fun h => nth h [" + "; ".join(str(p) for p in procs) + "] 0)%nat"
    term = (f"match lrun_strict gen_lock_disc {topo} linit ([" + "; ".join(evs) + "]%nat) 0%nat with "
            f"| inl s => (1, lsummary s) | inr i => (0, (None, i, 0%nat)) end")
    return term, opens


def project_with_kills(res: P.CaseResult, n: int, cas: bool, lease: bool):
    """protocol.project; a process killed by the harness (log entry ProcessKilled, one per actor that lived in it) becomes the
    machine's ECrash for that actor at that point of the trace."""
    kills = [i for i, e in enumerate(res.log) if e["op"] == "ProcessKilled"]
    if not kills:
        return P.project(res, n, cas=cas, lease=lease)
    full = P.CaseResult()
    full.initial = res.initial
    full.log = [e for e in res.log if e["op"] != "ProcessKilled"]
    events, vids, notes = P.project(full, n, cas=cas, lease=lease)
    inserted = 0
    for k, i in enumerate(kills):
        pre = P.CaseResult()
        pre.initial = res.initial
        pre.log = [e for e in res.log[:i] if e["op"] != "ProcessKilled"]
        ev_pre, _v, _n = P.project(pre, n, cas=cas, lease=lease)
        if ev_pre != events[:inserted + len(ev_pre)][:len(ev_pre)] and [x for x in events[:len(ev_pre) + inserted] if x[1] != "ECrash"] != ev_pre:
            raise P.Nonconforming("the trace before the process death is not a prefix of the whole trace")
        events.insert(len(ev_pre) + inserted, (int(res.log[i]["actor"][1:]), "ECrash"))
        inserted += 1
    return events, vids, notes


def lock_attempts_agree(res: P.CaseResult) -> Optional[str]:
    """Per actor, the answers of the lock attempts seen at the protocol level (LockTry) are the kernel's answers to that
    actor's flock attempts at the lock layer."""
    proto: Dict[str, List[bool]] = {}
    layer: Dict[str, List[bool]] = {}
    for e in res.log:
        if e["op"] == "LockTry" and e["result"] is not None:
            proto.setdefault(e["actor"], []).append(e["result"] == "ok")
    for e in res.locklog:
        if e["prim"] == "trylock" and e["actor"] != "setup":        # a family parent's use of its handle before the fork
            layer.setdefault(e["actor"], []).append(bool(e["ok"]))
    if proto != layer:
        return f"protocol-level lock attempts {proto} != kernel answers at the lock layer {layer}"
    return None


def explore(ctx, case: Dict[str, Any], max_preempt: int, limit: int):
    """Bounded-preemption enumeration by re-execution (runs are deterministic)."""
    from collections import deque
    queue = deque([()])          # breadth-first: all schedules with k preemptions before any with k+1
    seen = set()
    n = 0
    while queue and n < limit:
        dev = queue.popleft()
        inj = {f"A{i}": mk() for i, mk in (case.get("injectors") or {}).items()}
        res = _run(ctx, case, dev_chooser(dict(dev)), tag="c01", inject=inj or None)
        key = tuple(res.schedule)
        if key in seen:
            continue
        seen.add(key)
        n += 1
        yield dev, res
        if len(dev) < max_preempt:
            start = (dev[-1][0] + 1) if dev else 0
            for i in range(start, len(res.schedule)):
                for b in res.enabled_at[i]:
                    if b != res.schedule[i]:
                        queue.append(dev + ((i, b),))


def _fix_case(case: Dict[str, Any]) -> Dict[str, Any]:
    c = dict(case)
    ops = []
    for op in case["ops"]:
        op = dict(op)
        if op["kind"] == "expire" and op["cutoff"] == "mid":
            # just after the OLDEST initial snapshot's timestamp (virtual clock: setup step i is stamped start + 10 * (i + 1);
            # default history = two appends; a `prehistory` may begin with steps that create no snapshot)
            pre = case.get("prehistory")
            first = next((i for i, st in enumerate(pre) if st["do"] == "append"), 0) if pre else 0
            op["cutoff"] = 1_700_000_000_000 + 10 * (first + 1) + 5
        ops.append(op)
    c["ops"] = ops
    if case.get("tail_yields"):
        c["yield_filter"] = tx_tail_yield_filter
    return c


def tx_tail_yield_filter(op: str, path: str, phase: tuple) -> bool:
    """The protocol yield points, and -- case["tail_yields"] -- EVERY storage operation a committer performs inside
    Transaction.commit / delete_snapshot AFTER its MetadataManager.commit has released the metadata lock (the return or raise of
    MetadataManager.commit is not the end of the commit: handlers, read-backs, rollbacks and cleanups follow, outside the lock;
    another writer may run to completion between any two of those steps)."""
    base = P.protocol_yield_filter(op, path, phase)
    sc = P.S_current()
    me = sc.me() if sc is not None else None
    if me is None:
        return base
    st = sc.__dict__.setdefault("_c01_tail", {})
    if op == "LockTry":
        st[me.name] = False
    elif op == "LockRel":
        st[me.name] = True
    return base or (st.get(me.name, False) and ("Transaction.commit" in phase or "SnapshotManager.delete_snapshot" in phase))


def kind_of(op: Dict[str, Any], init_cur_model: int = 1) -> Tuple[str, Any]:
    """Gallina curk for the operation and its retry budget (Transaction.commit: the REGENERATED bound gen_max_retries;
    delete_snapshot commits once)."""
    k = op["kind"]
    if k in ("append", "delete_files"):
        return "KFresh", "gen_max_retries"
    if k == "expire":
        return "KKeep", "gen_max_retries"
    if k == "delete_snapshot":
        if op.get("which") == "current":
            return f"(KCond {init_cur_model} 0)", 1
        return "KKeep", 1
    raise ValueError(k)


def model_expr(case: Dict[str, Any], res: P.CaseResult, events: List[Tuple[int, str]]) -> str:
    n = len(case["ops"])
    kinds = " ".join(f"| {i}%nat => {kind_of(op)[0]}" for i, op in enumerate(case["ops"]))
    maxrs = " ".join(f"| {i}%nat => ({kind_of(op)[1]})%nat" for i, op in enumerate(case["ops"]))
    lu0 = res.initial["meta"]["last_updated_ms"]
    cfgs = "{| cas := %s; lockkind := %s |}" % ("true" if case.get("backend") == "s3cas" else "false",
                                               "GrantAll" if case.get("lock") == "grant_all" else
                                               ("Lease" if case.get("backend") == "s3cas" else "Excl"))
    evs = "[" + "; ".join(f"{{| e_actor := {ai}%nat; e_kind := {_nat_args(k)} |}}" for ai, k in events) + "]"
    return (f"match run_strict {cfgs} (init_world {{| m_ops := []; m_cur := 1; m_lu := {lu0} |}} "
            f"(fun a => match a with {kinds} | _ => KKeep end) (fun a => match a with {maxrs} | _ => 1%nat end)) {evs} 0%nat with "
            f"| inl w => (1, summary w {n}%nat) | inr i => (0, (i, [], [], [])) end")


def _nat_args(k: str) -> str:
    parts = k.split()
    if parts[0] in ("EBegin", "EValidate"):
        parts[1] = parts[1] + "%nat"
    return " ".join(parts)


# ---------------------------------------------------------------------------------------------------- oracle
def serial_oracle(case: Dict[str, Any], res: P.CaseResult, flips: Optional[List[str]] = None) -> Optional[str]:
    """Final table == serial replay, in flip order, of exactly the commits that reported success.
    `flips` (optional): the committers whose pointer write the STORE applied, in order, established by the caller (runs with
    lost responses / requests landing late, where a commit may be in the table without having been acknowledged); the caller
    then judges acknowledgement itself and this function only replays."""
    if res.deadlock:
        return f"deadlock: {res.deadlock}"
    if "error" in res.final:
        return f"final table unreadable: {res.final['error']}"
    ops = _fix_case(case)["ops"]
    init = res.initial
    # flip order as observed: successful pointer writes during actor runs
    given = flips is not None
    if flips is None:
        flips = [e["actor"] for e in res.log if e["op"] in ("write_file", "write_file_cas") and P.path_class(e["path"]) == "hint" and e["result"] == "ok"
                 and e["actor"].startswith("A")]
    acked = [a for a, (st, _d) in res.outcomes.items() if st == "ok" and a.startswith("A")]
    noop = [a for a, (st, d) in res.outcomes.items() if st == "ok" and d == "noop" and a.startswith("A")]
    if not given and sorted(flips) != sorted(a for a in acked if a not in noop):
        return f"acknowledged commits {sorted(acked)} != pointer flips {flips} (a success without a flip, a flip without success, or a double flip)"
    # reference replay over (snapshot list, current, rows per snapshot)
    snaps = [(sid, set(init["snapshots"][sid]["files"]), init["snapshots"][sid]["ts"]) for sid in init["snapshot_order"]]
    log = list(init["log_order"])
    cur = init["current"]
    try:
        retention = int((init["meta"].get("properties") or {}).get(RETENTION_PROP))
    except (TypeError, ValueError):
        retention = None
    rows_of_file: Dict[str, List[int]] = {}
    new_rows_by_actor: Dict[str, List[int]] = {}
    for a in flips:
        op = ops[int(a[1:])]
        cur_files = next((f for sid, f, _t in snaps if sid == cur), set())
        if op["kind"] == "append":
            new_rows_by_actor[a] = [r["x"] for r in op["rows"]]
            sid = ("new", a)
            snaps.append((sid, set(cur_files) | {("file", a)}, None))
            log.append(sid)
            cur = sid
            # opt-in snapshot retention (table property): an append keeps the newest `retention` snapshots (and the current one)
            if retention is not None and retention >= 1 and len(snaps) > retention:
                keep = {s_[0] for s_ in snaps[-retention:]} | {cur}       # `snaps` is in commit = timestamp order
                snaps = [s_ for s_ in snaps if s_[0] in keep]
                log = [s_ for s_ in log if s_ in keep]
        elif op["kind"] == "delete_snapshot":
            target = {"old": init["log_order"][0], "second": init["log_order"][min(1, len(init["log_order"]) - 1)],
                      "current": init["current"]}[op["which"]]
            snaps = [s for s in snaps if s[0] != target]
            log = [s for s in log if s != target]
            if cur == target:
                remaining = [s[0] for s in snaps]
                cur = next((s for s in reversed(log) if s in remaining), None)
        elif op["kind"] == "expire":
            snaps = [s for s in snaps if s[0] == cur or s[2] is None or s[2] >= op["cutoff"]]
            keep = {s[0] for s in snaps}
            log = [s for s in log if s in keep]
    # expected rows of the final current snapshot
    exp_rows: List[int] = []
    if cur is not None:
        files = next(f for sid, f, _t in snaps if sid == cur)
        for f in files:
            if isinstance(f, tuple):
                exp_rows.extend(new_rows_by_actor[f[1]])
            else:
                pass
        init_rows_by_file = _initial_rows_by_file(res)
        for f in files:
            if not isinstance(f, tuple):
                exp_rows.extend(init_rows_by_file[f])
    got_rows = sorted(r["x"] for r in res.final["rows"])
    if sorted(exp_rows) != got_rows:
        return f"final rows {got_rows} != serial replay of acknowledged commits in pointer order {sorted(exp_rows)} (flips {flips})"
    if len(res.final["snapshot_order"]) != len(snaps):
        return f"final snapshot count {len(res.final['snapshot_order'])} != serial replay {len(snaps)} (flips {flips})"
    # raised commits are not reflected: no row of a raised append, and the chain is linear with increasing sequence numbers
    for a, (st, _d) in res.outcomes.items():
        if not a.startswith("A"):
            continue
        op = ops[int(a[1:])]
        if st != "ok" and a not in flips and op["kind"] == "append" and any(r["x"] in got_rows for r in op["rows"]):
            return f"commit of {a} raised but its rows are in the table"
    seqs = [res.final["snapshots"][sid]["seq"] for sid in res.final["log_order"] if sid in res.final["snapshots"]]
    if any(b <= a for a, b in zip(seqs, seqs[1:])):
        return f"sequence numbers not strictly increasing in commit order: {seqs}"
    for sid, s in res.final["snapshots"].items():
        par = s["parent"]
        if par not in (None, -1) and par not in res.final["snapshots"]:
            return f"snapshot {sid} has a dangling parent {par}"
    return None


def _initial_rows_by_file(res: P.CaseResult) -> Dict[str, List[int]]:
    # initial snapshots were appended with rows x = -1, -2, ... one file each, in order
    out: Dict[str, List[int]] = {}
    seen: List[str] = []
    for sid in res.initial["log_order"]:
        for f in res.initial["snapshots"][sid]["files"]:
            if f not in seen:
                seen.append(f)
    for i, f in enumerate(seen):
        out[f] = [-(i + 1)]
    return out



# ---------------------------------------------------------------------------------------------------- commit-point faults
# Storage faults of every outcome kind at the pointer write (conditional-write S3), combined with schedules in which another
# writer runs to completion between any two steps of the faulted committer -- including the steps of Transaction.commit that
# FOLLOW the return / raise of MetadataManager.commit (case["tail_yields"]).
PTR_FAULT_MODES = ["before",      # the request is not applied; the client gets an error that is not the store's refusal
                   "after",       # the request is applied; the response is lost
                   "inflight"]    # the client gives up; the request reaches the store later, at a scheduling point of its own
PTR_FAULT_EXCS = ["timeout", "connect", "500", "connclosed", "503", "oserror", "reqtimeout"]
TREQ = ["DS.Gen.GenCommit", "DS.Model.Commit", "DS.Model.FlipFault", "DS.Model.TxSettle"]


def applied_pointer_writes(res: P.CaseResult) -> List[Optional[str]]:
    """Whose version the STORE made current, in the store's order, whatever the clients were told: one entry per applied PUT of
    the pointer = the committer that wrote the metadata file the new pointer content names (None: nobody of this run)."""
    writers: Dict[str, str] = {}
    for e in res.log:
        if e["op"] == "write_file" and P.path_class(e["path"]) == "meta" and e["actor"].startswith("A"):
            writers[e["path"].rsplit("/", 1)[-1]] = e["actor"]
    out = []
    for h in (res.store.history if res.store is not None else []):
        if h["key"].endswith(P.HINT):
            out.append(writers.get(h["body"].decode("utf-8", "replace").strip()))
    return out


def told(outcome: Tuple[str, str]) -> str:
    """What the caller of commit() was told: 'success' | 'noop' | 'ambiguous' (AmbiguousCommitError: outcome unknown, nothing was
    deleted) | 'failed' (any other exception)."""
    st, d = outcome
    if st == "ok":
        return "noop" if d == "noop" else "success"
    return "ambiguous" if d.startswith("AmbiguousCommitError") else "failed"


def ptr_fault_oracle(case: Dict[str, Any], res: P.CaseResult) -> Optional[str]:
    """Implementation-only judgement of C01 on a run with a storage fault at the commit point, from the store's own history of
    the pointer and the final table (independent reader):
      * a commit() that returned is reflected exactly once; one that raised anything but the ambiguous error is not reflected at
        all; one that raised the ambiguous error is reflected at most once (acknowledged + ambiguous accounting);
      * every data file referenced by a retained snapshot exists;
      * the final table is the serial replay, in the store's order, of exactly the reflected commits; linear chain, strictly
        increasing sequence numbers."""
    if res.deadlock:
        return f"deadlock: {res.deadlock}"
    owners = applied_pointer_writes(res)
    if any(o is None for o in owners):
        return f"the pointer was set to a file no committer of this run wrote (store's pointer history: {owners})"
    for a, oc in sorted(res.outcomes.items()):
        if not a.startswith("A"):
            continue
        n, t = owners.count(a), told(oc)
        if t == "success" and n != 1:
            return (f"{a}'s commit was acknowledged but is reflected {n} time(s) in the version chain (pointer writes the store applied: {owners})")
        if t in ("failed", "noop") and n != 0:
            return (f"{a}'s commit {'raised ' + oc[1] if t == 'failed' else 'reported nothing to do'} -- a definite failure -- yet the store "
                    f"applied its pointer write: the commit is reflected in the version chain (applied: {owners}; outcomes "
                    f"{ {k: told(v) for k, v in sorted(res.outcomes.items()) if k.startswith('A')} })")
        if t == "ambiguous" and n > 1:
            return f"{a}'s commit (reported ambiguous) is reflected {n} times (applied: {owners})"
    if "error" in res.final:
        return f"final table unreadable: {res.final['error']}"
    if res.final.get("missing"):
        return (f"retained snapshots reference data files that no longer exist: {res.final['missing'][:3]} (applied pointer writes {owners}; "
                f"outcomes { {k: told(v) for k, v in sorted(res.outcomes.items()) if k.startswith('A')} })")
    return serial_oracle(case, res, flips=[o for o in owners if o is not None])


def ptr_fault_case(ops: Any, lock: str, victim: str, mode: str, exc: str, nth: int = 1, clock: str = "tick") -> Dict[str, Any]:
    return {"ops": ops, "clock": clock, "topology": "separate", "backend": "s3cas", "lock": lock, "tail_yields": True,
            "s3_fault": {"op": "put_object", "cls": "hint", "actor": victim, "nth": nth, "when": mode, "exc": exc}}


def ptr_fault_runs(ctx, quick: bool) -> List[Tuple[Dict[str, Any], Any, P.CaseResult]]:
    """One request-level fault (not applied / applied, response lost / in flight, landing later; every error kind) at the pointer
    write of either committer, under the real lease lock and under a lock that excludes nobody (conditional writes alone), with
    the OTHER committer's whole commit placed at every step of the faulted one -- before the fault, between the fault and the
    lock release, and between any two of the steps Transaction.commit performs after MetadataManager.commit has returned or
    raised; plus random schedules of three / four committers."""
    runs: List[Tuple[Dict[str, Any], Any, P.CaseResult]] = []
    k = 0
    opsets = OPSETS[:3] if quick else OPSETS
    for oi, ops in enumerate(opsets):
        for victim, other in (("A0", "A1"), ("A1", "A0")):
            for mode in PTR_FAULT_MODES:
                for lock in (("real", "grant_all") if (oi == 0 or not quick) else ("real",)):
                    for nth in ((1,) if quick else (1, 2)):
                        k += 1
                        case = ptr_fault_case(ops, lock, victim, mode, PTR_FAULT_EXCS[k % len(PTR_FAULT_EXCS)], nth)
                        lead = [] if victim == "A0" else [(0, victim)]
                        base = _run(ctx, case, dev_chooser(dict(lead)), tag="c01s")
                        runs.append((case, list(lead), base))
                        seen = {tuple(base.schedule)}
                        last = max([i for i, a in enumerate(base.schedule) if a == victim] + [0])
                        for i in range(1, last + 2):
                            dev = lead + [(i, other)]
                            res = _run(ctx, case, dev_chooser(dict(dev)), tag="c01s")
                            if tuple(res.schedule) in seen:
                                continue
                            seen.add(tuple(res.schedule))
                            runs.append((case, dev, res))
                            if mode == "inflight":
                                # ... and the landing of the request right after the other committer's commit began
                                js = [j for j in range(i + 1, len(res.schedule)) if "L" in res.enabled_at[j] and res.schedule[j] != "L"]
                                for j in js[:1]:
                                    dev2 = dev + [(j, "L")]
                                    r2 = _run(ctx, case, dev_chooser(dict(dev2)), tag="c01s")
                                    if tuple(r2.schedule) not in seen:
                                        seen.add(tuple(r2.schedule))
                                        runs.append((case, dev2, r2))
    for i in range(12 if quick else 300):
        ops = OPSETS3[i % len(OPSETS3)]
        case = ptr_fault_case(ops, ctx.rng.choice(["real", "grant_all"]), f"A{ctx.rng.randrange(len(ops))}", ctx.rng.choice(PTR_FAULT_MODES),
                              ctx.rng.choice(PTR_FAULT_EXCS), nth=ctx.rng.choice([1, 1, 2]), clock=ctx.rng.choice(["tick", "coarse", "frozen"]))
        seed = ctx.rng.randrange(1 << 30)
        res = _run(ctx, case, lambda sc, seed=seed: S.random_chooser(_r.Random(seed), 0.35), tag="c01s")
        runs.append((case, [("random", seed)], res))
    return runs


def _tev(ai: int, k: str) -> str:
    if k.startswith("TSettle"):
        return f"TSettle {ai}%nat"
    if k.startswith("XFlipErr"):
        return f"TX (XFlipErr {ai}%nat {k.split()[1]})"
    if k in ("XUnwind", "XFlipResent", "XReadBack"):
        return f"TX ({k} {ai}%nat)"
    return f"TX (XE {{| e_actor := {ai}%nat; e_kind := {_nat_args(k)} |}})"


def tmodel_expr(case: Dict[str, Any], res: P.CaseResult, events: List[Tuple[int, str]]) -> str:
    n = len(case["ops"])
    kinds = " ".join(f"| {i}%nat => {kind_of(op)[0]}" for i, op in enumerate(case["ops"]))
    maxrs = " ".join(f"| {i}%nat => ({kind_of(op)[1]})%nat" for i, op in enumerate(case["ops"]))
    lu0 = res.initial["meta"]["last_updated_ms"]
    cfgs = "{| cas := true; lockkind := %s |}" % ("GrantAll" if case.get("lock") == "grant_all" else "Lease")
    evs = "[" + "; ".join(_tev(ai, k) for ai, k in events) + "]"
    return (f"match trun_strict (gen_policy true false false) {cfgs} false (tinit (init_world {{| m_ops := []; m_cur := 1; m_lu := {lu0} |}} "
            f"(fun a => match a with {kinds} | _ => KKeep end) (fun a => match a with {maxrs} | _ => 1%nat end))) {evs} 0%nat with "
            f"| inl T => (1, tsummary T {n}%nat) | inr i => (0, (i, [], [], [], [], [], [])) end")


def files_deleted_by_rollback(res: P.CaseResult) -> List[int]:
    """Committers whose transaction deleted data files it had written (Transaction._rollback with delete_files)."""
    out: List[int] = []
    for e in res.log:
        if e["op"] == "delete_file" and P.path_class(e["path"]) == "data" and e["actor"].startswith("A") and int(e["actor"][1:]) not in out:
            out.append(int(e["actor"][1:]))
    return out


def check_ptr_fault_runs(ctx, name: str, runs: List[Tuple[Dict[str, Any], Any, P.CaseResult]]) -> None:
    """Oracle on every faulted run; correspondence with Model/TxSettle.v under the policy read off the regenerated handler table:
    the projected trace (Model/FlipFault.v events) followed by one TSettle per committer whose exception left commit() must be
    accepted event by event, agreeing on final pointer, the store's order of applied writes, outcomes, who failed at the commit
    point, what each of them was told, and whose data files were deleted."""
    exprs, kept, bad = [], [], []
    seen_keys = set()
    fired = {m: 0 for m in PTR_FAULT_MODES}
    told_stats: Dict[str, int] = {}
    for case, dev, res in runs:
        sf = case["s3_fault"]
        ctx.count(1, (name, repr(case["ops"]), case.get("lock"), repr(sorted(sf.items())), tuple(res.schedule)))
        for e in res.log:
            if e.get("s3_fault") in fired:
                fired[e["s3_fault"]] += 1
                t = told(res.outcomes[e["actor"]])
                told_stats[t] = told_stats.get(t, 0) + 1
        why = ptr_fault_oracle(case, res)
        if why:
            key = (f"commit-point-fault:{sf['when']}:{case.get('lock')}:"
                   + "+".join(o["kind"] + ("-" + o["which"] if "which" in o else "") for o in case["ops"]))
            if key not in seen_keys:
                seen_keys.add(key)
                ctx.violation(key, why, {"case": _case_json(case), "deviations": list(dev), "schedule": res.schedule, "outcomes": res.outcomes})
        try:
            events, vids, _notes = P.project(res, len(case["ops"]), cas=True, lease=(case.get("lock", "real") == "real"), faults=True)
        except P.Nonconforming as e:
            bad.append({"case": _case_json(case), "deviations": list(dev), "schedule": res.schedule, "nonconforming": str(e)})
            continue
        settled = [ai for ai, k in events if k == "XUnwind"]
        events = events + [(ai, "TSettle") for ai in settled]
        exprs.append(tmodel_expr(case, res, events))
        kept.append((case, dev, res, events, vids, settled))
    vals = coqbuild.coq_eval(TREQ, exprs, chunk=60) if exprs else []
    for (case, dev, res, events, vids, settled), val in zip(kept, vals):
        ok, (ptr_or_idx, _ops_final, hist, codes, failed, reps, deleted) = val
        if ok != 1:
            i = ptr_or_idx
            bad.append({"case": _case_json(case), "deviations": list(dev), "schedule": res.schedule, "rejected_event_index": i,
                        "event": events[i] if i < len(events) else None, "events": events[:i + 1][-8:]})
            continue
        owners = [int(o[1:]) for o in applied_pointer_writes(res) if o]
        final_vid = vids.get(res.final.get("pointer"), -1)
        exp_reps = []
        for i in range(len(case["ops"])):
            t = told(res.outcomes[f"A{i}"])
            exp_reps.append({"success": 1, "failed": 2, "ambiguous": 3, "noop": 2}[t] if i in settled else 0)
        exp_deleted = sorted(a for a in files_deleted_by_rollback(res) if a in settled)
        if (ptr_or_idx != final_vid or [a for (_v, a) in hist] != owners or list(reps) != exp_reps or sorted(deleted) != exp_deleted
                or sorted(failed) != sorted(settled)):
            bad.append({"case": _case_json(case), "deviations": list(dev), "schedule": res.schedule,
                        "model": {"ptr": ptr_or_idx, "hist": hist, "codes": codes, "failed": failed, "told": reps, "files_deleted": deleted},
                        "impl": {"ptr": final_vid, "applied": owners, "failed": settled, "told": exp_reps, "files_deleted": exp_deleted,
                                 "outcomes": res.outcomes}})
    ctx.stats["commit_point_faults_fired"] = fired
    ctx.stats["commit_point_fault_schedules"] = len(runs)
    ctx.stats["faulted_committer_was_told"] = told_stats
    ctx.stats["other_writer_committed_after_fault"] = sum(
        1 for _c, _d, r in runs if _other_committed_after_fault(r))
    ctx.correspondence(name, len(runs), bad)


def _other_committed_after_fault(res: P.CaseResult) -> bool:
    """Did another committer's pointer write land after the faulted pointer write and before the faulted committer finished?"""
    victim, seen = None, False
    last_of: Dict[str, int] = {}
    for i, e in enumerate(res.log):
        last_of[e["actor"]] = i
    for i, e in enumerate(res.log):
        if e.get("s3_fault"):
            victim = e["actor"]
        elif victim and e["actor"] != victim and e["op"] in ("write_file", "write_file_cas") and P.path_class(e["path"]) == "hint" \
                and e["result"] == "ok" and i < last_of.get(victim, -1):
            seen = True
    return seen

# ---------------------------------------------------------------------------------------------------- driver
def check_runs(ctx, name: str, runs: List[Tuple[Dict[str, Any], Any, P.CaseResult]]) -> None:
    exprs, kept = [], []
    bad = []
    lbad = []
    for case, dev, res in runs:
        ctx.count(1, (name, repr(case["ops"]), case.get("clock"), case.get("topology"), repr(case.get("procs")), repr(case.get("fork")),
                      tuple(res.schedule)))
        why = serial_oracle(case, res)
        if why:
            where = _where(case) + (case["config"] + ":" if case.get("config") else "")
            ctx.violation(f"not-serializable:{where}{case.get('clock', 'tick')}:{'+'.join(o['kind'] + ('-' + o['which'] if 'which' in o else '') for o in case['ops'])}",
                          why, {"case": _case_json(case), "deviations": list(dev), "schedule": res.schedule, "outcomes": res.outcomes})
        # ---- lock layer (local filesystem): the primitives on the lock file against Model/ProcLock.v
        lexpr, opens = None, 0
        if case.get("backend", "local") == "local" and case.get("lock", "real") == "real" and getattr(res, "locklog", None) is not None:
            try:
                lexpr, opens = project_locks(res)
                dis = lock_attempts_agree(res)
                if dis:
                    lbad.append({"case": _case_json(case), "schedule": res.schedule, "disagreement": dis})
            except P.Nonconforming as e:
                lbad.append({"case": _case_json(case), "schedule": res.schedule, "nonconforming": str(e)})
        try:
            events, vids, _notes = project_with_kills(res, len(case["ops"]), cas=(case.get("backend") == "s3cas"),
                                                      lease=(case.get("backend") == "s3cas" and case.get("lock", "real") == "real"))
        except P.Nonconforming as e:
            bad.append({"case": _case_json(case), "schedule": res.schedule, "nonconforming": str(e)})
            events, vids = None, {}
        cexpr = model_expr(case, res, events) if events is not None else None
        if cexpr is None and lexpr is None:
            continue
        exprs.append(f"({cexpr or '0'}, {lexpr or '0'})")
        kept.append((case, dev, res, events, vids, cexpr is not None, lexpr is not None, opens))
    vals = coqbuild.coq_eval(REQ, exprs, chunk=60) if exprs else []
    nlock = 0
    for (case, dev, res, events, vids, has_c, has_l, opens), val in zip(kept, vals):
        # Coq prints pairs left-nested: ((ok, summary), lock) arrives as (ok, summary, lock)
        if has_c:
            cval, lval = (val[0], val[1]), val[2]
        else:
            cval, lval = None, val[1]
        if has_l:
            nlock += 1
            lok, (view, nxt, still_open) = lval
            if lok != 1:
                lbad.append({"case": _case_json(case), "schedule": res.schedule, "rejected_lock_event_index": nxt,
                             "events": [(e["actor"], e["pid"], e["prim"], e["ok"]) for e in res.locklog[max(0, nxt - 6):nxt + 1]],
                             "why": "the kernel's answer to this primitive (or its order in the handle's program) is not the lock layer's"})
            elif not res.deadlock and (view is not None or nxt != opens or still_open != 0):
                lbad.append({"case": _case_json(case), "schedule": res.schedule,
                             "model_final": {"holder": view.x if isinstance(view, Some) else view, "opened": nxt, "still_open": still_open},
                             "impl_final": {"holder": None, "opened": opens, "still_open": 0}})
        if not has_c:
            continue
        ok, (ptr_or_idx, ops_final, hist, codes) = cval
        if ok != 1:
            i = ptr_or_idx
            bad.append({"case": _case_json(case), "schedule": res.schedule, "rejected_event_index": i,
                        "event": events[i] if i < len(events) else None, "events": events[:i + 1][-8:]})
            continue
        final_vid = vids.get(res.final.get("pointer"), -1)
        flips = [int(e["actor"][1:]) for e in res.log if e["op"] in ("write_file", "write_file_cas") and P.path_class(e["path"]) == "hint" and e["result"] == "ok"]
        exp_codes = [1 if res.outcomes[f"A{i}"][0] == "ok" and res.outcomes[f"A{i}"][1] != "noop" else
                     (2 if "ConcurrentModification" in res.outcomes[f"A{i}"][1] else
                      (4 if res.outcomes[f"A{i}"][1].startswith("ProcessKilled") else 0)) for i in range(len(case["ops"]))]
        if ptr_or_idx != final_vid or [a for (_v, a) in hist] != flips or list(codes) != exp_codes:
            bad.append({"case": _case_json(case), "schedule": res.schedule, "model": {"ptr": ptr_or_idx, "hist": hist, "codes": codes},
                        "impl": {"ptr": final_vid, "flips": flips, "codes": exp_codes, "outcomes": res.outcomes}})
    ctx.correspondence(name, len(runs), bad)
    if nlock or lbad:
        ctx.correspondence("lock-layer", nlock + sum(1 for d in lbad if "nonconforming" in d), lbad)
        ctx.stats["lock_layer_traces"] = nlock
        ctx.stats["lock_layer_primitives"] = sum(len(getattr(r, "locklog", None) or []) for _c, _d, r in runs)
        ctx.stats["lock_attempts_refused"] = sum(1 for _c, _d, r in runs for e in (getattr(r, "locklog", None) or [])
                                                 if e["prim"] == "trylock" and e["ok"] is False)


def _case_json(case: Dict[str, Any]) -> Dict[str, Any]:
    return {k: v for k, v in case.items() if k not in ("yield_filter", "injectors")}


def run(ctx) -> None:
    ctx.rule = ("schedules of 2-4 committers at protocol yield points (pointer reads, lock attempts, validation, metadata-file "
                "write, fence, flip, release, marker cleanup, retry sleep), enumerated with bounded preemptions and sampled at "
                "random; x {separate, shared handle} x clock {tick, coarse, frozen} x operation mixes "
                "(append / expire / delete-snapshot old|current) x process topology {all committers threads of one process; "
                "committers placed in 2-3 OS processes: several handles in one process next to handles in others, one process per "
                "handle, shared or separate handles per process} with contention scripts (one committer parked inside its critical "
                "section while every other tries the lock, all placements and orders), release-window scripts at the granularity of "
                "every lock-file primitive (one committer between the unlock and the close of its release while another takes the "
                "lock), a process killed inside its critical section, process FAMILIES (a parent that has used its handle forks "
                "1-2 workers; parent + worker, two workers, two threads of one worker + another worker; one inherited handle shared by "
                "the family or one handle per committer) with contention scripts and bounded-preemption enumeration, "
                "bounded-preemption enumeration and random schedules over the spawned placements; "
                "conditional-write S3 (real lease lock / no exclusion) with one request-level fault at either committer's pointer PUT "
                "{not applied, applied + response lost, in flight + landing later} x error kind x the other committer's whole commit at every "
                "step of the faulted committer (every storage operation after the lock release is a scheduling point) + random schedules of "
                "3-4 committers; table configuration x history length: write.metadata.previous-versions-max / datashard.snapshot.retention-count set "
                "to small bounds b, history of b-1 / b / b+2 versions (>= 3 snapshots), metadata-only commits with different effects "
                "(delete second-oldest / delete oldest / expire oldest) racing each other and appends, bounded-preemption enumeration; "
                "distinct = distinct executed schedule per case")
    ctx.trusted_base += [
        "harness/lib/sched.py + protocol.py: deterministic scheduler, projection of the storage log onto Model/Commit.v events",
        "harness/lib/procsched.py: worker processes stepped over pipes (same yield points, merged log); process families created by os.fork() "
        "from a clean fork-server process, requests relayed down the family's pipes",
        "kernel flock semantics as modelled in Model/ProcLock.v (compared with the real kernel's answers on every run); write-once metadata files",
        "harness/lib/mems3.py (strongly consistent in-memory S3 with If-Match / If-None-Match) + the request-level fault injector of protocol.py",
    ]
    ctx.assumptions += ["pointer intact (C10 covers damaged pointers)", "no garbage collection concurrent with commits (C06)",
                        "a conditional pointer write that the store applied and then refused to the writer's face (412 for the SDK's re-sent copy) "
                        "is read back PROMPTLY: no other pointer write lands between the landing and the read-back (Model/FlipFault.v prompt machine; "
                        "C01_conflict_not_reflected_partial; on every schedule the statement is false, C01_conflict_not_reflected_refuted: a second "
                        "committer supersedes the applied version, the read-back sees the successor's name and the first committer is told 'conflict')",
                        "workers are forked while the parent's table handle is idle (between commits), not from inside a commit "
                        "(forks_quiescent in the lock-layer theorems, all named _partial; C01_lock_exclusive_refuted is the refutation without it)",
                        "the lock file stays one inode for the life of the table (translator/gen_filelock.py _single_inode, fail-closed)",
                        "C01_snapshot_chain: distinct committers draw distinct positive snapshot ids and metadata-file names (uuid4)"]
    ctx.proofs(THEOREMS, gen_files=["GenCommit.v", "GenFileLock.v"])
    ctx.allow_axioms([])
    quick = ctx.tier == "quick"
    import time as _t
    _t0 = _t.time()
    ctx.stats["phase_s"] = {}

    def _mark(name: str) -> None:
        nonlocal _t0
        ctx.stats["phase_s"][name] = round(_t.time() - _t0, 1)
        _t0 = _t.time()
    _mark("proofs")
    runs: List[Tuple[Dict[str, Any], Any, P.CaseResult]] = []
    # 1. enumerated schedules, 2 committers, frozen clock first (the adversarial one), then tick
    for clock in (["frozen", "tick"] if quick else ["frozen", "coarse", "tick"]):
        for ops in OPSETS:
            case = {"ops": ops, "clock": clock, "topology": "separate"}
            lim = 40 if quick else 400
            for dev, res in explore(ctx, case, 2 if quick else 3, lim):
                runs.append((case, dev, res))
    # 2. shared-handle topology
    for ops in OPSETS[:3] if quick else OPSETS:
        case = {"ops": ops, "clock": "frozen", "topology": "shared"}
        for dev, res in explore(ctx, case, 1 if quick else 2, 8 if quick else 120):
            runs.append((case, dev, res))
    # 3. random schedules, 3-4 committers
    nrand = 12 if quick else 400
    for i in range(nrand):
        ops = OPSETS3[i % len(OPSETS3)]
        case = {"ops": ops, "clock": ctx.rng.choice(["frozen", "coarse", "tick"]), "topology": ctx.rng.choice(["separate", "shared"])}
        seed = ctx.rng.randrange(1 << 30)
        res = _run(ctx, case, lambda sc, seed=seed: S.random_chooser(_r.Random(seed), 0.35), tag="c01r")
        runs.append((case, [("random", seed)], res))
    # 4. the file lock at open / flock granularity: lock hand-off among three committers (local backend)
    hand = [o for o in OPSETS3 if len(o) == 3][:1] + [[{"kind": "append", "rows": [{"x": 100 * (i + 1)}]} for i in range(3)]]
    for ops in hand:
        case = {"ops": ops, "clock": "tick", "topology": "separate", "fine_locks": True}
        scripts = lock_handoff_scripts(3)
        for sc_ in (scripts if not quick else scripts[::2]):
            res = _run(ctx, case, script_chooser(sc_), tag="c01h")
            runs.append((case, [("script", sc_)], res))
    # 4c. table configuration x history length (see config_histories): metadata-only commits racing each other and appends on
    #     tables whose bounded structures (metadata log, retained snapshots) are below / at / beyond their configured bound
    for label, pre in config_histories(quick):
        for oi, ops in enumerate(OPSETS_CFG):
            if quick and oi >= 2 and not label.startswith(("logcap2", "retain")):
                continue
            case = {"ops": ops, "clock": "tick" if oi % 2 == 0 else "frozen", "topology": "separate", "prehistory": pre, "config": label}
            for dev, res in explore(ctx, case, 1 if quick else 2, 6 if quick else 60):
                runs.append((case, dev, res))
    ctx.stats["config_history_schedules"] = sum(1 for c, _d, _r in runs if c.get("config"))
    ctx.stats["config_histories"] = [l for l, _p in config_histories(quick)]
    _mark("in-process schedules")
    # 4b. ... and at the granularity of every primitive on the lock file: the window inside release()
    for ops in hand[1:]:
        case = {"ops": ops, "clock": "tick", "topology": "separate", "fine_locks": "all"}
        scripts = release_window_scripts(3, ["flip", "metaw"])
        for sc_ in scripts:
            res = _run(ctx, case, script_chooser(sc_), tag="c01w")
            runs.append((case, [("script", sc_)], res))
    _mark("release-window schedules")
    # 5. PROCESS TOPOLOGIES (local filesystem): the committers are placed in OS processes -- several handles in one process
    #    next to handles in other processes, one process per handle -- and driven by the same deterministic scheduler
    try:
        # 5a. contention inside the critical section: X parked before its metadata write / fence / flip / release, every
        #     other committer then tries the lock (in every order), for every placement of X, Y, Z in the processes
        stops = ["flip", "metaw"] if quick else ["flip", "metaw", "fence", "release"]
        for ops in hand:
            for procs in PROC_TOPOLOGIES[3]:
                for handles in (["separate"] if quick else ["separate", "shared"]):
                    case = {"ops": ops, "clock": "tick", "topology": handles, "procs": procs}
                    for sc_ in contention_scripts(3, stops):
                        res = _run(ctx, case, script_chooser(sc_), tag="c01t")
                        runs.append((case, [("script", sc_)], res))
        # 5a'. the release window across processes
        for procs in PROC_TOPOLOGIES[3][:2 if quick else 3]:
            case = {"ops": hand[1], "clock": "tick", "topology": "separate", "procs": procs, "fine_locks": "all"}
            scripts = release_window_scripts(3, ["flip"] if quick else ["flip", "metaw"])
            for sc_ in scripts:
                res = _run(ctx, case, script_chooser(sc_), tag="c01t")
                runs.append((case, [("script", sc_)], res))
        # 5d. a process dies inside its critical section (SIGKILL of the worker, after the fence / before the flip): the kernel
        #      drops its lock, the others commit; the dead committer is not reflected
        for procs, victim in (([[0, 1], [2]], "A2"), ([[0], [1, 2]], "A1")) if quick else \
                (([[0, 1], [2]], "A2"), ([[0], [1, 2]], "A1"), ([[0], [1, 2]], "A2"), ([[0], [1], [2]], "A1")):
            for stop in ("flip", "fence"):
                case = {"ops": hand[1], "clock": "tick", "topology": "separate", "procs": procs, "kill": {"actor": victim, "stop": stop}}
                res = _run(ctx, case, dev_chooser({}), tag="c01k")
                runs.append((case, [], res))
        # 5e. process FAMILIES: the parent has used its handle, then forks its workers; parent and workers (or the workers among
        #      themselves) commit through the handle they share by inheritance.  Contention scripts: X parked inside its critical
        #      section (before its metadata write / pointer flip), every other committer of the family then runs as far as it
        #      gets, in every order; plus a bounded-preemption enumeration for the two-committer families
        two = [OPSETS[0], OPSETS[2]] if quick else OPSETS
        for fam in FORK_FAMILIES[2]:
            for ops in (two[:1] if fam["handles"] == "own" else two):
                case = {"ops": ops, "clock": "tick", "topology": "shared", "procs": [[], [0, 1]], "fork": fam}
                for sc_ in contention_scripts(2, stops):
                    res = _run(ctx, case, script_chooser(sc_), tag="c01f")
                    runs.append((case, [("script", sc_)], res))
        for fam in FORK_FAMILIES[3]:
            case = {"ops": hand[1], "clock": "tick", "topology": "shared", "procs": [[], [0, 1, 2]], "fork": fam}
            for sc_ in contention_scripts(3, stops[:1] if quick else stops):
                res = _run(ctx, case, script_chooser(sc_), tag="c01f")
                runs.append((case, [("script", sc_)], res))
        for fam in FORK_FAMILIES[2][:2]:
            case = {"ops": OPSETS[1], "clock": "frozen", "topology": "shared", "procs": [[], [0, 1]], "fork": fam}
            for dev, res in explore(ctx, case, 2, 6 if quick else 40):
                runs.append((case, dev, res))
        # 5b. two committers in two processes (and both in one worker process): bounded-preemption enumeration
        for ops in (OPSETS[:4] if quick else OPSETS):
            for procs in PROC_TOPOLOGIES[2][:1 if quick else 2]:
                case = {"ops": ops, "clock": "frozen", "topology": "separate", "procs": procs}
                for dev, res in explore(ctx, case, 2, 10 if quick else 150):
                    runs.append((case, dev, res))
        # 5c. random schedules over random placements of 3-4 committers
        for i in range(8 if quick else 200):
            ops = OPSETS3[i % len(OPSETS3)]
            case = {"ops": ops, "clock": ctx.rng.choice(["frozen", "coarse", "tick"]), "topology": ctx.rng.choice(["separate", "separate", "shared"]),
                    "procs": ctx.rng.choice(PROC_TOPOLOGIES[len(ops)])}
            seed = ctx.rng.randrange(1 << 30)
            res = _run(ctx, case, lambda sc, seed=seed: S.random_chooser(_r.Random(seed), 0.35), tag="c01q")
            runs.append((case, [("random", seed)], res))
    finally:
        _close_pool()
    _mark("process-topology schedules")
    ctx.stats["process_topology_schedules"] = sum(1 for c, _d, _r in runs if c.get("procs") is not None)
    ctx.stats["process_topologies"] = sorted({repr(c["procs"]) + "/" + c.get("topology", "separate") for c, _d, _r in runs
                                              if c.get("procs") is not None and not c.get("fork")})
    ctx.stats["fork_family_schedules"] = sum(1 for c, _d, _r in runs if c.get("fork"))
    ctx.stats["fork_families"] = sorted({_where(c) for c, _d, _r in runs if c.get("fork")})
    ctx.stats["workers_forked"] = sum(1 for _c, _d, r in runs for e in getattr(r, "locklog", []) if e["prim"] == "fork")
    harness_trouble = [r.deadlock for _c, _d, r in runs if r.deadlock and r.deadlock.startswith("harness:")]
    if harness_trouble:
        ctx.proof_problems.append("process-topology harness: " + harness_trouble[0][:600])
    ctx.stats["lock_handoff_schedules"] = sum(1 for c, d, _r in runs if d and d[0][0] == "script" and c.get("fine_locks") is True)
    ctx.stats["release_window_schedules"] = sum(1 for c, d, _r in runs if d and d[0][0] == "script" and c.get("fine_locks") == "all")
    ctx.stats["contention_script_schedules"] = sum(1 for c, d, _r in runs if d and d[0][0] == "script" and c.get("procs") is not None and not c.get("fine_locks"))
    ctx.stats["schedules"] = len(runs)
    ctx.stats["process_deaths"] = sum(1 for _c, _d, r in runs for e in getattr(r, "locklog", []) if e["prim"] == "kill")
    ctx.stats["runs_cut_by_deadlock"] = sum(1 for _c, _d, r in runs if r.deadlock)
    ctx.stats["conflict_retries_observed"] = sum(1 for _c, _d, r in runs for e in r.log if e["op"] == "Sleep")
    ctx.stats["by_clock"] = {c: sum(1 for k, _d, _r in runs if k["clock"] == c) for c in ("frozen", "coarse", "tick")}
    if runs:
        c, d, r = runs[len(runs) // 2]
        ctx.sample({"case": _case_json(c), "schedule": r.schedule, "outcomes": r.outcomes})
    try:
        check_runs(ctx, "commit-trace", runs)
    except RuntimeError as e:
        ctx.proof_problems.append("model evaluation failed: " + str(e)[:800])
    _mark("oracles + model evaluation")
    # 6. STORAGE FAULTS AT THE COMMIT POINT (conditional-write S3) x schedules: the pointer write of one committer fails -- not
    #    applied / applied, response lost / in flight and landing later -- and another writer runs to completion at every step of
    #    the faulted committer, including the steps Transaction.commit performs after MetadataManager.commit returned or raised
    fruns = ptr_fault_runs(ctx, quick)
    _mark("commit-point fault schedules")
    try:
        check_ptr_fault_runs(ctx, "commit-point-fault-trace", fruns)
    except RuntimeError as e:
        ctx.proof_problems.append("model evaluation failed (commit-point faults): " + str(e)[:800])
    _mark("commit-point fault oracles + model evaluation")


def replay(ctx, payload) -> int:
    case = payload.get("case", {}).get("case")
    if not case:
        print("replay: no concrete case in payload")
        return 2
    dev = payload["case"].get("deviations", [])
    try:
        if dev and dev[0][0] == "script":
            res = _run(ctx, case, script_chooser([tuple(x) for x in dev[0][1]]), tag="replay")
        elif dev and dev[0][0] == "random":
            res = _run(ctx, case, lambda sc: S.random_chooser(_r.Random(dev[0][1]), 0.35), tag="replay")
        else:
            res = _run(ctx, case, dev_chooser({int(i): a for i, a in dev}), tag="replay")
    finally:
        _close_pool()
    why = ptr_fault_oracle(case, res) if case.get("s3_fault") else serial_oracle(case, res)
    print("replay:", "STILL FAILS: " + why if why else "passes now")
    return 1 if why else 0
