"""C08 -- A stale lock holder or delayed pointer write cannot lose an update on S3.

Proof      : coq/Props/C08.v over Model/Commit.v with cas = true and NO hypothesis on the lock
             (lockkind Excl, Lease with arbitrary steal events, or GrantAll): the flip replaces exactly the
             version the committer validated (C08_ack_implies_validated), hence the chain/serializability
             theorems; a committer whose lease was taken away before the fence gets a conflict, never success.
Tie        : trace validation of the real S3StorageBackend + MetadataManager.commit over an in-memory S3
             with conditional writes (harness/lib/mems3.py), under the scheduler, with a lock that grants
             everyone; the projection demands that the validation read IS the read that yields the ETag.
Oracle     : the serializability oracle of C01 on every explored schedule.
"""
from __future__ import annotations

from typing import Any, Dict, List, Tuple

from harness.lib import protocol as P, sched as S
from harness.props import c01

LEVEL = "proof"
THEOREMS = ["C08_ack_implies_validated", "C08_no_lost_update", "C08_fence", "C08_stolen_never_success",
            "C08_cas_path_regenerated"]
MANIFEST_ENTRY = {
    "level_text": "For CAS storage and ANY lock behaviour (exclusive, lease with arbitrary takeovers, or no exclusion at all) Coq "
                  "proves that every acknowledged flip replaced exactly the version its committer validated, so the committed "
                  "versions form one chain (no lost update), and that a committer whose lease was taken before the fence ends in "
                  "a retryable conflict; real S3StorageBackend / MetadataManager code is trace-validated against the model over an "
                  "in-memory conditional-write S3 under a deterministic scheduler with a grant-everyone lock",
    "level_note": "trusted: Coq kernel; translator/gen_commit.py (single ETag-bearing pointer read before validation, failure classes of the conditional write: C08_cas_path_regenerated); harness projection (validation read must be the ETag read); in-memory S3 is strongly "
                  "consistent with atomic conditional PUT (the property's premise); in-flight PUT delay = interleaving before the "
                  "atomic landing; the real S3 lease lock is exercised by C19",
    "technique": "Coq invariant proof (CAS, arbitrary lock) over translator-regenerated kernels + trace validation over a fake conditional-write S3",
    "design_ref": "DESIGN.md section 5 C08",
}


def run(ctx) -> None:
    ctx.rule = ("schedules of 2-3 committers at storage-operation granularity on S3StorageBackend over an in-memory "
                "conditional-write S3, (a) with a lock granting everyone, (b) with the real S3LockProvider (one attempt per "
                "scheduler step) and a clock actor jumping past the 60 s lease at every point of a commit (lease lapse, takeover, "
                "stale holder resuming); bounded-preemption enumeration + directed + random; distinct = executed schedule")
    ctx.trusted_base += ["harness/lib/sched.py, protocol.py, mems3.py (strongly consistent in-memory S3 with If-Match / If-None-Match)"]
    ctx.assumptions += ["conditional PUT is atomic and the store is strongly consistent (property premise)"]
    ctx.proofs(THEOREMS, gen_files=["GenCommit.v"])
    ctx.allow_axioms([])
    quick = ctx.tier == "quick"
    runs: List[Tuple[Dict[str, Any], Any, P.CaseResult]] = []
    for ops in c01.OPSETS[:4] if quick else c01.OPSETS:
        for clock in (["tick"] if quick else ["tick", "frozen"]):
            case = {"ops": ops, "clock": clock, "topology": "separate", "backend": "s3cas", "lock": "grant_all"}
            for dev, res in c01.explore(ctx, case, 2 if quick else 3, 45 if quick else 500):
                runs.append((case, dev, res))
            # the same, with the store answering a lost conditional PUT by 409 ConditionalRequestConflict (a conflicting
            # write landed while the request was in flight) instead of 412: both mean "not written"
            case9 = dict(case, s3_conflict="409")
            for dev, res in c01.explore(ctx, case9, 2 if quick else 3, 25 if quick else 300):
                runs.append((case9, dev, res))
    # the real conditional-write lease lock: a clock actor jumps 61 s (lease 60 s), so that a paused holder's lock lapses
    # and is taken over; directed schedules put the jump + the other committer's whole commit at every point of A0's commit
    for ops in c01.OPSETS[:2] if quick else c01.OPSETS[:4]:
        case = {"ops": ops, "clock": "tick", "topology": "separate", "backend": "s3cas", "lock": "real",
                "clock_actor": {"jumps": 1, "ms": 61000}}
        base = P.run_case(ctx.scratch, c01._fix_case(case), c01.dev_chooser({}), tag="c08l")
        n0 = sum(1 for a in base.schedule if a == "A0")
        for i in range(1, n0 + 1):
            dev = ((i, "K"), (i + 1, "K"), (i + 2, "A1"))
            res = P.run_case(ctx.scratch, c01._fix_case(case), c01.dev_chooser(dict(dev)), tag="c08l")
            runs.append((case, dev, res))
        for dev, res in c01.explore(ctx, case, 2, 15 if quick else 300):
            runs.append((case, dev, res))
    ctx.stats["lease_takeovers_observed"] = sum(1 for c, _d, r in runs if c.get("lock") == "real"
                                                for e in r.log if e["op"] == "Fence" and e["result"] is False)
    import random as _r
    for i in range(10 if quick else 300):
        ops = c01.OPSETS3[i % len(c01.OPSETS3)]
        case = {"ops": ops, "clock": ctx.rng.choice(["tick", "coarse", "frozen"]), "topology": "separate", "backend": "s3cas", "lock": "grant_all",
                "s3_conflict": ctx.rng.choice(["412", "409", "alt"])}
        seed = ctx.rng.randrange(1 << 30)
        res = P.run_case(ctx.scratch, c01._fix_case(case), lambda sc, seed=seed: S.random_chooser(_r.Random(seed), 0.4), tag="c08r")
        runs.append((case, [("random", seed)], res))
    # implementation-level statement of "a committer that lost its lock before the commit point reports a retryable
    # conflict, never success": with the real lease lock, once another committer has taken the lock over, the fence of the
    # previous holder (its is_held() just before the pointer write) must answer False -- judged on the storage log alone
    stolen_fences = 0
    for case, dev, res in runs:
        if case.get("lock") != "real":
            continue
        holder = None
        lost: Dict[str, bool] = {}
        for e in res.log:
            a, op = e["actor"], e["op"]
            if op == "LockTry" and e["result"] == "ok":
                if holder is not None and holder != a:
                    lost[holder] = True          # taken over while the previous holder had not released
                holder = a
                lost[a] = False
            elif op == "LockRel" and holder == a:
                holder = None
            elif op == "Fence" and lost.get(a):
                stolen_fences += 1
                if e["result"]:
                    ctx.violation("fence-passed-after-takeover",
                                  f"{a}'s lock was taken over by another committer, yet its fence (is_held() before the pointer write) answered "
                                  f"True: a committer that lost its lock goes on to the commit point",
                                  {"case": c01._case_json(case), "deviations": list(dev), "schedule": res.schedule, "outcomes": res.outcomes})
    ctx.stats["fences_after_takeover_observed"] = stolen_fences
    ctx.stats["schedules"] = len(runs)
    ctx.stats["cas_conflicts_observed"] = sum(1 for _c, _d, r in runs for e in r.log if e["op"] == "write_file_cas" and e["result"] != "ok")
    if runs:
        c, d, r = runs[len(runs) // 3]
        ctx.sample({"case": c01._case_json(c), "schedule": r.schedule, "outcomes": r.outcomes})
    try:
        c01.check_runs(ctx, "s3cas-trace", runs)
    except RuntimeError as e:
        ctx.proof_problems.append("model evaluation failed: " + str(e)[:800])


def _fence_after_takeover(res: P.CaseResult) -> List[str]:
    holder = None
    lost: Dict[str, bool] = {}
    out: List[str] = []
    for e in res.log:
        a, op = e["actor"], e["op"]
        if op == "LockTry" and e["result"] == "ok":
            if holder is not None and holder != a:
                lost[holder] = True
            holder = a
            lost[a] = False
        elif op == "LockRel" and holder == a:
            holder = None
        elif op == "Fence" and lost.get(a) and e["result"]:
            out.append(a)
    return out


def replay(ctx, payload) -> int:
    if str(payload.get("key", "")).startswith("fence-passed-after-takeover"):
        c = payload["case"]
        res = P.run_case(ctx.scratch, c01._fix_case(c["case"]), c01.dev_chooser({int(i): a for i, a in c.get("deviations", [])}), tag="replay")
        bad = _fence_after_takeover(res)
        print("replay:", f"STILL FAILS: fence answered True after a takeover for {bad}" if bad else "passes now")
        return 1 if bad else 0
    return c01.replay(ctx, payload)
