"""C08 -- A stale lock holder or delayed pointer write cannot lose an update on S3.

Proof      : coq/Props/C08.v over Model/Commit.v with cas = true and NO hypothesis on the lock
             (lockkind Excl, Lease with arbitrary steal events, or GrantAll): the flip replaces exactly the
             version the committer validated (C08_ack_implies_validated), hence the chain/serializability
             theorems.  Second sentence of the property, over SCHEDULES (Proofs/LostLockProofs.v): a committer whose lease
             lapses while it is inside commit() before its fence adds nothing to the pointer history for any continuation of
             the schedule, and the first step that takes it out of the pre-fence states leaves it in PConflict (retryable
             conflict) or ends the call without a pointer write (C08_lost_lock_before_fence_conflict).  A lapse AFTER the
             fence can still be acknowledged -- harmless on CAS storage, and said so (C08_lapse_after_fence_example).
             Model/FlipFault.v adds the FAILING pointer write: the conditional PUT raises an error that is not the
             store's refusal, applied by the store or not, anywhere in any interleaving (a request landing after its
             client gave up = the same event later in the schedule: C08_delayed_landing_nonvacuous); the committer's
             reaction is computed from the regenerated tables gen_flip_exn / gen_tx_on
             (C08_failed_flip_reaction_regenerated); the chain theorems hold for every such schedule
             (C08_faulted_no_lost_update_partial: over the machine in which no pointer write lands while a read-back is pending) and a committer whose pointer write raised is never acknowledged, whatever the
             pointer says afterwards (C08_failed_write_never_acknowledged).
             The store REFUSES a write it has APPLIED (XFlipResent: botocore's default retry policy re-sends a PutObject whose
             response was lost; the re-sent copy of the conditional request answers 412/409 because the first one landed): what
             the commit point does about a refusal is regenerated (gen_refused_reads_back, gen_write_landed:
             C08_refusal_read_back_regenerated -- it reads the pointer back and compares its content with its OWN file name, never a
             version number); "an attempt is at / past its commit point iff the store applied its write, nobody is told
             'conflict' about an applied write" is proved for every schedule in which no pointer write lands between the
             refused-although-applied write and its read-back (C08_acknowledged_iff_applied_partial) and refuted without that
             hypothesis (C08_acknowledged_iff_applied_refuted: a successor's name tells the read-back nothing).  The
             failing-write theorems are stated over the same machine (identical to the unrestricted one on schedules without such
             writes: prompt_irrelevant_without_pending).
             Model/PtrFallback.v is commit()'s FALLBACK: the pointer object read with the ETag is unusable (absent / garbage /
             dangling), `current = self.refresh()` re-reads it and recovers by scanning; damage events anywhere.
             The store compares only what it can see of an unusable object (rstep_s idn: "absent" = create-if-absent, ONE identity;
             garbled = the ETag of the content, S3: its MD5).  Every applied pointer write replaced exactly the object STATE whose
             ETag its committer had read, and the version validated is the one named by those bytes or -- unusable object -- the one
             recovered by the scan, never that of a pointer repaired in between: proved under the exact hypothesis that no two
             damage events leave the same store-visible object (C08_fallback_replaced_what_it_read_partial), refuted for an
             absent pointer deleted twice and for the same garbage written twice within one attempt
             (C08_fallback_replaced_what_it_read_refuted; reproduced on the real code: needs an outside agent destroying the
             pointer twice the same way during one commit attempt -- outside the property's schedules, no library repair).  "No
             acknowledged commit is overwritten" on that path is FALSE for arbitrary scan results and for the double damage
             (C08_fallback_no_lost_update_refuted: witnesses by computation) and proved under the two exact extra hypotheses:
             every scan returns the version named by the last successful pointer write (C10's subject; the residual is the
             event of C10_leftover_surfaces) and damaged objects are pairwise distinguishable (C08_fallback_no_lost_update_partial).
             PROCESS TOPOLOGY / NAME UNIQUENESS is established by the check, not assumed: see Oracle.
Tie        : trace validation of the real S3StorageBackend + MetadataManager.commit over an in-memory S3
             with conditional writes (harness/lib/mems3.py), under the scheduler, with a lock that grants
             everyone and with the real lease lock; the projection demands that the validation read IS the read
             that yields the ETag.  Faulted runs (one request-level failure of a committer's pointer PUT: not applied /
             applied, response lost / in flight and landing at a scheduling point of its own / applied and the SDK's re-sent
             copy refused; timeouts, connection errors, 5xx, 412/409) are projected onto Model/FlipFault.v and must be accepted by xrun_strict, agreeing on final
             pointer, the store's order of applied writes, outcomes and who failed.  Runs that START on an unusable pointer
             (missing / garbage / dangling / empty) are projected onto Model/PtrFallback.v (base reads by scanning, the
             unusable ETag read, the fallback refresh -- still unusable or repaired meanwhile --, the conditional write keyed to
             the unusable object) and must be accepted by rrun_strict, agreeing on final pointer, applied writes, outcomes,
             per write (object replaced, version validated, where it came from) and the number of inexact scans.
Oracle     : the serializability oracle of C01 on every explored schedule; on faulted schedules the acknowledged-commits
             oracle, judged from the STORE's own history of the pointer: acknowledged => the store applied that
             committer's write, once, and it replaced the very content the committer validated; retryable conflict =>
             not applied; final table = serial replay of the applied writes in the store's order.  A refused-although-applied
             write whose version was superseded before the read-back gets its own stable key (ptr-fault:resent-superseded:...:
             the documented limit of the read-back, reported on every tree).  On unusable-pointer
             schedules: every applied write replaced exactly the object its committer's ETag read returned, validated the
             version that object named (or, unusable, the scanned one); acknowledged <=> applied once; no acknowledged
             append's rows are missing; full serial replay whenever every scan returned the last written version (a scan
             that returns another committer's UNPUBLISHED file -- possible only without lock exclusion on an unusable
             pointer -- is counted in the stats and left to C10).
             Uniqueness of metadata file names per commit ATTEMPT (what the read-back after a refusal and the clean-up of a failed
             attempt rest on): over every run of every topology -- handles of their own, threads on one handle, workers FORKED
             from a process that had opened the table and using the handle they inherited (harness/lib/forkimage.py) -- no two
             commit attempts write the same metadata file name and no metadata write replaces an object (storage log + store
             history); plus a probe with the real os.fork(): forked workers committing through the inherited handle report the
             names they wrote.  Forked / threaded committers run the same schedules (enumeration, lease lapse + takeover at every
             point, failing / delayed pointer writes, random 3-4 committers) under the serializability and acknowledged-commits
             oracles and the trace correspondence.
"""
from __future__ import annotations

import re
from typing import Any, Dict, List, Optional, Tuple

from harness.lib import coqbuild, protocol as P, sched as S
from harness.props import c01

LEVEL = "proof"
THEOREMS = ["C08_ack_implies_validated", "C08_no_lost_update", "C08_lost_lock_before_fence_conflict",
            "C08_cas_path_regenerated", "C08_failed_flip_reaction_regenerated", "C08_faulted_no_lost_update_partial",
            "C08_failed_write_never_acknowledged", "C08_refusal_read_back_regenerated", "C08_acknowledged_iff_applied_refuted",
            "C08_acknowledged_iff_applied_partial", "C08_fallback_replaced_what_it_read_refuted", "C08_fallback_replaced_what_it_read_partial",
            "C08_fallback_no_lost_update_refuted",
            "C08_fallback_no_lost_update_partial", "C08_fallback_path_regenerated"]
MANIFEST_ENTRY = {
    "level_text": "For CAS storage and ANY lock behaviour (exclusive, lease with arbitrary takeovers, or no exclusion at all) Coq "
                  "proves that every acknowledged flip replaced exactly the version its committer validated, so the committed "
                  "versions form one chain (no lost update); over schedules, that a committer whose lease lapses before its fence adds "
                  "nothing to the pointer history and leaves its attempt in a retryable conflict (or dies) for every continuation; the "
                  "same chain theorems for every schedule that also contains FAILING pointer writes (error other than the store's "
                  "refusal, applied or not, landing anywhere, incl. after the client gave up), with the committer's reaction computed "
                  "from the regenerated failure-class / handler tables, and a committer whose pointer write raised is proved never "
                  "acknowledged; for a pointer write the store APPLIED and then REFUSED to the committer's face (SDK-level re-send of a "
                  "request whose response was lost) that the regenerated commit point reads the pointer back against its own file name and "
                  "that an attempt is past its commit point iff the store applied its write, nobody being told 'conflict' about an applied "
                  "write -- under the stated hypothesis that no pointer write lands between that write and its read-back, and refuted by a "
                  "computed witness without it (C08_acknowledged_iff_applied_partial / _refuted); for commit()'s fallback on an UNUSABLE pointer (absent / garbage / dangling, damage anywhere) that every "
                  "applied pointer write replaced exactly the object whose ETag was read and validated the version that object named "
                  "or, unusable, the version recovered by the scan -- under the stated hypothesis that no two damage events leave the same "
                  "store-visible object ('absent' is ONE identity: create-if-absent; garbled = ETag of the content), refuted by computed "
                  "witnesses for a pointer deleted twice / garbled twice with the same bytes within one attempt "
                  "(C08_fallback_replaced_what_it_read_partial / _refuted) -- and the chain theorems under that hypothesis plus the stated "
                  "hypothesis that every scan returns the last successfully written version (without either they are refuted by a "
                  "computed witness: C08_fallback_no_lost_update_refuted / _partial); the failing-write chain theorem is _partial (machine in "
                  "which no pointer write lands while a read-back is pending); real S3StorageBackend / MetadataManager code is "
                  "trace-validated against the three models over an in-memory conditional-write S3 under a deterministic scheduler with a "
                  "grant-everyone lock and the real lease lock, including a request-level failure of either committer's pointer PUT at "
                  "every interleaving position and committers that start on an unusable pointer, judged by implementation-only oracles "
                  "over the store's own pointer history; committers that are threads on one handle or workers forked from a process that "
                  "had opened the table (inherited handle) run the same schedules, and the uniqueness of metadata file names per commit "
                  "attempt is checked on every run and by a real os.fork() probe",
    "level_note": "trusted: Coq kernel; translator/gen_commit.py (single ETag-bearing pointer read before validation, the validated version "
                  "derived from that read's bytes -- C08_ack_implies_validated's `a_etag := a_cur := v` in ONE model step rests on this "
                  "data-flow check --, the only other assignment of `current` being the fallback refresh(); failure classes of the "
                  "conditional write: C08_cas_path_regenerated, C08_fallback_path_regenerated); harness projection (validation read must "
                  "be the ETag read; an ETag read that retried a missing object is placed at its last attempt); in-memory S3 is strongly "
                  "consistent with atomic conditional PUT and ETags unique per object state (the property's premise; the Coq statements on the "
                  "unusable pointer do NOT assume it: C08_fallback_*_partial state 'damaged objects pairwise distinguishable' and the "
                  "_refuted ones give the double-damage run); a forked worker's handle is an in-process image of the parent's handle "
                  "(harness/lib/forkimage.py: deep copy sharing only the store and the scheduler), cross-checked on file names by a real "
                  "os.fork() probe; in-flight PUT delay = interleaving before the atomic landing, and "
                  "for a client that gave up on the request a landing event of its own (one fault per run); the fault injector at the boto "
                  "surface (harness/lib/protocol.py s3_fault) and the store's put history (mems3.py); the lost-lock theorem covers a lapse "
                  "BEFORE the fence -- a lapse between fence and conditional PUT can be acknowledged (harmless on CAS storage, "
                  "C08_lapse_after_fence_example); the failing-write / applied-then-refused theorems are over the machine in which no pointer "
                  "write lands while a read-back is pending (= the unrestricted machine where there is no applied-then-refused write); the "
                  "check reports the excluded schedules under the stable keys ptr-fault:resent-superseded:* (operation committed twice: "
                  "known limit of the equality read-back); C08_fallback_no_lost_update_partial assumes exact recovery scans (C10); pointer damage in "
                  "the harness is the initial state only; the real S3 lease lock's blocking loop / heartbeat is exercised by C19",
    "technique": "Coq invariant proofs (CAS, arbitrary lock, failing pointer writes, unusable pointer + fallback, lost-lock trace lemma) over "
                 "translator-regenerated kernels + trace validation, request-level fault injection and damaged-pointer initial states x "
                 "schedule enumeration over a fake conditional-write S3",
    "design_ref": "DESIGN.md section 5 C08",
}

# ---------------------------------------------------------------------------------------------------------------------
# failing pointer writes x schedules
# ---------------------------------------------------------------------------------------------------------------------
# how the conditional PUT of the pointer fails at the S3 request level (harness/lib/protocol.py, case["s3_fault"])
FAULT_MODES = ["before",       # the request is not applied; the client gets an error that is not the store's refusal
               "after",        # the request is applied; the response is lost
               "inflight",     # the client gives up; the request reaches the store LATER (actor "L"), precondition evaluated then
               "resent"]       # the request is applied, the response is lost, the SDK RE-SENDS it (botocore's default retry policy)
                               # and the second copy is refused (412 / 409): the client sees the store's refusal of an applied write
FAULT_EXCS = ["timeout", "500", "connclosed", "503", "oserror", "reqtimeout", "connect"]
XREQ = ["DS.Gen.GenCommit", "DS.Model.Commit", "DS.Model.FlipFault"]


def _chooser_for(dev: Any):
    """deviation list -> chooser factory (the forms used by this module's generators)."""
    import random as _r
    if dev and dev[0][0] == "random":
        seed, prob = dev[0][1], (dev[0][2] if len(dev[0]) > 2 else 0.4)
        return lambda sc: S.random_chooser(_r.Random(seed), prob)
    if dev and dev[0][0] == "script":
        return c01.script_chooser([tuple(x) for x in dev[0][1]])
    return c01.dev_chooser({int(i): a for i, a in dev})


def pointer_history(res: P.CaseResult) -> Tuple[List[Dict[str, Any]], Optional[str]]:
    """What the STORE did to the pointer during the run, in order, whatever the clients were told: one entry per applied
    PUT {owner, replaced, body, validated}; owner = the committer that wrote the metadata file the new pointer names,
    validated = the pointer content that committer had read (with its ETag) under the lock before sending the request.
    Second component: an inconsistency between the store's history and the clients' log, if any."""
    writers: Dict[str, str] = {}
    for e in res.log:
        if e["op"] == "write_file" and P.path_class(e["path"]) == "meta" and e["actor"].startswith("A"):
            writers[e["path"].rsplit("/", 1)[-1]] = e["actor"]
    applied = [h for h in (res.store.history if res.store is not None else []) if h["key"].endswith(P.HINT)]
    # the client-side view of the same writes, in the same order (one store, one scheduler step per request)
    last_read: Dict[str, Any] = {}
    sent_read: Dict[str, Any] = {}
    senders: List[Tuple[str, Any]] = []
    for e in res.log:
        a, op = e["actor"], e["op"]
        if op == "read_file_with_etag" and P.path_class(e["path"]) == "hint" and "MetadataManager.commit" in e["phase"]:
            last_read[a] = e["result"]
        elif op in ("write_file", "write_file_cas") and P.path_class(e["path"]) == "hint":
            if e.get("s3_fault") == "inflight":
                sent_read[a] = last_read.get(a)
            elif e["result"] == "ok" or e.get("s3_fault") in ("after", "resent"):
                senders.append((a, last_read.get(a)))
        elif op == "Land" and e["result"] == "applied":
            senders.append((str(e.get("for")), sent_read.get(str(e.get("for")))))
    out = []
    for k, h in enumerate(applied):
        body = h["body"].decode("utf-8", "replace").strip()
        out.append({"owner": writers.get(body), "body": body, "replaced": h["replaced"],
                    "validated": senders[k][1] if k < len(senders) else None, "sender": senders[k][0] if k < len(senders) else None})
    why = None
    if len(senders) != len(applied):
        why = f"the store applied {len(applied)} pointer write(s), the clients' log accounts for {len(senders)}"
    return out, why


def ack_oracle(case: Dict[str, Any], res: P.CaseResult) -> Optional[str]:
    """Implementation-only judgement of the property on one run, from the store's own history of the pointer:
       * a commit is acknowledged only if the store applied ITS pointer write (exactly one), and
       * that write replaced the very pointer content the committer had validated against;
       * a commit reported as a retryable conflict was not applied (a retry would apply it twice);
       * the final table is the serial replay, in the store's order, of exactly the applied commits -- so no acknowledged
         commit is overwritten.  A commit reported as ambiguous may be in the table or not."""
    if res.deadlock:
        return f"deadlock: {res.deadlock}"
    hist, why = pointer_history(res)
    if why:
        return why
    for h in hist:
        if h["owner"] is None:
            return f"the pointer was set to {h['body']!r}, a file no committer of this run wrote"
        if h["owner"] != h["sender"]:
            return f"pointer write by {h['sender']} names {h['body']!r}, written by {h['owner']}"
    owners = [h["owner"] for h in hist]
    for a, (st, d) in sorted(res.outcomes.items()):
        if not a.startswith("A"):
            continue
        n = owners.count(a)
        if st == "ok" and d != "noop" and n != 1:
            return (f"{a}'s commit was acknowledged but the store applied {n} pointer write(s) of {a} (store's pointer history: "
                    f"{[(h['owner'], h['body']) for h in hist]}): an acknowledged commit "
                    + ("is not in the table (lost update)" if n == 0 else "was applied more than once"))
        if st != "ok" and "ConcurrentModification" in d and n != 0:
            return f"{a} reported a retryable conflict although the store applied its pointer write ({n}x)"
        if st == "ok" and d == "noop" and n != 0:
            return f"{a} reported that nothing was to be done, yet the store applied a pointer write of {a}"
    for h in hist:
        # (a committer whose validation read the log does not show is the correspondence's business: Nonconforming there)
        if h["validated"] is not None and bytes(h["replaced"] or b"") != bytes(h["validated"]):
            return (f"{h['owner']}'s pointer write replaced {h['replaced']!r} but {h['owner']} had validated against "
                    f"{h['validated']!r}")
    return c01.serial_oracle(case, res, flips=owners)


def misreported_writes(res: P.CaseResult) -> List[str]:
    """Committers whose pointer write the store APPLIED (fault mode "resent": the re-sent copy of the request was refused) and
    that took the refusal for a conflict: commit() discarded the metadata file it had written before releasing the lock."""
    pending: Dict[str, bool] = {}
    out: List[str] = []
    for e in res.log:
        a, op = e["actor"], e["op"]
        if op in ("write_file", "write_file_cas") and P.path_class(e["path"]) == "hint" and e.get("s3_fault") == "resent":
            pending[a] = True
        elif op == "delete_file" and P.path_class(e["path"]) == "meta" and pending.get(a):
            pending[a] = False
            out.append(a)
        elif op == "LockRel":
            pending[a] = False
    return out


def superseded_before_read_back(res: P.CaseResult) -> bool:
    """Did another committer's pointer write land between a refused-although-applied write ("resent") and the moment its
    committer read the pointer back (or, in a source without read-back, released the lock)?"""
    open_for: Optional[str] = None
    for e in res.log:
        a, op = e["actor"], e["op"]
        is_hint_w = op in ("write_file", "write_file_cas") and P.path_class(e["path"]) == "hint"
        if is_hint_w and e.get("s3_fault") == "resent":
            open_for = a
        elif open_for is not None and a == open_for and (op == "LockRel" or (op == "read_file" and "MetadataManager._hint_write_landed" in e["phase"])):
            open_for = None
        elif open_for is not None and a != open_for and ((is_hint_w and (e["result"] == "ok" or e.get("s3_fault") in ("after", "resent")))
                                                         or (op == "Land" and e["result"] == "applied")):
            return True
    return False


def _fault_case(ops: Any, lock: str, victim: str, mode: str, exc: str, nth: int = 1, clock: str = "tick", **extra: Any) -> Dict[str, Any]:
    case = {"ops": ops, "clock": clock, "topology": "separate", "backend": "s3cas", "lock": lock,
            "s3_fault": {"op": "put_object", "cls": "hint", "actor": victim, "nth": nth, "when": mode, "exc": exc}}
    case.update(extra)
    return case


def fault_runs(ctx, quick: bool) -> List[Tuple[Dict[str, Any], Any, P.CaseResult]]:
    """A failing pointer write (not applied / applied / still in flight, every error kind, first or second attempt) of either
    committer at EVERY interleaving position with the other committer's commit (and, for a request in flight, with its
    landing), under a lock that gives no exclusion and under the real lease lock with lease lapses; bounded-preemption
    enumeration and random schedules of three committers on top."""
    runs: List[Tuple[Dict[str, Any], Any, P.CaseResult]] = []
    kexc = [0]

    def next_exc() -> str:
        kexc[0] += 1
        return FAULT_EXCS[kexc[0] % len(FAULT_EXCS)]

    def go(case: Dict[str, Any], dev: Any, tag: str = "c08f") -> P.CaseResult:
        res = P.run_case(ctx.scratch, c01._fix_case(case), _chooser_for(list(dev)), tag=tag)
        runs.append((case, list(dev), res))
        return res

    opsets = c01.OPSETS[:3] if quick else c01.OPSETS
    for oi, ops in enumerate(opsets):
        for victim, other in (("A0", "A1"), ("A1", "A0")):
            for mode in FAULT_MODES:
                for nth in ((1,) if quick and oi else (1, 2)):
                    case = _fault_case(ops, "grant_all", victim, mode, next_exc(), nth)
                    lead = [] if victim == "A0" else [(0, victim)]       # the victim moves first, the other commits in between
                    base = go(case, lead)
                    n = len(base.schedule)
                    for i in range(1, n + 1):
                        res = go(case, lead + [(i, other)])
                        if mode == "inflight":
                            # the landing of the request at positions of its own: right away, and at (a sample of) every later point
                            js = [j for j in range(i + 1, len(res.schedule)) if "L" in res.enabled_at[j] and res.schedule[j] != "L"]
                            kmax = 3 if quick else 6
                            if len(js) > kmax:
                                js = sorted(ctx.rng.sample(js, kmax))
                            for j in js:
                                go(case, lead + [(i, other), (j, "L")])
                    if mode == "inflight":
                        js = [j for j in range(1, n) if "L" in base.enabled_at[j] and base.schedule[j] != "L"]
                        for j in (js[:2] if quick else js):
                            go(case, lead + [(j, "L")])
        # bounded-preemption enumeration on top of the directed schedules
        for mode in FAULT_MODES:
            case = _fault_case(ops, "grant_all", "A0", mode, next_exc())
            for dev, res in c01.explore(ctx, case, 2, 12 if quick else 150):
                runs.append((case, list(dev), res))
    # the real conditional-write lease lock: the lease lapses (clock actor K jumps past it) and the other committer takes the
    # lock over at every point of the victim's commit -- in particular between its fence and its (failing) pointer write
    for ops in (c01.OPSETS[:2] if quick else c01.OPSETS[:4]):
        for mode in FAULT_MODES:
            case = _fault_case(ops, "real", "A0", mode, next_exc(), clock_actor={"jumps": 1, "ms": 61000})
            base = go(case, [], tag="c08fl")
            n0 = sum(1 for a in base.schedule if a == "A0")
            for i in range(1, n0 + 1):
                go(case, [(i, "K"), (i + 1, "K"), (i + 2, "A1")], tag="c08fl")
            if not quick:
                for dev, res in c01.explore(ctx, case, 2, 150):
                    runs.append((case, list(dev), res))
    # random schedules, three and four committers
    for i in range(24 if quick else 400):
        ops = c01.OPSETS3[i % len(c01.OPSETS3)]
        case = _fault_case(ops, "grant_all", f"A{ctx.rng.randrange(len(ops))}", ctx.rng.choice(FAULT_MODES), ctx.rng.choice(FAULT_EXCS),
                           nth=ctx.rng.choice([1, 1, 2]), clock=ctx.rng.choice(["tick", "coarse", "frozen"]),
                           s3_conflict=ctx.rng.choice(["412", "409", "alt"]))
        seed = ctx.rng.randrange(1 << 30)
        go(case, [("random", seed, 0.4)], tag="c08fr")
    return runs


# ---------------------------------------------------------------------------------------------------------------------
# commit()'s fallback: the actors start on an UNUSABLE pointer (Model/PtrFallback.v)
# ---------------------------------------------------------------------------------------------------------------------
DAMAGES = ["missing", "garbage", "dangling", "empty"]
RREQ = ["DS.Gen.GenCommit", "DS.Model.Commit", "DS.Model.PtrFallback"]
_META_NAME = re.compile(r"^v(\d+)(?:-[0-9a-f]{8})?\.metadata\.json$")


def _ptr_obj(result: Any) -> Optional[bytes]:
    """What a pointer read returned, as the store's object: its bytes, or None for 'no such object'."""
    return bytes(result) if isinstance(result, (bytes, bytearray)) else None


def fallback_facts(res: P.CaseResult) -> Dict[str, Any]:
    """Read off the storage log alone, per applied-looking pointer write of a committer: the pointer OBJECT its ETag-bearing
    read under the lock returned, the metadata file it validated against and where that came from ("direct": named by the
    bytes read with the ETag; "scan": commit()'s fallback refresh() found the pointer still unusable and scanned;
    "repaired": the fallback's re-read found a usable pointer).  Also: every recovery by scanning that feeds a commit (base
    read or fallback) and whether it returned the version named by the last applied pointer write."""
    cur_name = res.initial["pointer"]
    att: Dict[str, Dict[str, Any]] = {}
    scan_pending: Dict[str, bool] = {}
    reread: Dict[str, Optional[str]] = {}
    writes: List[Dict[str, Any]] = []
    inexact: List[Dict[str, Any]] = []
    for idx, e in enumerate(res.log):
        a, op, path, phase, result = e["actor"], e["op"], e["path"], e["phase"], e["result"]
        if not a.startswith("A"):
            continue
        pcs = P.path_class(path)
        in_commit = "MetadataManager.commit" in phase
        in_refresh = "MetadataManager.refresh" in phase
        in_tx = "Transaction.commit" in phase or "SnapshotManager.delete_snapshot" in phase
        if op == "read_file_with_etag" and pcs == "hint" and in_commit:
            att[a] = {"obj": _ptr_obj(result), "validated": None, "how": None}
            reread[a] = None
        elif op == "read_file" and pcs == "hint" and in_commit and in_refresh:
            try:
                reread[a] = result.decode("utf-8").strip() if isinstance(result, (bytes, bytearray)) else None
            except UnicodeDecodeError:
                reread[a] = None
        elif op == "list_files" and "MetadataManager._recover_version_from_files" in phase and (in_commit or in_tx) and in_refresh:
            scan_pending[a] = True
        elif op == "read_file" and pcs == "meta" and (in_commit or in_tx):
            base = path.rsplit("/", 1)[-1]
            if in_refresh and scan_pending.get(a):
                scan_pending[a] = False
                if base != cur_name:
                    inexact.append({"actor": a, "log_index": idx, "recovered": base, "last_written": cur_name})
                if in_commit and a in att and att[a]["validated"] is None:
                    att[a].update(validated=base, how="scan")
            elif in_commit and a in att and att[a]["validated"] is None:
                att[a].update(validated=base, how=("repaired" if in_refresh else "direct"))
        elif op in ("write_file", "write_file_cas") and pcs == "hint" and result == "ok":
            writes.append(dict(att.get(a, {"obj": None, "validated": None, "how": None}), actor=a))
            cur_name = next((w2["path"].rsplit("/", 1)[-1] for w2 in reversed(res.log[:idx])
                             if w2["actor"] == a and w2["op"] == "write_file" and P.path_class(w2["path"]) == "meta"), cur_name)
    return {"writes": writes, "inexact": inexact}


def fallback_oracle(case: Dict[str, Any], res: P.CaseResult) -> Optional[str]:
    """Implementation-only judgement of the property on a run that starts on an unusable pointer, from the store's own
    history of the pointer and the storage log:
       * every applied pointer write replaced exactly the pointer OBJECT its committer had read with the ETag under the lock;
         when that object named a version, that is the version the committer validated against; when it was unusable, the
         committer validated what its fallback recovered by scanning (never the version of a pointer repaired in between);
       * acknowledged <=> the store applied that committer's write, once; a retryable conflict => not applied;
       * no acknowledged commit is lost: the rows of every acknowledged append are in the final table; and, when every
         recovery scan returned the version named by the last applied pointer write, the final table is the serial replay of
         the applied writes (the full judgement of the other runs).  A scan that returns another committer's UNPUBLISHED
         metadata file (possible only while the lock excludes nobody and the pointer is unusable) is C10's subject: counted,
         not judged here."""
    if res.deadlock:
        return f"deadlock: {res.deadlock}"
    if "error" in res.final:
        return f"final table unreadable: {res.final['error']}"
    facts = fallback_facts(res)
    applied = [h for h in (res.store.history if res.store is not None else []) if h["key"].endswith(P.HINT)]
    if len(applied) != len(facts["writes"]):
        return f"the store applied {len(applied)} pointer write(s), the clients' log shows {len(facts['writes'])} successful one(s)"
    owners: List[str] = []
    for h, w in zip(applied, facts["writes"]):
        a = w["actor"]
        owners.append(a)
        repl = h["replaced"]
        if (None if repl is None else bytes(repl)) != w["obj"]:
            return (f"{a}'s pointer write replaced the object {repl!r} but the ETag {a} held came from a read that returned {w['obj']!r}")
        try:
            named = w["obj"].decode("utf-8").strip() if w["obj"] is not None else None
        except UnicodeDecodeError:
            named = None
        if w["how"] == "direct":
            if named != w["validated"]:
                return f"{a} was acknowledged on a pointer that named {named!r} having validated against {w['validated']!r}"
        elif w["how"] == "scan":
            if named is not None and _META_NAME.match(named) and ("tbl/metadata/" + named) in {k for k in res.store.objects}:
                return f"{a} validated a scanned version although the pointer it read named the existing file {named!r}"
        else:
            return (f"{a}'s pointer write was applied although " + ("the log shows no validation read of a metadata file under the lock"
                    if w["how"] is None else f"its validated version came from a pointer {w['how']} between the ETag read and refresh()")
                    + f" (the pointer object it had read with the ETag: {w['obj']!r})")
    ops = c01._fix_case(case)["ops"]
    got_rows = sorted(r["x"] for r in res.final["rows"])
    for a, (st, d) in sorted(res.outcomes.items()):
        if not a.startswith("A"):
            continue
        n = owners.count(a)
        if st == "ok" and d != "noop" and n != 1:
            return f"{a}'s commit was acknowledged but the store applied {n} pointer write(s) of {a}"
        if st != "ok" and "ConcurrentModification" in d and n != 0:
            return f"{a} reported a retryable conflict although the store applied its pointer write ({n}x)"
        op = ops[int(a[1:])]
        if st == "ok" and op["kind"] == "append" and any(r["x"] not in got_rows for r in op["rows"]):
            return f"{a}'s append was acknowledged but its rows are not in the final table {got_rows} (lost update)"
    if not facts["inexact"]:
        return c01.serial_oracle(case, res, flips=owners)
    return None


def fallback_runs(ctx, quick: bool) -> List[Tuple[Dict[str, Any], Any, P.CaseResult]]:
    """Committers that START on an unusable pointer (absent / garbage / empty / dangling; history and metadata files intact):
    bounded-preemption enumeration under a lock that excludes nobody, the real lease lock with a lease lapse + takeover at
    every point of the first committer's commit, and random schedules of three committers."""
    runs: List[Tuple[Dict[str, Any], Any, P.CaseResult]] = []
    dmgs = DAMAGES[:3] if quick else DAMAGES
    for di, dmg in enumerate(dmgs):
        for oi, ops in enumerate(c01.OPSETS[:3] if quick else c01.OPSETS):
            case = {"ops": ops, "clock": "tick", "topology": "separate", "backend": "s3cas", "lock": "grant_all", "pointer_damage": dmg}
            for dev, res in c01.explore(ctx, case, 2, (22 if oi == 0 else 10) if quick else 250):
                runs.append((case, list(dev), res))
        ops = c01.OPSETS[di % 2]
        case = {"ops": ops, "clock": "tick", "topology": "separate", "backend": "s3cas", "lock": "real", "pointer_damage": dmg,
                "clock_actor": {"jumps": 1, "ms": 61000}}
        base = P.run_case(ctx.scratch, c01._fix_case(case), c01.dev_chooser({}), tag="c08u")
        runs.append((case, [], base))
        n0 = sum(1 for a in base.schedule if a == "A0")
        for i in range(1, n0 + 1, 2 if quick else 1):
            dev = [(i, "K"), (i + 1, "K"), (i + 2, "A1")]
            runs.append((case, dev, P.run_case(ctx.scratch, c01._fix_case(case), c01.dev_chooser({int(k): v for k, v in dev}), tag="c08u")))
        if not quick:
            for dev, res in c01.explore(ctx, case, 2, 150):
                runs.append((case, list(dev), res))
    for i in range(9 if quick else 240):
        ops = c01.OPSETS3[i % len(c01.OPSETS3)]
        case = {"ops": ops, "clock": ctx.rng.choice(["tick", "coarse", "frozen"]), "topology": "separate", "backend": "s3cas",
                "lock": "grant_all", "pointer_damage": dmgs[i % len(dmgs)], "s3_conflict": ctx.rng.choice(["412", "409", "alt"])}
        seed = ctx.rng.randrange(1 << 30)
        runs.append((case, [("random", seed, 0.4)], P.run_case(ctx.scratch, c01._fix_case(case), _chooser_for([("random", seed, 0.4)]), tag="c08ur")))
    return runs


def _rev(ai: int, k: str) -> str:
    parts = k.split()
    if parts[0] == "RDamage":
        return "RDamage"
    if parts[0] == "RBegin":
        return f"RBegin {ai}%nat {parts[1]}%nat"
    if parts[0] == "RReadBad":
        return f"RReadBad {ai}%nat {parts[1]}%nat"
    if parts[0] == "RRefresh":
        rc = f"(RScan {parts[2]}%nat)" if parts[1] == "scan" else f"(RGood {parts[2]}%nat)"
        return f"RRefresh {ai}%nat {rc} {parts[3]}"
    if parts[0] == "RFlip":
        return f"RFlip {ai}%nat {parts[1]}"
    return f"RE {{| e_actor := {ai}%nat; e_kind := {c01._nat_args(k)} |}}"


def rmodel_expr(case: Dict[str, Any], res: P.CaseResult, events: List[Tuple[int, str]]) -> str:
    n = len(case["ops"])
    kinds = " ".join(f"| {i}%nat => {c01.kind_of(op)[0]}" for i, op in enumerate(case["ops"]))
    maxrs = " ".join(f"| {i}%nat => {c01.kind_of(op)[1]}%nat" for i, op in enumerate(case["ops"]))
    lu0 = res.initial["meta"]["last_updated_ms"]
    cfgs = "{| cas := true; lockkind := %s |}" % ("GrantAll" if case.get("lock") == "grant_all" else "Lease")
    evs = "[" + "; ".join(_rev(ai, k) for ai, k in events) + "]"
    return (f"match rrun_strict {cfgs} false (rinit (init_world {{| m_ops := []; m_cur := 1; m_lu := {lu0} |}} "
            f"(fun a => match a with {kinds} | _ => KKeep end) (fun a => match a with {maxrs} | _ => 1%nat end))) {evs} 0%nat with "
            f"| inl X => (1, rsummary X {n}%nat) | inr i => (0, ((i, [], [], []), (0%Z, 0%nat), [], 0%nat)) end")


def check_fallback_runs(ctx, name: str, runs: List[Tuple[Dict[str, Any], Any, P.CaseResult]]) -> None:
    exprs, kept, bad = [], [], []
    seen_keys = set()
    n_inexact = n_scan_commits = n_refused = 0
    for case, dev, res in runs:
        ctx.count(1, (name, repr(case["ops"]), case.get("lock"), case.get("pointer_damage"), tuple(res.schedule)))
        why = fallback_oracle(case, res)
        if why:
            key = (f"ptr-unusable:{case.get('pointer_damage')}:{case.get('lock')}:"
                   + "+".join(o["kind"] + ("-" + o["which"] if "which" in o else "") for o in case["ops"]))
            if key not in seen_keys:
                seen_keys.add(key)
                ctx.violation(key, why, {"case": c01._case_json(case), "deviations": list(dev), "schedule": res.schedule, "outcomes": res.outcomes})
        facts = fallback_facts(res)
        n_inexact += 1 if facts["inexact"] else 0
        n_scan_commits += sum(1 for w in facts["writes"] if w["how"] == "scan")
        n_refused += sum(1 for e in res.log if e["op"] == "write_file_cas" and P.path_class(e["path"]) == "hint" and e["result"] != "ok")
        try:
            events, vids, _notes = P.project(res, len(case["ops"]), cas=True, lease=(case.get("lock", "real") == "real"), recover=True)
        except P.Nonconforming as e:
            bad.append({"case": c01._case_json(case), "deviations": list(dev), "schedule": res.schedule, "nonconforming": str(e)})
            continue
        exprs.append(rmodel_expr(case, res, events))
        kept.append((case, dev, res, events, vids, facts))
    vals = coqbuild.coq_eval(RREQ, exprs, chunk=60) if exprs else []
    for (case, dev, res, events, vids, facts), val in zip(kept, vals):
        ok, (ptr_or_idx, _ops_final, hist, codes, phys, repl, inexact) = val      # left-nested pairs print flat
        if ok != 1:
            i = ptr_or_idx
            bad.append({"case": c01._case_json(case), "deviations": list(dev), "schedule": res.schedule, "rejected_event_index": i,
                        "event": events[i] if i < len(events) else None, "events": events[:i + 1][-8:]})
            continue
        final_vid = vids.get(res.final.get("pointer"), -1)
        exp_codes = [1 if res.outcomes[f"A{i}"][0] == "ok" and res.outcomes[f"A{i}"][1] != "noop" else
                     (2 if "ConcurrentModification" in res.outcomes[f"A{i}"][1] else 0) for i in range(len(case["ops"]))]
        hows = {"direct": 0, "scan": 1, "repaired": 2}
        exp_repl = []
        for w in facts["writes"]:
            try:
                named = w["obj"].decode("utf-8").strip() if w["obj"] is not None else None
            except UnicodeDecodeError:
                named = None
            robj = (0, vids[named]) if (w["how"] == "direct" and named in vids) else (1, 0)
            exp_repl.append((int(w["actor"][1:]), robj, vids.get(w["validated"], -1), hows.get(w["how"], -1)))
        got_repl = [(a, tuple(p), v, h) for (a, p, v, h) in repl]
        if (ptr_or_idx != final_vid or tuple(phys) != (0, final_vid) or [a for (_v, a) in hist] != [r[0] for r in exp_repl]
                or list(codes) != exp_codes or got_repl != exp_repl or inexact != len(facts["inexact"])):
            bad.append({"case": c01._case_json(case), "deviations": list(dev), "schedule": res.schedule,
                        "model": {"ptr": ptr_or_idx, "phys": phys, "hist": hist, "codes": codes, "repl": repl, "inexact": inexact},
                        "impl": {"ptr": final_vid, "repl": exp_repl, "codes": exp_codes, "inexact": facts["inexact"], "outcomes": res.outcomes}})
    ctx.stats["unusable_pointer_schedules"] = len(runs)
    ctx.stats["commits_validated_by_scan"] = n_scan_commits
    ctx.stats["conditional_writes_refused_on_unusable_pointer_runs"] = n_refused
    ctx.stats["runs_where_a_scan_returned_an_unpublished_version"] = n_inexact
    ctx.correspondence(name, len(runs), bad)


def _xev(ai: int, k: str) -> str:
    if k.startswith("XFlipErr"):
        return f"XFlipErr {ai}%nat {k.split()[1]}"
    if k in ("XUnwind", "XFlipResent", "XReadBack"):
        return f"{k} {ai}%nat"
    return f"XE {{| e_actor := {ai}%nat; e_kind := {c01._nat_args(k)} |}}"


def xmodel_expr(case: Dict[str, Any], res: P.CaseResult, events: List[Tuple[int, str]]) -> str:
    n = len(case["ops"])
    kinds = " ".join(f"| {i}%nat => {c01.kind_of(op)[0]}" for i, op in enumerate(case["ops"]))
    maxrs = " ".join(f"| {i}%nat => {c01.kind_of(op)[1]}%nat" for i, op in enumerate(case["ops"]))
    lu0 = res.initial["meta"]["last_updated_ms"]
    cfgs = "{| cas := true; lockkind := %s |}" % ("GrantAll" if case.get("lock") == "grant_all" else "Lease")
    evs = "[" + "; ".join(_xev(ai, k) for ai, k in events) + "]"
    return (f"match xrun_strict {cfgs} false (xinit (init_world {{| m_ops := []; m_cur := 1; m_lu := {lu0} |}} "
            f"(fun a => match a with {kinds} | _ => KKeep end) (fun a => match a with {maxrs} | _ => 1%nat end))) {evs} 0%nat with "
            f"| inl X => (1, xsummary2 X {n}%nat) | inr i => (0, (i, [], [], [], [], [])) end")


def check_fault_runs(ctx, name: str, runs: List[Tuple[Dict[str, Any], Any, P.CaseResult]]) -> None:
    exprs, kept, bad = [], [], []
    fired = {m: 0 for m in FAULT_MODES}
    seen_violation_keys = set()
    for case, dev, res in runs:
        sf = case["s3_fault"]
        ctx.count(1, (name, repr(case["ops"]), case.get("lock"), repr(sorted(sf.items())), tuple(res.schedule)))
        for e in res.log:
            if e.get("s3_fault"):
                fired[e["s3_fault"]] += 1
        why = ack_oracle(case, res)
        if why:
            # a refused-although-applied write whose version was SUPERSEDED before the read-back is the documented limit of the
            # read-back (C08_acknowledged_iff_applied_refuted): its own stable key
            when = "resent-superseded" if sf["when"] == "resent" and superseded_before_read_back(res) else sf["when"]
            key = (f"ptr-fault:{when}:{case.get('lock')}:" + ("" if case.get("topology", "separate") == "separate" else case["topology"] + ":")
                   + "+".join(o["kind"] + ("-" + o["which"] if "which" in o else "") for o in case["ops"]))
            if key not in seen_violation_keys:
                seen_violation_keys.add(key)
                ctx.violation(key, why, {"case": c01._case_json(case), "deviations": list(dev), "schedule": res.schedule, "outcomes": res.outcomes})
        try:
            events, vids, _notes = P.project(res, len(case["ops"]), cas=True, lease=(case.get("lock", "real") == "real"), faults=True)
        except P.Nonconforming as e:
            bad.append({"case": c01._case_json(case), "deviations": list(dev), "schedule": res.schedule, "nonconforming": str(e)})
            continue
        exprs.append(xmodel_expr(case, res, events))
        kept.append((case, dev, res, events, vids))
    vals = coqbuild.coq_eval(XREQ, exprs, chunk=60) if exprs else []
    for (case, dev, res, events, vids), val in zip(kept, vals):
        ok, (ptr_or_idx, _ops_final, hist, codes, failed, misrep) = val
        if ok != 1:
            i = ptr_or_idx
            bad.append({"case": c01._case_json(case), "deviations": list(dev), "schedule": res.schedule, "rejected_event_index": i,
                        "event": events[i] if i < len(events) else None, "events": events[:i + 1][-8:]})
            continue
        phist, _why = pointer_history(res)
        owners = [int(h["owner"][1:]) for h in phist if h["owner"]]
        final_vid = vids.get(res.final.get("pointer"), -1)
        exp_codes, exp_failed = [], []
        for i in range(len(case["ops"])):
            st, d = res.outcomes[f"A{i}"]
            if st == "ok":
                exp_codes.append(0 if d == "noop" else 1)
            elif "ConcurrentModification" in d:
                exp_codes.append(2)
            elif "AmbiguousCommitError" in d:
                exp_codes.append(5 if i in owners else 4)
            else:
                exp_codes.append(-1)            # an outcome the model has no word for
        for e in res.log:
            if e.get("s3_fault") in ("before", "after") or (e["op"] == "Land"):
                exp_failed.append(int((e["actor"] if e["op"] != "Land" else str(e.get("for")))[1:]))
        exp_mis = [int(a[1:]) for a in misreported_writes(res)]
        if (ptr_or_idx != final_vid or [a for (_v, a) in hist] != owners or list(codes) != exp_codes or list(failed) != exp_failed
                or list(misrep) != exp_mis):
            bad.append({"case": c01._case_json(case), "deviations": list(dev), "schedule": res.schedule,
                        "model": {"ptr": ptr_or_idx, "hist": hist, "codes": codes, "failed": failed, "misreported": misrep},
                        "impl": {"ptr": final_vid, "applied": owners, "codes": exp_codes, "failed": exp_failed, "misreported": exp_mis,
                                 "outcomes": res.outcomes}})
    ctx.stats["pointer_write_faults_fired"] = fired
    ctx.stats["faulted_schedules"] = len(runs)
    ctx.correspondence(name, len(runs), bad)


# ---------------------------------------------------------------------------------------------------------------------
# process topology and the UNIQUENESS of metadata file names across commit attempts
# ---------------------------------------------------------------------------------------------------------------------
# The commit point identifies "my write" by the NAME of the metadata file (the read-back after a refusal compares the pointer
# with it; a cleanly failed attempt deletes the file of that name).  That names are unique per commit ATTEMPT is therefore
# part of what the property rests on, and is established here rather than assumed -- for every way two committers come into
# being: threads on one handle ("shared"), handles of their own ("separate"), and workers fork()ed from a process that had
# already opened the table, which go on using the handle they inherited ("forked": harness/lib/forkimage.py).
TOPOLOGIES = ["separate", "shared", "forked"]


def meta_name_reuse(res: P.CaseResult) -> Optional[str]:
    """Implementation-only, from the storage log and the store's own history: every metadata file written during the run
    belongs to ONE commit attempt (one write per name), and no write of a metadata file replaced an existing object."""
    first: Dict[str, Tuple[str, int]] = {}
    for idx, e in enumerate(res.log):
        if e["op"] == "write_file" and P.path_class(e["path"]) == "meta" and e["actor"].startswith("A"):
            name = e["path"].rsplit("/", 1)[-1]
            if name in first:
                a0, i0 = first[name]
                return (f"two distinct commit attempts wrote the same metadata file name {name!r}: {a0} (log entry {i0}) and "
                        f"{e['actor']} (log entry {idx}) -- the second write replaces the first committer's content, and 'the pointer "
                        f"names my file' no longer identifies whose pointer write landed")
            first[name] = (e["actor"], idx)
    for h in (res.store.history if res.store is not None else []):
        key = h["key"]
        if P.path_class(key.split("/", 1)[1] if "/" in key else key) == "meta" and h["replaced"] is not None:
            return f"a metadata file write replaced the existing object {key!r} (metadata files are written once)"
    return None


def check_name_uniqueness(ctx, runs: List[Tuple[Dict[str, Any], Any, P.CaseResult]]) -> None:
    seen = set()
    per_topology: Dict[str, int] = {}
    for case, dev, res in runs:
        topo = case.get("topology", "separate")
        per_topology[topo] = per_topology.get(topo, 0) + sum(1 for e in res.log if e["op"] == "write_file" and P.path_class(e["path"]) == "meta"
                                                              and e["actor"].startswith("A"))
        why = meta_name_reuse(res)
        if why:
            key = f"meta-name-reused:{topo}:{case.get('lock')}"
            if key not in seen:
                seen.add(key)
                ctx.violation(key, why, {"case": c01._case_json(case), "deviations": list(dev), "schedule": res.schedule, "outcomes": res.outcomes})
    ctx.stats["metadata_files_written_per_topology"] = per_topology


def topology_runs(ctx, quick: bool) -> List[Tuple[Dict[str, Any], Any, P.CaseResult]]:
    """Committers that are FORKED workers of a process that had opened the table (each uses the handle it inherited) and
    committers that are threads on ONE handle: bounded-preemption enumeration under a lock that excludes nobody, the real
    lease lock with a lapse + takeover at every point of the first committer's commit, a pointer write delayed in flight /
    failing at the request level at every position, and random schedules of three and four committers."""
    runs: List[Tuple[Dict[str, Any], Any, P.CaseResult]] = []
    for topo in ("forked", "shared"):
        for oi, ops in enumerate(c01.OPSETS[:3] if quick else c01.OPSETS):
            case = {"ops": ops, "clock": "tick", "topology": topo, "backend": "s3cas", "lock": "grant_all"}
            lim = ((30 if oi == 0 else 12) if topo == "forked" else 6) if quick else 300
            for dev, res in c01.explore(ctx, case, 2, lim):
                runs.append((case, list(dev), res))
        for ops in (c01.OPSETS[:1] if quick else c01.OPSETS[:4]):
            case = {"ops": ops, "clock": "tick", "topology": topo, "backend": "s3cas", "lock": "real", "clock_actor": {"jumps": 1, "ms": 61000}}
            base = P.run_case(ctx.scratch, c01._fix_case(case), c01.dev_chooser({}), tag="c08t")
            runs.append((case, [], base))
            n0 = sum(1 for a in base.schedule if a == "A0")
            for i in range(1, n0 + 1, 2 if quick and topo == "shared" else 1):
                dev = [(i, "K"), (i + 1, "K"), (i + 2, "A1")]
                runs.append((case, dev, P.run_case(ctx.scratch, c01._fix_case(case), c01.dev_chooser({int(k): v for k, v in dev}), tag="c08t")))
    for i in range(8 if quick else 200):
        ops = c01.OPSETS3[i % len(c01.OPSETS3)]
        case = {"ops": ops, "clock": ctx.rng.choice(["tick", "coarse", "frozen"]), "topology": "forked", "backend": "s3cas",
                "lock": "grant_all", "s3_conflict": ctx.rng.choice(["412", "409", "alt"])}
        seed = ctx.rng.randrange(1 << 30)
        runs.append((case, [("random", seed, 0.4)], P.run_case(ctx.scratch, c01._fix_case(case), _chooser_for([("random", seed, 0.4)]), tag="c08tr")))
    return runs


def topology_fault_runs(ctx, quick: bool) -> List[Tuple[Dict[str, Any], Any, P.CaseResult]]:
    """A forked worker's pointer write fails at the request level (not applied / applied / in flight and landing later /
    applied and the re-sent copy refused) with its sibling's whole commit at every position."""
    runs: List[Tuple[Dict[str, Any], Any, P.CaseResult]] = []
    k = 0
    for ops in (c01.OPSETS[:1] if quick else c01.OPSETS[:4]):
        for mode in FAULT_MODES:
            k += 1
            case = _fault_case(ops, "grant_all", "A0", mode, FAULT_EXCS[k % len(FAULT_EXCS)], topology="forked")
            base = P.run_case(ctx.scratch, c01._fix_case(case), _chooser_for([]), tag="c08tf")
            runs.append((case, [], base))
            for i in range(1, len(base.schedule) + 1, 2 if quick else 1):
                dev = [(i, "A1")]
                res = P.run_case(ctx.scratch, c01._fix_case(case), _chooser_for(dev), tag="c08tf")
                runs.append((case, dev, res))
                if mode == "inflight":
                    js = [j for j in range(i + 1, len(res.schedule)) if "L" in res.enabled_at[j] and res.schedule[j] != "L"]
                    for j in js[-1:]:
                        dev2 = dev + [(j, "L")]
                        runs.append((case, dev2, P.run_case(ctx.scratch, c01._fix_case(case), _chooser_for(dev2), tag="c08tf")))
    return runs


def _fork_probe_names(nchildren: int, nattempts: int) -> Tuple[List[Optional[Any]], List[str]]:
    """The real os.fork(): this process opens a table (in-memory conditional-write S3, lock that grants everyone), forks
    `nchildren` workers, and every worker commits `nattempts` appends through the handle it inherited -- on ITS copy of the
    store (memory is not shared after a fork), so the workers cannot disturb one another; each reports the names of the
    metadata files it wrote.  Returns (reports, names written by more than one worker)."""
    import uuid as _uuid

    import datashard
    from datashard.data_structures import Schema
    from harness.lib import forkimage, mems3
    real_uuid4 = _uuid.uuid4
    sc = S.Scheduler()
    store = mems3.MemS3(sc.now_ms)

    def factory(tp: str) -> Any:
        return S.instrument_backend(sc, mems3.make_s3_backend(store, "tbl", conditional=True), lock_mode="grant_all")
    schema = Schema(schema_id=1, fields=[{"id": 1, "name": "x", "type": "long", "required": False}])
    with S.patched(sc, factory, shared_rlock=True):
        t0 = datashard.create_table("tbl", schema)
        sc.clock_ms += 10
        t0.append_records([{"x": -1}])
        t0 = datashard.load_table("tbl")
        before = set(store.objects)

        def body(i: int) -> Any:
            # the scheduler's uuid4 is a deterministic stream of THIS process, which a forked child would replay: the
            # children draw from the real uuid4 (os.urandom), as the library does outside the harness
            _uuid.uuid4 = real_uuid4
            for k in range(nattempts):
                sc.clock_ms += 10
                t0.append_records([{"x": 1000 * (i + 1) + k}])
            return sorted(k.rsplit("/", 1)[-1] for k in set(store.objects) - before
                          if P.path_class(k.split("/", 1)[1] if "/" in k else k) == "meta")
        reports = forkimage.real_fork_probe(nchildren, body)
    seen: Dict[str, int] = {}
    dup: List[str] = []
    for r in reports:
        if r is not None and r[0] == "ok":
            for name in r[1]:
                seen[name] = seen.get(name, 0) + 1
    dup = sorted(n for n, c in seen.items() if c > 1)
    return reports, dup


def check_fork_probe(ctx, nchildren: int = 2, nattempts: int = 2) -> Optional[str]:
    """Judgement of the real-fork probe; a probe that could not be carried out is a (loud) correspondence failure: the
    in-process image of a fork (forkimage.fork_image) is trusted only as far as this probe agrees with it."""
    try:
        reports, dup = _fork_probe_names(nchildren, nattempts)
    except Exception as e:      # noqa: BLE001
        ctx.correspondence("real-fork-name-probe", 1, [{"probe": "real-fork", "error": repr(e)[:300]}])
        return None
    ctx.count(nchildren * nattempts, ("real-fork-name-probe", nchildren, nattempts))
    ctx.stats["real_fork_probe"] = {"workers": nchildren, "commits_per_worker": nattempts,
                                    "answered": sum(1 for r in reports if r is not None and r[0] == "ok")}
    badrep = [repr(r)[:200] for r in reports if r is None or r[0] != "ok" or len(r[1]) != nattempts]
    ctx.correspondence("real-fork-name-probe", nchildren, [{"probe": "real-fork", "reports": badrep}] if badrep and not dup else [])
    if dup:
        return (f"{nchildren} workers created by os.fork() from a process that had opened the table, each committing {nattempts} "
                f"append(s) through the handle it inherited, wrote the SAME metadata file name(s) {dup}: names are not unique "
                f"across commit attempts of forked processes")
    return None


def run(ctx) -> None:
    ctx.rule = ("schedules of 2-3 committers at storage-operation granularity on S3StorageBackend over an in-memory "
                "conditional-write S3, (a) with a lock granting everyone, (b) with the real S3LockProvider (one attempt per "
                "scheduler step) and a clock actor jumping past the 60 s lease at every point of a commit (lease lapse, takeover, "
                "stale holder resuming); bounded-preemption enumeration + directed + random; (c) one request-level failure of a "
                "committer's pointer PUT {not applied, applied with the response lost, in flight and landing later, applied and the SDK's "
                "re-sent copy refused (412/409)} x {read timeout, "
                "connection closed / refused / reset, 500, 503, 400 RequestTimeout} x {first, second attempt} x either committer, with "
                "the other committer's whole commit (and the landing) at every position, under (a) and (b), + enumeration + random "
                "3-4 committers; (d) committers that START on an unusable pointer {missing, garbage, dangling, (thorough) empty}: "
                "enumeration under (a), lease lapse + takeover at every point under (b), random 3-4 committers; "
                "distinct = executed schedule per case")
    ctx.trusted_base += ["harness/lib/sched.py, protocol.py, mems3.py (strongly consistent in-memory S3 with If-Match / If-None-Match)"]
    ctx.assumptions += ["conditional PUT is atomic and the store is strongly consistent (property premise)"]
    ctx.proofs(THEOREMS, gen_files=["GenCommit.v"])
    ctx.allow_axioms([])
    quick = ctx.tier == "quick"
    runs: List[Tuple[Dict[str, Any], Any, P.CaseResult]] = []
    for ops in c01.OPSETS[:4] if quick else c01.OPSETS:
        for clock in (["tick"] if quick else ["tick", "frozen"]):
            case = {"ops": ops, "clock": clock, "topology": "separate", "backend": "s3cas", "lock": "grant_all"}
            for dev, res in c01.explore(ctx, case, 2 if quick else 3, 45 if quick else 500):
                runs.append((case, dev, res))
            # the same, with the store answering a lost conditional PUT by 409 ConditionalRequestConflict (a conflicting
            # write landed while the request was in flight) instead of 412: both mean "not written"
            case9 = dict(case, s3_conflict="409")
            for dev, res in c01.explore(ctx, case9, 2 if quick else 3, 25 if quick else 300):
                runs.append((case9, dev, res))
    # the real conditional-write lease lock: a clock actor jumps 61 s (lease 60 s), so that a paused holder's lock lapses
    # and is taken over; directed schedules put the jump + the other committer's whole commit at every point of A0's commit
    for ops in c01.OPSETS[:2] if quick else c01.OPSETS[:4]:
        case = {"ops": ops, "clock": "tick", "topology": "separate", "backend": "s3cas", "lock": "real",
                "clock_actor": {"jumps": 1, "ms": 61000}}
        base = P.run_case(ctx.scratch, c01._fix_case(case), c01.dev_chooser({}), tag="c08l")
        n0 = sum(1 for a in base.schedule if a == "A0")
        for i in range(1, n0 + 1):
            dev = ((i, "K"), (i + 1, "K"), (i + 2, "A1"))
            res = P.run_case(ctx.scratch, c01._fix_case(case), c01.dev_chooser(dict(dev)), tag="c08l")
            runs.append((case, dev, res))
        for dev, res in c01.explore(ctx, case, 2, 15 if quick else 300):
            runs.append((case, dev, res))
    ctx.stats["lease_takeovers_observed"] = sum(1 for c, _d, r in runs if c.get("lock") == "real"
                                                for e in r.log if e["op"] == "Fence" and e["result"] is False)
    import random as _r
    for i in range(10 if quick else 300):
        ops = c01.OPSETS3[i % len(c01.OPSETS3)]
        case = {"ops": ops, "clock": ctx.rng.choice(["tick", "coarse", "frozen"]), "topology": "separate", "backend": "s3cas", "lock": "grant_all",
                "s3_conflict": ctx.rng.choice(["412", "409", "alt"])}
        seed = ctx.rng.randrange(1 << 30)
        res = P.run_case(ctx.scratch, c01._fix_case(case), lambda sc, seed=seed: S.random_chooser(_r.Random(seed), 0.4), tag="c08r")
        runs.append((case, [("random", seed, 0.4)], res))
    # the pointer write itself fails (request level), at every interleaving position with the other committer
    fruns = fault_runs(ctx, quick)
    # commit()'s fallback: the committers start on an unusable pointer
    uruns = fallback_runs(ctx, quick)
    # process topology: forked workers on the handle they inherited, threads on one handle; names unique per commit attempt
    truns = topology_runs(ctx, quick)
    fruns += topology_fault_runs(ctx, quick)
    check_name_uniqueness(ctx, runs + fruns + uruns + truns)
    why_fork = check_fork_probe(ctx)
    if why_fork:
        ctx.violation("meta-name-reused:real-fork", why_fork, {"case": {"probe": "real-fork-names", "workers": 2, "attempts": 2}})
    ctx.stats["topology_schedules"] = len(truns)
    # implementation-level statement of "a committer that lost its lock before the commit point reports a retryable
    # conflict, never success": with the real lease lock, once another committer has taken the lock over, the fence of the
    # previous holder (its is_held() just before the pointer write) must answer False -- judged on the storage log alone
    stolen_fences = 0
    for case, dev, res in runs + fruns + uruns + truns:
        if case.get("lock") != "real":
            continue
        holder = None
        lost: Dict[str, bool] = {}
        for e in res.log:
            a, op = e["actor"], e["op"]
            if op == "LockTry" and e["result"] == "ok":
                if holder is not None and holder != a:
                    lost[holder] = True          # taken over while the previous holder had not released
                holder = a
                lost[a] = False
            elif op == "LockRel" and holder == a:
                holder = None
            elif op == "Fence" and lost.get(a):
                stolen_fences += 1
                if e["result"]:
                    ctx.violation("fence-passed-after-takeover",
                                  f"{a}'s lock was taken over by another committer, yet its fence (is_held() before the pointer write) answered "
                                  f"True: a committer that lost its lock goes on to the commit point",
                                  {"case": c01._case_json(case), "deviations": list(dev), "schedule": res.schedule, "outcomes": res.outcomes})
    ctx.stats["fences_after_takeover_observed"] = stolen_fences
    ctx.stats["schedules"] = len(runs)
    ctx.stats["cas_conflicts_observed"] = sum(1 for _c, _d, r in runs for e in r.log if e["op"] == "write_file_cas" and e["result"] != "ok")
    if runs:
        c, d, r = runs[len(runs) // 3]
        ctx.sample({"case": c01._case_json(c), "schedule": r.schedule, "outcomes": r.outcomes})
    try:
        check_fallback_runs(ctx, "s3cas-unusable-pointer-trace", uruns)
    except RuntimeError as e:
        ctx.proof_problems.append("model evaluation failed (unusable pointer): " + str(e)[:800])
    try:
        check_fault_runs(ctx, "s3cas-ptr-fault-trace", fruns)
    except RuntimeError as e:
        ctx.proof_problems.append("model evaluation failed (failing pointer writes): " + str(e)[:800])
    try:
        c01.check_runs(ctx, "s3cas-topology-trace", truns)
    except RuntimeError as e:
        ctx.proof_problems.append("model evaluation failed (process topologies): " + str(e)[:800])
    try:
        c01.check_runs(ctx, "s3cas-trace", runs)
    except RuntimeError as e:
        ctx.proof_problems.append("model evaluation failed: " + str(e)[:800])


def _fence_after_takeover(res: P.CaseResult) -> List[str]:
    holder = None
    lost: Dict[str, bool] = {}
    out: List[str] = []
    for e in res.log:
        a, op = e["actor"], e["op"]
        if op == "LockTry" and e["result"] == "ok":
            if holder is not None and holder != a:
                lost[holder] = True
            holder = a
            lost[a] = False
        elif op == "LockRel" and holder == a:
            holder = None
        elif op == "Fence" and lost.get(a) and e["result"]:
            out.append(a)
    return out


def replay(ctx, payload) -> int:
    key = str(payload.get("key", ""))
    c = payload.get("case") or {}
    pr = c.get("case") if isinstance(c.get("case"), dict) and c["case"].get("probe") else c
    if pr.get("probe") == "real-fork-names":
        _reports, dup = _fork_probe_names(int(pr.get("workers", 2)), int(pr.get("attempts", 2)))
        print("replay:", f"STILL FAILS: forked workers wrote the same metadata file name(s) {dup}" if dup else "passes now")
        return 1 if dup else 0
    if not c.get("case"):
        return c01.replay(ctx, payload)
    res = P.run_case(ctx.scratch, c01._fix_case(c["case"]), _chooser_for(c.get("deviations", [])), tag="replay")
    if key.startswith("fence-passed-after-takeover"):
        bad = _fence_after_takeover(res)
        print("replay:", f"STILL FAILS: fence answered True after a takeover for {bad}" if bad else "passes now")
        return 1 if bad else 0
    if key.startswith("meta-name-reused"):
        why = meta_name_reuse(res)
        print("replay:", "STILL FAILS: " + why if why else "passes now")
        return 1 if why else 0
    why = (ack_oracle(c["case"], res) if key.startswith("ptr-fault") else
           fallback_oracle(c["case"], res) if key.startswith("ptr-unusable") else c01.serial_oracle(c["case"], res))
    print("replay:", "STILL FAILS: " + why if why else "passes now")
    return 1 if why else 0
