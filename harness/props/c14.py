"""C14 -- Reads fail closed: damaged or missing files raise, never yield partial rows.

Proof      : coq/Props/C14.v over coq/Model/Read.v (the read pipeline as a result-and-trace program over a
             store of Absent / Present bytes / Flaky site cells; parsers, SHA-256 and the recovery scan are
             function parameters) and Gen/GenRead.v (the exception classes of the two Avro fallbacks,
             regenerated from file_manager.py on every run; 25 read-path functions pinned by golden AST).
Tie        : correspondence -- real tables (3 snapshots, 3 manifests, 6 data files) x every file reachable
             from the current snapshot x {delete, truncate at structural and sampled offsets, random
             overwrite, b"{}", byte flips, swap with a sibling of the same kind, transient OSError at every
             call site (exists / open / stream read / read)} x {scan, scan(parallel=2), scan_batches,
             iter_records, row_count} x verify on/off: the real call's outcome (rows / exception kind), its
             storage-call trace, and the rows yielded before a generator fails must equal the model's
             read_current, evaluated in Coq on the same store with the parser outcomes measured with
             fastavro / json / pyarrow directly.  Nine table variants put the rest of the model's glue under the
             same comparison: legacy JSON manifests (fallback succeeds; swallowed transient open), a data file listed
             twice + an empty manifest path, entries without checksum, dangling / -1 / null current_snapshot_id
             (second refresh), missing / garbage / legacy pointer (recovery scan).
Sessions   : the same matrix on ONE handle that has already read the undamaged table twice (through the API under
             test and through another one, verification on); the damage happens between the reads.  Oracle and model
             are unchanged -- C14_history_independent: the outcome of a read depends only on the store at the time
             of the read -- so any state a handle carries between reads (a verified-files cache, cached manifests,
             a remembered metadata version) shows up as a concrete same-handle:... violation.
Read again : ONE long-lived handle, the damage in place, the nine reads (API x verify, order rotating): from the first
             one that RAISES on, each is a read after a read that raised and must itself raise or return the complete
             answer (a reader that keeps what it had gathered when it failed -- a partly filled file listing, a
             half-built cache -- returns a subset here); then the failure clears (files restored, no fault) and the
             nine reads run again through the same handle: each raises or returns the complete answer.  Outcome,
             trace and yielded prefix of every such read are also compared with the model's read_current on the store
             of that moment (read_current_again_after_raise).
Blocks     : Avro containers of SEVERAL blocks -- variant `blocks` (manifest list and manifests re-encoded one record per
             block; the whole damage matrix) and a bulk commit whose manifest spans several blocks by itself (entry size
             measured, writer's default block size) -- with damage placed by BLOCK: for the first, second and last block
             (thorough: every block) the file cut in the middle of the block, everything from there on replaced by random
             bytes, the block's count byte flipped, and a stream that fails once the bytes before that point have been
             delivered.  A streaming decoder has then handed out the records of the leading blocks, and those of the
             damaged block that precede the damage (`prefix`; also within a container of ONE block), before it raises; in the read-again sessions every read runs TWICE with the damage in place (after its own earlier
             raise and after every other API's) and once after it has cleared: a reader or handle that keeps what a
             failed decode had gathered returns a subset there.  Model/ReadBlocks.v (stream / collect over block
             decodings; C14_blocks_all_or_nothing, C14_bad_manifest_block_fails_closed, C14_decode_cache_transparent) is
             compared with fastavro on every container byte string of those tables (collect_blocks: records, raise, and
             the number of records handed out before the raise).
Mid-call   : the store changes DURING a read: the damage is applied when the k-th storage operation on the target file
             has finished, for every k the code under test performs in that call (a re-read of a file is a new slot).
             The call must raise or return the answer of the table as it was; on a checksummed data file with
             verification on, any other returned rows are unverified bytes (C14_no_check_use_gap: one storage
             operation per data file, the bytes parsed are the bytes hashed).
Oracle /   : implementation-only, independent of the model: for damage inside the property (absent, bytes no
search       parser accepts, transient error that fired) on a file the call touched, the call must raise; when
             the damaged file was not touched the answer must equal the undamaged one; with verification on,
             any change of a data file's bytes must raise CorruptDataError.  Damage that still parses is
             labelled and only recorded (DESIGN.md C14 interpretation).
"""
from __future__ import annotations

import hashlib
import io
import json
import logging
import os
import random
import shutil
from typing import Any, Dict, List, Optional, Tuple

from harness.lib import coqbuild

LEVEL = "proof"
THEOREMS = ["C14_fail_closed", "C14_never_partial", "C14_never_partial_of_served_version", "C14_not_empty_partial",
            "C14_not_empty_of_served_version", "C14_checksum", "C14_checksum_by_default", "C14_untouched",
            "C14_row_count_metadata_only", "C14_history_independent", "C14_checksum_survives_history", "C14_no_check_use_gap", "C14_list_fields_without_read_meaning",
            "C14_recovery_listing_fails_closed", "C14_batched_guard_complete", "C14_healthy_ok",
            "C14_blocks_all_or_nothing", "C14_blocks_raise_at_first_bad_block", "C14_bad_manifest_block_fails_closed",
            "C14_bad_list_block_fails_closed", "C14_decode_cache_transparent", "C14_eager_decode_cache_refuted",
            "C14_fail_closed_full_refuted", "C14_not_empty_full_refuted"]
REQ = ["DS.Gen.GenRead", "DS.Model.Read"]
KNOWN_KEY = "current-metadata-file-deleted-serves-previous-version"

MANIFEST_ENTRY = {
    "level_text": "C14_fail_closed / C14_never_partial / C14_not_empty_partial / C14_checksum (+ C14_checksum_by_default over the "
                  "regenerated default) / C14_untouched (+ C14_healthy_ok) proved in Coq for every store (any number of damaged "
                  "files), every parser behaviour, every read API and option, over a model of the read pipeline whose Avro-fallback "
                  "exception classes and verification default are regenerated from the source on every run and whose call order is "
                  "pinned by golden ASTs of 25 functions; 'the current snapshot' of the statements is the one of the metadata file the "
                  "POINTER names (spec_meta, no recovery); what holds of whichever version the code serves is stated separately "
                  "(C14_never_partial_of_served_version, C14_not_empty_of_served_version); the model's outcome, storage-call trace "
                  "and generator prefix are compared with the real library on every reachable file x damage class x API x verify; "
                  "implementation-only oracles search for a read that returns although a touched file is damaged, "
                  "on fresh handles, on a handle that has already read the undamaged table (read, damage, read again), on a handle "
                  "on which a read has already RAISED (damage, read, read again with the damage in place and after it has cleared; "
                  "C14_history_independent), on tables whose history contains deletes / rewrites (C14_checksum_survives_history) and "
                  "with the damage applied DURING the call after each storage operation on the target file (C14_no_check_use_gap), "
                  "and on manifest lists / manifests that span SEVERAL Avro blocks (re-encoded one record per block; a bulk commit) "
                  "damaged block by block -- cut, overwritten, count flipped, stream failing after the leading blocks were delivered -- "
                  "with every read repeated on the same handle (C14_blocks_all_or_nothing, C14_blocks_raise_at_first_bad_block, "
                  "C14_bad_manifest_block_fails_closed, C14_bad_list_block_fails_closed over Model/ReadBlocks.v: a container is a list of "
                  "blocks of any number and size, the reader returns all records of all blocks or raises; C14_decode_cache_transparent / "
                  "C14_eager_decode_cache_refuted: a per-handle decode cache is invisible iff it registers only complete decodes)",
    "level_note": "PARTIAL in one case, kept visible as C14_fail_closed_full / C14_not_empty_full (Definitions) + their _refuted "
                  "theorems: the current metadata file deleted while the pointer names it -- refresh() recovers the previous version "
                  "(as C10 demands) and every API returns its rows; on a table with ONE commit that version is v0 and the broken "
                  "table is reported as an EMPTY one (scan() = [], row_count() = 0). Known finding " + KNOWN_KEY + ". "
                  "C14_fail_closed excludes that case, C14_not_empty_partial assumes the pointer does not name a missing file, "
                  "C14_never_partial assumes the pointer's file is there and parses. C14_checksum needs a recorded checksum "
                  "(caller-built DataFile without one: outside). C14_history_independent and C14_list_fields_without_read_meaning "
                  "hold by construction of the model (a handle has no read state; only the manifest path of a list entry is "
                  "projected); the same-handle and field-edit correspondences are what tie them to the code. "
                  "The block theorems speak of the decoders as [collect] over per-block decodings (with_block_decoders); that fastavro "
                  "behaves so is measured (correspondence collect_blocks), that the code's loop keeps its accumulator local is pinned by the "
                  "golden AST of read_manifest_file / read_manifest_list_file; the code has no decode cache (C14_decode_cache_transparent "
                  "states what one would have to satisfy). "
                  "Hypothesis json_not_avro (bytes the JSON fallback "
                  "accepts make fastavro raise a fallback class) is checked on every byte string of every run. "
                  "Filters/pruning are outside the model (C12/C13); a match-all filter is exercised by the oracle only. "
                  "trusted: Coq kernel; translator/gen_read.py; the harness; SHA-256 collision-freedom on the byte "
                  "strings in play (hypothesis of C14_checksum)",
    "technique": "Coq proof over a result-and-trace model of the read pipeline + translator-regenerated fallback "
                 "classes + differential correspondence (outcome, trace, yielded prefix) + implementation-only oracle",
    "design_ref": "DESIGN.md section 5 C14",
}

APIS = ["Scan", "ScanPar", "Batches", "IterRecords", "RowCount"]
BATCH = {"Batches": 2, "IterRecords": 1000}
HINT_PATH = "metadata.version-hint.text"


class TransientIO(OSError):
    """The injected transient storage error."""


# ====================================================================================== table building
def _schema():
    from datashard.data_structures import Schema
    return Schema(schema_id=1, fields=[{"id": 1, "name": "id", "type": "long", "required": False},
                                       {"id": 2, "name": "s", "type": "string", "required": False}])


class LibraryHang(BaseException):
    """A library call exceeded its time budget (BaseException: must not be mistaken for the library raising)."""


class bounded:
    """Every call into the library runs under a wall-clock limit: a loop in the code under test becomes a failed
    case / a reported violation, never a stuck check.  (SIGALRM, main thread.)"""

    def __init__(self, seconds: float, what: str):
        self.seconds, self.what = seconds, what

    def _fire(self, *_a):
        raise LibraryHang(f"{self.what}: no result after {self.seconds} s")

    def __enter__(self):
        import signal
        import threading
        self.armed = threading.current_thread() is threading.main_thread()
        if self.armed:
            self.old = signal.signal(signal.SIGALRM, self._fire)
            signal.setitimer(signal.ITIMER_REAL, self.seconds)
        return self

    def __exit__(self, *exc):
        import signal
        if self.armed:
            signal.setitimer(signal.ITIMER_REAL, 0)
            signal.signal(signal.SIGALRM, self.old)
        return False


CALL_LIMIT_S = 30.0
CURRENT_CASE: Dict[str, Any] = {}


def start_memory_watchdog(ctx, limit_mb: int = 8192) -> None:
    """Runaway memory in the library under test ends the check with a VIOLATION naming the case in flight."""
    import threading
    import time

    def watch():
        page = os.sysconf("SC_PAGE_SIZE")
        while True:
            time.sleep(1.0)
            try:
                with open("/proc/self/statm") as f:
                    rss_mb = int(f.read().split()[1]) * page // (1 << 20)
            except Exception:
                return
            if rss_mb > limit_mb:
                path = ctx._write_replay("library-memory-runaway", {"kind": "concrete", "what": f"resident memory {rss_mb} MB during the case", "case": dict(CURRENT_CASE)})
                print(f"VIOLATION property=C14 replay={path}", flush=True)
                os._exit(1)
    threading.Thread(target=watch, daemon=True).start()


def is_append(step: Any) -> bool:
    return isinstance(step, list)


def build_table(path: str, shape: List[Any], record: Optional[List[Dict[str, Any]]] = None) -> None:
    """shape = the table's HISTORY, one entry per commit:
         [n1, n2, ...]                         one transaction appending a data file of n_i rows per entry (one manifest)
         {"delete": [i, ...], "append": [..]}  one transaction deleting the live data files with these indices (order of
                                               the current snapshot; out-of-range indices wrap) and optionally appending
         {"expire": true}                      expire every snapshot but the current one
       record (optional) receives, per commit, what an independent reader sees before/after it."""
    from datashard import create_table
    shutil.rmtree(path, ignore_errors=True)
    schema = _schema()
    with bounded(60, "create_table"):
        t = create_table(path, schema)
    n = 0
    for step in shape:
        before = Inventory(path) if (record is not None or not is_append(step)) else None
        deleted: List[str] = []
        with bounded(60, f"commit {step}"):
            with t.new_transaction() as tx:
                if is_append(step):
                    counts = step
                else:
                    counts = step.get("append", [])
                    if step.get("delete") and before.data:
                        deleted = sorted({before.data[i % len(before.data)] for i in step["delete"]})
                        tx.delete_files(["/" + d for d in deleted])
                    if step.get("expire"):
                        import time
                        tx.expire_snapshots(int(time.time() * 1000) + 10 ** 6)
                for cnt in counts:
                    tx.append_data([{"id": n + j, "s": f"row-{n + j}"} for j in range(cnt)], schema)
                    n += cnt
                tx.commit()
        if record is not None:
            after = Inventory(path)
            new = [p for p in after.all_data_files() if p not in before.files]
            record.append({"step": step, "deleted": deleted,
                           "appended": [(p, len(parquet_rows(after.files[p])), hashlib.sha256(after.files[p]).hexdigest()) for p in sorted(new, key=lambda q: parquet_rows(after.files[q])[:1])],
                           "manifests_after": after.manifest_entries()})


def open_handle(path: str):
    from datashard.transaction import Table
    with bounded(CALL_LIMIT_S, "Table()"):
        return Table(path, create_if_not_exists=False)


# ====================================================================================== independent reader
def avro_records(b: bytes) -> List[Dict[str, Any]]:
    """fastavro on a real file object, as the library reads it through open_file(): on some non-Avro bytes the header
    parser asks for a huge read, which a file object answers with MemoryError (not a fallback class) while a BytesIO
    would answer with a short read (-> ValueError, a fallback class)."""
    import tempfile

    import fastavro
    with tempfile.TemporaryFile() as f:
        f.write(b)
        f.seek(0)
        return list(fastavro.reader(f))


def parquet_rows(b: bytes) -> List[int]:
    import pyarrow.parquet as pq
    return [r["id"] for r in pq.read_table(io.BytesIO(b)).to_pylist()]


META_RE = __import__("re").compile(r"^v(\d+)(?:-[0-9a-f]{8})?\.metadata\.json$")


def _json_section(b: bytes, key: str) -> List[Any]:
    """The section a legacy JSON manifest list / manifest consists of: present and a list, or the bytes do not parse."""
    sec = dict(json.loads(b.decode("utf-8")))[key]
    if not isinstance(sec, list):
        raise ValueError(f"section {key!r} is not a list")
    return sec


def read_list_any(b: bytes) -> List[str]:
    """Manifest paths of a manifest list in either format (Avro container, or the legacy JSON object)."""
    try:
        return [r["manifest_path"] for r in avro_records(b)]
    except Exception:
        # the legacy JSON layout: the object IS its `manifests` section (a list); without it the bytes are not a manifest list
        # (library repair 319eef4: `{}` no longer parses as an empty list)
        return [r["manifest_path"] for r in _json_section(b, "manifests")]


def read_manifest_any(b: bytes) -> List[Tuple[str, Optional[str]]]:
    """(data file path, recorded checksum) per entry."""
    return [(p, c) for p, _n, c in read_manifest_full(b)]


def read_manifest_full(b: bytes) -> List[Tuple[str, int, Optional[str]]]:
    """(data file path, record count, recorded checksum) per entry."""
    try:
        return [(r["data_file"]["file_path"], r["data_file"]["record_count"], r["data_file"].get("checksum")) for r in avro_records(b)]
    except Exception:
        return [(r["file_path"], r["record_count"], r.get("checksum")) for r in _json_section(b, "files")]


class Inventory:
    """The undamaged table, read without importing datashard."""

    def __init__(self, path: str):
        self.path = path
        self.files: Dict[str, bytes] = {}
        for root, _d, fs in os.walk(path):
            for f in fs:
                full = os.path.join(root, f)
                rel = os.path.relpath(full, path)
                if rel.startswith(".locks") or "inflight" in rel:
                    continue
                with open(full, "rb") as fh:
                    self.files[rel] = fh.read()
        versions = sorted((int(META_RE.match(os.path.basename(p)).group(1)), p) for p in self.files
                          if os.path.dirname(p) == "metadata" and META_RE.match(os.path.basename(p)))
        named = None
        try:
            txt = self.files[HINT_PATH].decode("utf-8").strip()
            if META_RE.match(txt) and ("metadata/" + txt) in self.files:
                named = "metadata/" + txt
        except Exception:
            pass
        self.meta = named or versions[-1][1]
        self.other_metas = [p for _v, p in versions if p != self.meta]
        md = json.loads(self.files[self.meta].decode())
        cur_id = md["current_snapshot_id"]
        cur = [s for s in md["snapshots"] if s["snapshot_id"] == cur_id]
        self.broken = bool(cur_id is not None and cur_id != -1 and not cur)      # dangling id: every API must raise
        self.list: Optional[str] = cur[0]["manifest_list"].lstrip("/") if cur else None
        self.other_lists = [s["manifest_list"].lstrip("/") for s in md["snapshots"] if not cur or s is not cur[0]]
        self.manifests: List[str] = []
        self.data: List[str] = []
        self.file_rows: Dict[str, List[int]] = {}
        self.checksummed: Dict[str, bool] = {}      # does the entry the reader keeps for this path record a checksum?
        self.rows: List[int] = []
        self.count_total = 0                        # what row_count() denotes: the recorded counts of the kept entries
        if self.list is not None:
            for m in read_list_any(self.files[self.list]):
                m = m.lstrip("/")
                if not m:
                    continue
                if m not in self.manifests:
                    self.manifests.append(m)
                for p, cnt, csum in read_manifest_full(self.files[m]):
                    p = p.lstrip("/")
                    if p in self.data:
                        continue
                    self.data.append(p)
                    self.count_total += cnt
                    self.checksummed[p] = bool(csum)
                    self.file_rows[p] = parquet_rows(self.files[p])
                    self.rows += self.file_rows[p]
        # a checksum recorded for this path by ANY manifest ever written (old manifests stay on disk): the file had a
        # write-time checksum, whatever the current snapshot's manifests say now
        self.ever_checksummed: Dict[str, str] = {}
        for mp in sorted(self.files):
            if mp.startswith("metadata/manifests/") and "manifest_list" not in os.path.basename(mp):
                try:
                    for dp, csum in read_manifest_any(self.files[mp]):
                        if csum:
                            self.ever_checksummed.setdefault(dp.lstrip("/"), csum)
                except Exception:
                    pass
        self.roles: Dict[str, str] = {self.meta: "meta"}
        if HINT_PATH in self.files:
            self.roles[HINT_PATH] = "pointer"       # not "reachable from the snapshot": only transient faults are injected
        if self.list is not None:
            self.roles[self.list] = "list"
        self.roles.update({m: "manifest" for m in self.manifests})
        self.roles.update({d: "data" for d in self.data})

    def all_data_files(self) -> List[str]:
        return [p for p in self.files if p.startswith("data/") and p.endswith(".parquet")]

    def manifest_entries(self) -> List[List[Tuple[str, int, Optional[str]]]]:
        """The current snapshot's manifests in manifest-list order, each as its (path, count, checksum) entries."""
        return [[(p.lstrip("/"), n, c) for p, n, c in read_manifest_full(self.files[m])] for m in self.manifests]

    def reachable(self) -> List[Tuple[str, str]]:
        return ([(self.meta, "meta")] + ([(self.list, "list")] if self.list else [])
                + [(m, "manifest") for m in self.manifests] + [(d, "data") for d in self.data])

    def siblings(self, path: str) -> List[str]:
        role = self.roles[path]
        if role == "meta":
            return self.other_metas[-1:]
        if role == "list":
            return self.other_lists[-1:]
        pool = self.manifests if role == "manifest" else self.data
        return [p for p in pool if p != path][:1]


# ====================================================================================== table variants
def _rewrite(path: str, rel: str, content: bytes) -> None:
    with open(os.path.join(path, rel), "wb") as f:
        f.write(content)


def _avro_rewrite(b: bytes, edit, **writer_options) -> bytes:
    import fastavro
    rd = fastavro.reader(io.BytesIO(b))
    schema = rd.writer_schema
    recs = edit(list(rd))
    out = io.BytesIO()
    fastavro.writer(out, schema, recs, **writer_options)
    return out.getvalue()


def variant_json(path: str) -> None:
    """The legacy layout: manifest list and manifests as JSON objects (read through the fallback)."""
    inv = Inventory(path)
    lst = avro_records(inv.files[inv.list])
    keys = LIST_REQ
    _rewrite(path, inv.list, json.dumps({"manifests": [{k: r[k] for k in keys} for r in lst]}).encode())
    for m in inv.manifests:
        files = []
        for r in avro_records(inv.files[m]):
            d = r["data_file"]
            files.append({"file_path": d["file_path"], "file_format": d["file_format"], "partition_values": d["partition"]["values"],
                          "record_count": d["record_count"], "file_size_in_bytes": d["file_size_in_bytes"], "checksum": d.get("checksum")})
        _rewrite(path, m, json.dumps({"files": files}).encode())


def variant_dup(path: str) -> None:
    """An entry with an empty manifest path, and one data file listed by two manifests under two spellings."""
    inv = Inventory(path)

    def add_empty(recs):
        e = dict(recs[0])
        e["manifest_path"] = ""
        return recs[:1] + [e] + recs[1:]
    _rewrite(path, inv.list, _avro_rewrite(inv.files[inv.list], add_empty))
    first = avro_records(inv.files[inv.manifests[0]])[0]

    def add_dup(recs):
        e = dict(first)
        e["data_file"] = dict(first["data_file"])
        e["data_file"]["file_path"] = first["data_file"]["file_path"].lstrip("/")
        e["data_file"]["checksum"] = None
        return [e] + recs
    _rewrite(path, inv.manifests[-1], _avro_rewrite(inv.files[inv.manifests[-1]], add_dup))


def variant_nosum(path: str) -> None:
    """Data files registered without a checksum (append_files of a caller-built DataFile)."""
    inv = Inventory(path)

    def strip(recs):
        for r in recs:
            r["data_file"]["checksum"] = None
        return recs
    _rewrite(path, inv.manifests[0], _avro_rewrite(inv.files[inv.manifests[0]], strip))


def variant_rowgroups(path: str) -> None:
    """Every data file rewritten with SEVERAL row groups (row_group_size=2), and registered again with its new
    size and checksum: the footer then carries per-row-group counts and offsets next to the file-level ones."""
    import pyarrow.parquet as pq
    inv = Inventory(path)
    new: Dict[str, bytes] = {}
    for d in inv.data:
        t = pq.read_table(io.BytesIO(inv.files[d]))
        out = io.BytesIO()
        pq.write_table(t, out, row_group_size=2)
        new[d] = out.getvalue()
        _rewrite(path, d, new[d])

    def reregister(recs):
        for r in recs:
            p = r["data_file"]["file_path"].lstrip("/")
            if p in new:
                r["data_file"]["checksum"] = hashlib.sha256(new[p]).hexdigest()
                r["data_file"]["file_size_in_bytes"] = len(new[p])
        return recs
    for m in inv.manifests:
        _rewrite(path, m, _avro_rewrite(inv.files[m], reregister))


def variant_blocks(path: str) -> None:
    """Every Avro container of the current snapshot (manifest list, manifests) re-encoded with ONE record per block
    (writer sync interval 1 byte): the same records, spread over as many container blocks as there are records --
    what a bulk commit produces naturally (a manifest of more than ~60 entries), on a table small enough for the
    whole damage matrix.  A streaming decoder hands out the records of the leading blocks before it meets a
    damaged later one."""
    inv = Inventory(path)
    for f in [inv.list] + inv.manifests:
        _rewrite(path, f, _avro_rewrite(inv.files[f], lambda recs: recs, sync_interval=1))


def _variant_cur(value):
    def f(path: str) -> None:
        inv = Inventory(path)
        md = json.loads(inv.files[inv.meta].decode())
        md["current_snapshot_id"] = value
        _rewrite(path, inv.meta, json.dumps(md, indent=2).encode())
    return f


def _variant_hint(content: Optional[bytes]):
    def f(path: str) -> None:
        if content is None:
            os.remove(os.path.join(path, HINT_PATH))
        else:
            _rewrite(path, HINT_PATH, content)
    return f


# name -> (shape, transform, full damage matrix?)
VARIANTS: Dict[str, Tuple[List[List[int]], Any, bool]] = {
    "json": ([[2, 1], [2]], variant_json, True),
    "dup": ([[2, 1], [2]], variant_dup, True),
    "nosum": ([[2, 1], [2]], variant_nosum, True),
    "rowgroups": ([[7, 5], [6]], variant_rowgroups, True),
    "blocks": ([[2, 1, 1], [1, 2]], variant_blocks, True),
    "dangling": ([[2], [1]], _variant_cur(424242), False),
    "cur-minus1": ([[2], [1]], _variant_cur(-1), False),
    "cur-null": ([[2], [1]], _variant_cur(None), False),
    "no-pointer": ([[2], [1]], _variant_hint(None), False),
    "bad-pointer": ([[2], [1]], _variant_hint(b"\xff\xfenot a pointer"), False),
    "legacy-pointer-missing-file": ([[2], [1]], _variant_hint(b"7"), False),
}


# ====================================================================================== instrumentation
OPNAME = {"exists": "OpExists", "open_file": "OpOpen", "read_file": "OpRead", "list_files": "OpList", "open_parquet_source": "OpOpen"}


class _FailingStream:
    """A stream that opens fine and fails while it is being read (transient error while streaming): on the first
    read, or -- limit given -- once `limit` bytes have been delivered (the reader has already decoded what came
    before)."""

    def __init__(self, inner, limit: int = 0):
        self.inner = inner
        self.limit = limit
        self.given = 0

    def read(self, *a):
        if self.given >= self.limit:
            raise TransientIO("injected transient read error")
        data = self.inner.read(*a)       # a read that begins below the limit is served whole
        self.given += len(data)
        return data

    def __enter__(self):
        return self

    def __exit__(self, *a):
        self.inner.close()
        return False

    def close(self):
        self.inner.close()

    def __getattr__(self, name):
        return getattr(self.inner, name)


def outage_covers(o: Dict[str, Any], idx: int, rel: str, op: str) -> bool:
    if idx < o.get("from", 0) or (o.get("len") is not None and idx >= o["from"] + o["len"]):
        return False
    if o.get("ops", "all") == "reads" and op not in ("OpRead", "OpOpen"):
        return False
    if o.get("ops", "all") == "probes" and op not in ("OpExists", "OpList"):
        return False
    cls = "pointer" if rel == HINT_PATH else "data" if rel.startswith("data/") else "metadata"
    return o.get("paths", "all") in ("all", cls)


class _NotifyClose:
    """A stream proxy that reports when the library has finished with the stream (close / end of `with`)."""

    def __init__(self, inner, on_close):
        self._inner, self._on_close = inner, on_close

    def __getattr__(self, name):
        return getattr(self._inner, name)

    def __enter__(self):
        return self

    def __exit__(self, *a):
        self.close()
        return False

    def __iter__(self):
        return iter(self._inner)

    def close(self):
        try:
            self._inner.close()
        finally:
            cb, self._on_close = self._on_close, None
            if cb:
                cb()


class Instr:
    """Wraps the storage calls of one Table handle: records (path, op, occurrence), injects one transient fault, or
    changes the store DURING the call: `mutation` = (path, k, apply) runs apply() as soon as the k-th storage
    operation on `path` (0-based, any kind) has finished -- for a stream, when the library closes it or issues its
    next storage operation, whichever comes first."""

    def __init__(self, table, fault: Optional[Tuple[str, str, int, str]] = None, mutation: Optional[Tuple[str, int, Any]] = None,
                 outage: Optional[Dict[str, Any]] = None):
        import threading
        self.table = table
        # outage = {"from": k, "len": m | None, "ops": "all"|"reads"|"probes", "paths": "all"|"pointer"|"metadata"|"data"}:
        # every storage call of the selected kind whose index in the call (0-based, all calls counted) lies in
        # [k, k+m) raises a transient OSError (m None = until the end of the call)
        self.outage = outage
        self.outage_hits: List[Tuple[int, str, str]] = []
        self.ncalls = 0
        self.fault = fault          # (path, op, occurrence, mode) mode in {"call", "stream"}
        self.mutation = mutation
        self.mutated = False
        self.pending = False
        self.path_ops: Dict[str, int] = {}
        self.fired = False
        self.trace: List[Tuple[str, str, int]] = []
        self.counts: Dict[Tuple[str, str], int] = {}
        self.lock = threading.Lock()
        st = table.storage
        dfm = table.file_manager.data_file_manager
        self._orig = {(st, n): getattr(st, n) for n in ("exists", "open_file", "read_file", "list_files")}
        self._orig[(dfm, "open_parquet_source")] = dfm.open_parquet_source
        for (obj, name), fn in self._orig.items():
            setattr(obj, name, self._wrap(name, fn))

    def restore(self) -> None:
        for (obj, name), _fn in self._orig.items():
            try:
                delattr(obj, name)
            except AttributeError:
                pass

    def _wrap(self, name: str, fn):
        op = OPNAME[name]

        def wrapped(path, *a, **kw):
            rel = path.lstrip("/")
            with self.lock:
                if self.pending:
                    self._mutate()                  # a stream left open: the next storage operation ends it
                occ = self.counts.get((rel, op), 0)
                self.counts[(rel, op)] = occ + 1
                self.trace.append((rel, op, occ))
                nth = self.path_ops.get(rel, 0)
                self.path_ops[rel] = nth + 1
                due = self.mutation is not None and not self.mutated and self.mutation[0] == rel and self.mutation[1] == nth
                hit = self.fault is not None and self.fault[:3] == (rel, op, occ)
                if hit:
                    self.fired = True
                idx = self.ncalls
                self.ncalls += 1
                down = self.outage is not None and outage_covers(self.outage, idx, rel, op)
                if down:
                    self.outage_hits.append((idx, rel, op))
            if down:
                raise TransientIO(f"injected outage: {name}({rel}) is storage call #{idx} of the read")
            if hit and self.fault[3] == "call":
                raise TransientIO(f"injected transient error on {name}({rel})")
            try:
                res = fn(path, *a, **kw)
            except BaseException:
                if due:
                    with self.lock:
                        self._mutate()
                raise
            if due:
                with self.lock:
                    if name in ("open_file", "open_parquet_source"):
                        self.pending = True
                        res = _NotifyClose(res, self._mutate_locked)
                    else:
                        self._mutate()
            if hit and self.fault[3].startswith("stream"):
                return _FailingStream(res, int(self.fault[3].partition("@")[2] or 0))
            return res
        return wrapped

    def _mutate(self) -> None:
        if not self.mutated:
            self.mutated = True
            self.pending = False
            self.mutated_after = len(self.trace)
            self.mutation[2]()

    def _mutate_locked(self) -> None:
        with self.lock:
            self._mutate()


def row_id(r: Dict[str, Any]) -> int:
    """The row's identity: its `id` column (under whatever name a damaged-but-parsing footer gives it)."""
    if "id" in r:
        return r["id"]
    return next((v for v in r.values() if isinstance(v, int)), -1)


def run_api(table, api: str, verify: bool, flt: Optional[Dict[str, Any]] = None) -> Dict[str, Any]:
    """Returns {"ok": bool, "rows"/"count", "yielded", "exc", "kind"}."""
    got: List[int] = []
    try:
        with bounded(CALL_LIMIT_S, f"{api}(verify={verify})"):
            return _run_api(table, api, verify, flt, got)
    except LibraryHang as e:
        return {"ok": False, "exc": "LibraryHang", "msg": str(e), "kind": "HANG", "hung": True, "yielded": got if api in BATCH else []}


def _run_api(table, api: str, verify: bool, flt: Optional[Dict[str, Any]], got: List[int]) -> Dict[str, Any]:
    try:
        if api == "Scan":
            got.extend(row_id(r) for r in table.scan(verify_checksums=verify, filter=flt))
        elif api == "ScanPar":
            got.extend(row_id(r) for r in table.scan(parallel=2, verify_checksums=verify, filter=flt))
        elif api == "Batches":
            for b in table.scan_batches(batch_size=BATCH["Batches"], verify_checksums=verify, filter=flt):
                got.extend(row_id(r) for r in b)
        elif api == "IterRecords":
            for r in table.iter_records(verify_checksums=verify, filter=flt):
                got.append(row_id(r))
        elif api == "RowCount":
            return {"ok": True, "count": table.row_count(), "yielded": []}
        else:
            raise AssertionError(api)
        return {"ok": True, "rows": got, "yielded": got}
    except Exception as e:  # noqa: BLE001 - any exception is "raises"
        return {"ok": False, "exc": type(e).__name__, "msg": str(e)[:200], "kind": exc_kind(e),
                "yielded": got if api in BATCH else []}


def exc_kind(e: BaseException) -> str:
    from datashard.integrity import CorruptDataError
    if isinstance(e, TransientIO):
        return "EIO"
    if isinstance(e, CorruptDataError):
        return "ECorrupt"
    if isinstance(e, FileNotFoundError):
        return "ENotFound"
    if isinstance(e, RuntimeError) and "inconsistent" in str(e):
        return "EInconsistent"
    return "EParse"


# ====================================================================================== parser outcomes (model parameters)
_CLASSIFY: Dict[Tuple[str, bytes], Any] = {}
LIST_REQ = ["manifest_path", "manifest_length", "partition_spec_id", "added_snapshot_id", "added_data_files_count",
            "existing_data_files_count", "deleted_data_files_count", "content"]
FILE_REQ_AVRO = ["file_path", "file_format", "partition", "record_count", "file_size_in_bytes"]
FILE_REQ_JSON = ["file_path", "file_format", "partition_values", "record_count", "file_size_in_bytes"]


def _mro(e: BaseException) -> List[str]:
    return [c.__name__ for c in type(e).__mro__ if c not in (object, BaseException)]


def classify(kind: str, b: bytes) -> Any:
    """kind in avro_list / json_list / avro_man / json_man / parquet:<batch> / meta / hint.  Results:
    ("ok", value) | ("raise", mro)"""
    key = (kind, b)
    if key in _CLASSIFY:
        return _CLASSIFY[key]
    try:
        if kind == "avro_list":
            out = []
            for r in avro_records(b):
                for k in LIST_REQ:
                    r[k]
                if r["content"] not in (0, 1):
                    raise ValueError("content")
                out.append(r["manifest_path"])
            res = ("ok", out)
        elif kind == "json_list":
            out = []
            for r in _json_section(b, "manifests"):
                for k in LIST_REQ:
                    r[k]
                if r["content"] not in (0, 1):
                    raise ValueError("content")
                out.append(r["manifest_path"])
            res = ("ok", out)
        elif kind == "avro_man":
            out = []
            for r in avro_records(b):
                df = r["data_file"]
                for k in FILE_REQ_AVRO:
                    df[k]
                df["partition"]["values"]
                if df["file_format"] not in ("parquet", "avro", "orc"):
                    raise ValueError("file_format")
                out.append((df["file_path"], df["record_count"], df.get("checksum")))
            res = ("ok", out)
        elif kind == "json_man":
            out = []
            for df in _json_section(b, "files"):
                for k in FILE_REQ_JSON:
                    df[k]
                if df["file_format"] not in ("parquet", "avro", "orc"):
                    raise ValueError("file_format")
                out.append((df["file_path"], df["record_count"], df.get("checksum")))
            res = ("ok", out)
        elif kind == "parquet:scan":
            # one-shot read as scan() does it: read_table, then concat with the other files' tables, then to_pylist.
            # ("fail", [], late): late = the file itself reads, the failure comes after every file has been read
            import pyarrow as pa
            import pyarrow.parquet as pq
            try:
                t = pq.read_table(io.BytesIO(b))
            except Exception:
                t = None
            if t is None:
                res = ("fail", [], False)
            elif not t.schema.equals(pa.schema([("id", pa.int64()), ("s", pa.string())]), check_metadata=False):
                res = ("fail", [], True)            # pa.concat_tables refuses the odd schema
            else:
                try:
                    res = ("ok", [row_id(r) for r in t.to_pylist()])
                except Exception:
                    res = ("fail", [], True)        # to_pylist() of the combined table fails
        elif kind == "parquet:raw-batches":
            import pyarrow.parquet as pq
            pf = pq.ParquetFile(io.BytesIO(b))
            res = ("ok", sum(bt.num_rows for bt in pf.iter_batches(batch_size=2)))
        elif kind.startswith("parquet:"):
            # the generator APIs: ParquetFile.iter_batches + to_pylist per batch, then the library's guard that the
            # file produced as many rows as its own footer declares
            import pyarrow as pa
            import pyarrow.parquet as pq
            bs = int(kind.split(":")[1])
            got: List[int] = []
            try:
                pf = pq.ParquetFile(io.BytesIO(b))
                for batch in pf.iter_batches(batch_size=bs):
                    got.extend(row_id(r) for r in pa.Table.from_batches([batch]).to_pylist())
                res = ("ok", got) if len(got) == pf.metadata.num_rows else ("fail", got, False)
            except Exception:
                res = ("fail", got, False)
        elif kind == "meta":
            from datashard.metadata_manager import MetadataManager
            d = json.loads(b.decode("utf-8"))
            md = MetadataManager._dict_to_metadata(MetadataManager.__new__(MetadataManager), d)
            res = ("ok", (md.current_snapshot_id, [(s.snapshot_id, s.manifest_list.lstrip("/")) for s in md.snapshots]))
        elif kind == "hint":
            from datashard.metadata_manager import MetadataManager
            r = MetadataManager._parse_hint_content(b)
            res = ("ok", None if r is None else "metadata/" + r[1])
        else:
            raise AssertionError(kind)
    except Exception as e:  # noqa: BLE001
        res = ("raise", _mro(e))
    _CLASSIFY[key] = res
    return res


def unparseable(role: str, b: bytes) -> bool:
    """Independent label: no parser of that role accepts the bytes at all."""
    if role == "meta":
        try:
            return not isinstance(json.loads(b.decode("utf-8")), dict)
        except Exception:
            return True
    if role in ("list", "manifest"):
        try:
            avro_records(b)
            return False
        except Exception:
            pass
        try:
            return not isinstance(json.loads(b.decode("utf-8")), dict)
        except Exception:
            return True
    try:
        parquet_rows(b)
        return False
    except Exception:
        return True


# ====================================================================================== damage generation
def avro_boundaries(b: bytes) -> List[int]:
    """End of the Avro header (after the sync marker) and the end of every block."""
    import fastavro
    out = []
    try:
        bio = io.BytesIO(b)
        rd = fastavro.reader(bio)
        sync = rd._header["sync"] if hasattr(rd, "_header") else None
        if sync:
            pos = 0
            while True:
                i = b.find(sync, pos)
                if i < 0:
                    break
                out.append(i + len(sync))
                pos = i + 1
    except Exception:
        pass
    return out


def parquet_boundaries(b: bytes) -> List[int]:
    out = [4]
    if len(b) > 12:
        flen = int.from_bytes(b[-8:-4], "little")
        out += [len(b) - 8 - flen, len(b) - 8, len(b) - 4]
    return [o for o in out if 0 < o < len(b)]


def json_boundaries(b: bytes) -> List[int]:
    out = []
    for ch in (b"{", b"}", b"[", b"]", b","):
        i = b.find(ch)
        if i >= 0:
            out.append(i + 1)
        j = b.rfind(ch)
        if j >= 0:
            out.append(j)
    return sorted(set(o for o in out if 0 < o < len(b)))


def _set_field(rec: Dict[str, Any], field: str, value: Any) -> None:
    tgt = rec
    parts = field.split(".")
    for part in parts[:-1]:
        tgt = tgt[part]
    tgt[parts[-1]] = value


def _get_field(rec: Dict[str, Any], field: str) -> Any:
    for part in field.split("."):
        rec = rec[part]
    return rec


LIST_EDITS = [("content", 1), ("manifest_length", 0), ("manifest_length", 1 << 40), ("partition_spec_id", 7), ("added_snapshot_id", 1),
              ("sequence_number", 0), ("sequence_number", None), ("min_sequence_number", 999), ("added_data_files_count", 0),
              ("existing_data_files_count", 9), ("deleted_data_files_count", 5), ("manifest_path", "@other")]
MANIFEST_EDITS = [("status", 0), ("status", 2), ("snapshot_id", 1), ("sequence_number", None), ("file_sequence_number", 0),
                  ("data_file.record_count", 0), ("data_file.record_count", "@plus1"), ("data_file.file_size_in_bytes", 0),
                  ("data_file.file_format", "orc"), ("data_file.checksum", None), ("data_file.checksum", "@other"),
                  ("data_file.file_path", "@other"), ("data_file.lower_bounds", None), ("data_file.value_counts", None)]


def field_edit(inv: Inventory, path: str, name: str) -> Optional[Dict[str, Any]]:
    """edit:<record index | all>:<field>=<json value>: decode the Avro container, change one field of one record
    (or of every record), re-encode.  The file parses exactly as before; only its meaning may differ.
    "@other" = the value the next record holds in that field; "@plus1" = the value plus one."""
    _e, rec_s, rest = name.split(":", 2)
    field, _eq, val_s = rest.partition("=")
    value = json.loads(val_s)

    def edit(recs):
        if not recs:
            raise ValueError("no records")
        idxs = range(len(recs)) if rec_s == "all" else [int(rec_s)]
        for i in idxs:
            if i >= len(recs):
                raise ValueError("no such record")
            v = value
            if v == "@other":
                if len(recs) < 2:
                    raise ValueError("no other record")
                v = _get_field(recs[(i + 1) % len(recs)], field)
            elif v == "@plus1":
                v = _get_field(recs[i], field) + 1
            _set_field(recs[i], field, v)
        return recs
    try:
        new = _avro_rewrite(inv.files[path], edit)
    except Exception:
        return None
    return {"name": name, "class": "edit", "writes": {path: new}}


def field_edits_for(inv: Inventory, path: str, tier: str) -> List[Dict[str, Any]]:
    """Field-level edits of every kind on the first and the last record (every record in thorough), the content /
    status edit on every record at once, and every single-byte flip of the file that still decodes to records which
    differ from the original in some field (one flip per record and field)."""
    role = inv.roles[path]
    table = LIST_EDITS if role == "list" else MANIFEST_EDITS
    try:
        recs = avro_records(inv.files[path])
    except Exception:
        return []
    out: List[Dict[str, Any]] = []
    which = range(len(recs)) if tier == "thorough" else [len(recs) - 1]
    for i in which:
        for field, value in table:
            d = field_edit(inv, path, f"edit:{i}:{field}={json.dumps(value)}")
            if d is not None and d["writes"][path] != inv.files[path]:
                out.append(d)
    for field, value in table[:2]:
        d = field_edit(inv, path, f"edit:all:{field}={json.dumps(value)}")
        if d is not None:
            out.append(d)
    # single-byte flips that still parse with a different meaning
    orig = inv.files[path]
    base = json.dumps(recs, sort_keys=True, default=str)
    seen = set()
    import fastavro
    for o in range(len(orig)):
        for mask in (0x02, 0x01, 0xFF):
            b2 = orig[:o] + bytes([orig[o] ^ mask]) + orig[o + 1:]
            try:
                r2 = list(fastavro.reader(io.BytesIO(b2)))
            except Exception:
                continue
            if len(r2) != len(recs):
                key: Any = ("count", len(r2))
            else:
                key = None
                for i, (a, c) in enumerate(zip(recs, r2)):
                    if a != c:
                        fa = json.loads(json.dumps(a, sort_keys=True, default=str))
                        fc = json.loads(json.dumps(c, sort_keys=True, default=str))
                        diff = [k for k in fa if fa.get(k) != fc.get(k)]
                        key = (i, diff[0] if diff else "?")
                        if diff and diff[0] == "data_file" and isinstance(fc.get("data_file"), dict):
                            sub = [k for k in fa["data_file"] if fa["data_file"].get(k) != fc["data_file"].get(k)]
                            key = (i, "data_file." + (sub[0] if sub else "?"))
                        break
            if key is None or key in seen:
                continue
            seen.add(key)
            if tier != "thorough" and len(seen) > 10:
                continue
            out.append({"name": f"xor@{o}:{mask}", "class": "edit", "writes": {path: b2}, "field": str(key)})
    del base
    return out


def avro_blocks(b: bytes) -> List[Tuple[int, int]]:
    """[start, end) of every data block of an Avro container (end = just after the block's sync marker)."""
    bounds = avro_boundaries(b)
    return list(zip(bounds, bounds[1:]))


def decodable_prefix(b: bytes) -> Tuple[int, bool]:
    """(records a streaming Avro decoder hands out, whether it then raises) -- for the evidence."""
    import fastavro
    n = 0
    try:
        for _ in fastavro.reader(io.BytesIO(b)):
            n += 1
    except Exception:  # noqa: BLE001
        return n, True
    return n, False


def block_damages(inv: Inventory, path: str, tier: str, rng: random.Random) -> List[Dict[str, Any]]:
    """Damage placed by the container's BLOCK structure, for every block (quick: the first, the second and the
    last): the file cut in the middle of the block, everything from the middle of the block on replaced by random
    bytes, the block's first byte (its record count) flipped, and a stream that fails once the bytes before the
    middle of the block have been delivered.  On a container of several blocks a streaming decoder has handed out
    the records of the blocks BEFORE the damaged one when it fails: `prefix` records that a reader must not keep."""
    blocks = avro_blocks(inv.files[path])
    which = list(range(len(blocks)))
    if tier != "thorough":
        which = sorted(set(which[:2] + which[-1:]))
    out = []
    for j in which[:12]:
        for name in (f"blockcut@{j}", f"blockrand@{j}:{rng.randrange(10 ** 6)}", f"blockflip@{j}", f"transient-stream@{j}:OpOpen:0"):
            d = damage_by_name(inv, path, name)
            if d is not None:
                out.append(d)
    return out


def damage_by_name(inv: Inventory, path: str, name: str) -> Optional[Dict[str, Any]]:
    """Rebuild one damage from its name alone (replay, shrinking)."""
    orig = inv.files.get(path, b"")
    n = len(orig)
    if name.startswith("block") or name.startswith("transient-stream@"):
        head, _, rest = name.partition("@")
        j = int(rest.split(":")[0])
        blocks = avro_blocks(orig)
        if j >= len(blocks):
            return None
        start, end = blocks[j]
        mid = start + max(1, (end - start - 16) // 2)
        extra = {"tail": True, "block": j, "blocks": len(blocks)}
        if head == "transient-stream":
            _k, op, occ = name.split(":")
            return dict(extra, name=name, **{"class": "transient"}, writes={}, fault=(path, op, int(occ), f"stream@{mid}"),
                        prefix=decodable_prefix(orig[:start])[0])
        if head == "blockcut":
            new = orig[:mid]
        elif head == "blockrand":
            rs = random.Random(int(rest.split(":")[1]))
            new = orig[:mid] + bytes(rs.randrange(256) for _ in range(n - mid))
        elif head == "blockflip":
            new = orig[:start] + bytes([orig[start] ^ 0xFF]) + orig[start + 1:]
        else:
            return None
        cls = {"blockcut": "truncate", "blockrand": "replace", "blockflip": "flip"}[head]
        return dict(extra, name=name, **{"class": cls}, writes={path: new}, prefix=decodable_prefix(new)[0])
    if name.startswith("edit:"):
        return field_edit(inv, path, name)
    if name.startswith("xor@"):
        o, mask = name[4:].split(":")
        if int(o) < n:
            return {"name": name, "class": "flip" if inv.roles.get(path) == "data" else "edit", "writes": {path: orig[:int(o)] + bytes([orig[int(o)] ^ int(mask)]) + orig[int(o) + 1:]}}
        return None
    head, _, arg = name.partition("@")
    if name == "delete":
        return {"name": name, "class": "absent", "writes": {path: None}}
    if head == "truncate" and arg.isdigit() and int(arg) < n:
        return {"name": name, "class": "truncate", "writes": {path: orig[:int(arg)]}}
    if head == "flip" and arg.isdigit() and int(arg) < n:
        o = int(arg)
        return {"name": name, "class": "flip", "writes": {path: orig[:o] + bytes([orig[o] ^ 0xFF]) + orig[o + 1:]}}
    if name.startswith("random:") or name.startswith("random-noncaught:"):
        rs = random.Random(int(name.rsplit(":", 1)[1]))
        return {"name": name, "class": "replace", "writes": {path: bytes(rs.randrange(256) for _ in range(n))}}
    if name == "braces":
        return {"name": name, "class": "replace", "writes": {path: b"{}"}}
    if name == "text":
        return {"name": name, "class": "replace", "writes": {path: b"not a table file\n"}}
    if name == "swap-sibling" and inv.siblings(path):
        sib = inv.siblings(path)[0]
        return {"name": name, "class": "swap", "writes": {path: inv.files[sib], sib: orig}, "sibling": sib}
    if name.startswith("transient"):
        kind, op, occ = name.split(":")
        return {"name": name, "class": "transient", "writes": {}, "fault": (path, op, int(occ), "stream" if kind == "transient-stream" else "call")}
    return None


def damages_for(inv: Inventory, path: str, tier: str, rng: random.Random, edits: bool = True) -> List[Dict[str, Any]]:
    """Each damage: {"name", "writes": {path: bytes|None}, "fault": (path, op, occ, mode)|None, "class"}."""
    role = inv.roles[path]
    orig = inv.files[path]
    n = len(orig)
    if role == "pointer":
        return [{"name": f"transient:{op}:{occ}", "class": "transient", "writes": {}, "fault": (path, op, occ, "call")}
                for op, occ in (("OpExists", 0), ("OpRead", 0), ("OpExists", 1), ("OpRead", 1))]
    out: List[Dict[str, Any]] = [{"name": "delete", "class": "absent", "writes": {path: None}}]
    bounds = {"meta": json_boundaries, "list": avro_boundaries, "manifest": avro_boundaries, "data": parquet_boundaries}[role](orig)
    offs = set([0, 1, n // 2, n - 1] + bounds + [b - 1 for b in bounds if b > 1])
    if tier == "thorough":
        offs |= set(range(0, n, max(1, n // 24)))
    else:
        offs |= set(rng.sample(range(n), min(3, n)))
    for o in sorted(x for x in offs if 0 <= x < n):
        out.append({"name": f"truncate@{o}", "class": "truncate", "writes": {path: orig[:o]}, "structural": o in bounds})
    out.append(damage_by_name(inv, path, f"random:{rng.randrange(10 ** 6)}"))
    if role in ("list", "manifest"):
        out.extend(block_damages(inv, path, tier, rng))
        if edits:
            out.extend(field_edits_for(inv, path, tier))
    if role in ("list", "manifest"):
        # bytes on which fastavro raises something OUTSIDE the fallback tuple (MemoryError from a huge header read,
        # KeyError 'avro.schema'): the reader must let it propagate, not fall back, and certainly not return
        found = set()
        for seed in range(400):
            rs = random.Random(seed)
            cand = bytes(rs.randrange(256) for _ in range(n))
            try:
                avro_records(cand)
                cls = "ok"
            except ValueError:
                continue
            except Exception as e:  # noqa: BLE001
                cls = type(e).__name__
            if cls not in found:
                found.add(cls)
                out.append({"name": f"random-noncaught:{cls}:{seed}", "class": "replace", "writes": {path: cand}})
            if len(found) >= 2:
                break
    out.append({"name": "braces", "class": "replace", "writes": {path: b"{}"}})
    if tier == "thorough":
        out.append({"name": "text", "class": "replace", "writes": {path: b"not a table file\n"}})
    flips = set(([0, 3, n // 3, n // 2, n - 5, n - 1] if tier == "thorough" else [0, n // 2, n - 1]) + [b for b in bounds if b < n])
    if tier == "thorough":
        flips |= set(range(0, n, max(1, n // 32)))
    for o in sorted(x for x in flips if 0 <= x < n):
        out.append({"name": f"flip@{o}", "class": "flip", "writes": {path: orig[:o] + bytes([orig[o] ^ 0xFF]) + orig[o + 1:]}})
    if role == "data":
        # flips inside a value page that still parse as parquet and change a cell: invisible to every parser,
        # visible only to the checksum
        base = classify("parquet:scan", orig)
        found = 0
        for o in range(4, min(n, 400)):
            if o in flips:
                continue
            r = classify("parquet:scan", orig[:o] + bytes([orig[o] ^ 0xFF]) + orig[o + 1:])
            if r[0] == "ok" and r[1] != base[1]:
                out.append(dict(damage_by_name(inv, path, f"flip@{o}"), value_flip=True))
                found += 1
                if found >= 2:
                    break
    if role == "data" and len(bounds) >= 2 and (tier == "thorough" or inv.data.index(path) < 2):
        # footer damage found per field by search: every single-byte change (several masks: a count made smaller or
        # larger, an offset moved) of the footer after which ParquetFile.iter_batches runs to the end WITHOUT an error
        # yet hands out fewer rows than the file holds -- row-group num_rows, column-chunk num_values, offsets, in
        # files with one or several row groups.  One damage per distinct outcome (rows handed out, what the
        # one-shot reader says); the generator APIs must raise on all of them.
        full = len(inv.file_rows[path])
        seen_sig = set()
        for o in range(bounds[1], bounds[-2] if len(bounds) > 2 else n):
            for mask in ((0xFF, 0x01, 0x02, 0x04, 0x08, 0x10, 0x20, 0x40, 0x80) if tier == "thorough" else (0xFF, 0x01, 0x04, 0x20)):
                b2 = orig[:o] + bytes([orig[o] ^ mask]) + orig[o + 1:]
                rb = classify("parquet:raw-batches", b2)
                if rb[0] != "ok" or rb[1] >= full:
                    continue
                sig = (rb[1], classify("parquet:scan", b2)[0])
                if sig in seen_sig:
                    continue
                seen_sig.add(sig)
                out.append(dict(damage_by_name(inv, path, f"xor@{o}:{mask}"), footer_flip=True, field=f"rows handed out {rb[1]}/{full}"))
            if len(seen_sig) >= (8 if tier == "thorough" else 3):
                break
    for sib in inv.siblings(path):
        out.append({"name": "swap-sibling", "class": "swap", "writes": {path: inv.files[sib], sib: orig}, "sibling": sib})
    sites = {"meta": [("OpExists", 0), ("OpRead", 0), ("OpExists", 1), ("OpRead", 1)],
             "list": [("OpExists", 0), ("OpExists", 1), ("OpOpen", 0), ("OpRead", 0)],
             "manifest": [("OpExists", 0), ("OpExists", 1), ("OpOpen", 0), ("OpRead", 0)],
             "data": [("OpRead", 0), ("OpOpen", 0), ("OpRead", 1)]}[role]
    for op, occ in sites:
        out.append({"name": f"transient:{op}:{occ}", "class": "transient", "writes": {}, "fault": (path, op, occ, "call")})
        if op == "OpOpen" and role in ("list", "manifest"):
            out.append({"name": f"transient-stream:{op}:{occ}", "class": "transient", "writes": {}, "fault": (path, op, occ, "stream")})
    return out


def apply_damage(inv: Inventory, dmg: Dict[str, Any], atomic: bool = False) -> None:
    """atomic: replace the file by a new one (rename), so a stream that is already open keeps the old bytes --
    the damage becomes visible to the NEXT storage operation, not to one in flight."""
    for p, b in dmg["writes"].items():
        full = os.path.join(inv.path, p)
        if b is None:
            if os.path.exists(full):
                os.remove(full)
        elif atomic:
            with open(full + ".dmg", "wb") as f:
                f.write(b)
            os.replace(full + ".dmg", full)
        else:
            with open(full, "wb") as f:
                f.write(b)


def undo_damage(inv: Inventory, dmg: Dict[str, Any]) -> None:
    for p in dmg["writes"]:
        with open(os.path.join(inv.path, p), "wb") as f:
            f.write(inv.files[p])


# ====================================================================================== model rendering
class Namer:
    def __init__(self, start: int):
        self.ids: Dict[Any, int] = {}
        self.next = start

    def __call__(self, x: Any) -> int:
        if x not in self.ids:
            self.ids[x] = self.next
            self.next += 1
        return self.ids[x]


class ModelCtx:
    """Names for keys / byte strings, and the parser-outcome tables, shared by all cases of one table."""

    def __init__(self, inv: Inventory):
        self.inv = inv
        self.key = Namer(2)
        self.bytes_ = Namer(1)
        self.key.ids[HINT_PATH] = 0
        self.key.ids["metadata"] = 1
        for p in sorted(inv.files):
            self.key(p)
        self.seen_bytes: Dict[int, bytes] = {}

    def K(self, path: str) -> str:
        return f"{self.key(path.lstrip('/'))}%N"

    def B(self, b: bytes) -> int:
        i = self.bytes_(b)
        self.seen_bytes[i] = b
        return i

    def sha(self, b: bytes) -> str:
        return f"{int(hashlib.sha256(b).hexdigest()[:12], 16)}%N"

    @staticmethod
    def sha_of_hex(h: Optional[str]) -> str:
        if not h:
            return "None"
        try:
            return f"(Some {int(h[:12], 16)}%N)"
        except ValueError:
            return "(Some 0%N)"

    def mro(self, names: List[str]) -> str:
        return "[" + "; ".join(f'"{n}"%string' for n in names) + "]"

    def paths(self, ps: List[Any]) -> str:
        return "[" + "; ".join("None" if not p else f"(Some {self.K(p)})" for p in ps) + "]"

    def dfiles(self, ds: List[Tuple[str, int, Optional[str]]]) -> str:
        return "[" + "; ".join(f"{{| dpath := {self.K(p)}; dcount := ({c})%Z; dsum := {self.sha_of_hex(h)} |}}" for p, c, h in ds) + "]"

    def entries(self, b: bytes, batch: Any) -> Dict[str, Any]:
        """One table entry per env component for byte string b."""
        i = self.B(b)
        e: Dict[str, str] = {"sha": f"({i}%N, {self.sha(b)})"}
        r = classify("hint", b)
        e["hint"] = f"({i}%N, {'None' if r[0] != 'ok' or r[1] is None else '(Some ' + self.K(r[1]) + ')'})"
        r = classify("meta", b)
        if r[0] == "ok":
            cur, snaps = r[1]
            cur_s = "None" if cur is None else f"(Some ({cur})%Z)"
            sn = "[" + "; ".join(f"{{| sid := ({sid})%Z; slist := {self.K(p)} |}}" for sid, p in snaps) + "]"
            e["meta"] = f"({i}%N, Some {{| mcur := {cur_s}; msnaps := {sn} |}})"
        else:
            e["meta"] = f"({i}%N, None)"
        for nm, kind, render in (("alist", "avro_list", self.paths), ("aman", "avro_man", self.dfiles)):
            r = classify(kind, b)
            e[nm] = f"({i}%N, AvOk {render(r[1])})" if r[0] == "ok" else f"({i}%N, AvRaise {self.mro(r[1])})"
        for nm, kind, render in (("jlist", "json_list", self.paths), ("jman", "json_man", self.dfiles)):
            r = classify(kind, b)
            e[nm] = f"({i}%N, Some {render(r[1])})" if r[0] == "ok" else f"({i}%N, None)"
        r = classify(f"parquet:{batch}", b)
        e["pq"] = f"({i}%N, PqOk {zlist(r[1])})" if r[0] == "ok" else f"({i}%N, PqFail {zlist(r[1])})"
        e["late"] = bool(r[0] != "ok" and r[2])
        return e


def zlist(xs: List[int]) -> str:
    return "[" + "; ".join(f"({x})%Z" for x in xs) + "]"


COMPONENTS = ["sha", "hint", "meta", "alist", "jlist", "aman", "jman", "pq"]


def preamble(mc: ModelCtx) -> str:
    """Base tables (the undamaged files) as Coq definitions."""
    inv = mc.inv
    cells = []
    tabs: Dict[str, List[str]] = {c: [] for c in COMPONENTS}
    for p in sorted(inv.files):
        b = inv.files[p]
        cells.append(f"({mc.K(p)}, Present {mc.B(b)}%N)")
        e = mc.entries(b, 2)
        for c in COMPONENTS:
            tabs[c].append(e[c])
    out = ["Definition base_store : list (key * cell) := [" + "; ".join(cells) + "]."]
    types = {"sha": "bytes * digest", "hint": "bytes * option key", "meta": "bytes * option meta",
             "alist": "bytes * avro (list (option key))", "jlist": "bytes * option (list (option key))",
             "aman": "bytes * avro (list dfile)", "jman": "bytes * option (list dfile)", "pq": "bytes * pq"}
    for c in COMPONENTS:
        out.append(f"Definition base_{c} : list ({types[c]}) := [" + "; ".join(dict.fromkeys(tabs[c])) + "].")
    out.append("Definition env_of (rec : option key) o_sha o_hint o_meta o_alist o_jlist o_aman o_jman o_pq : env := "
               "mk_env (o_sha ++ base_sha) (o_hint ++ base_hint) rec (o_meta ++ base_meta) (o_alist ++ base_alist) "
               "(o_jlist ++ base_jlist) (o_aman ++ base_aman) (o_jman ++ base_jman) (o_pq ++ base_pq).")
    return "\n".join(out) + "\n"


def model_expr(mc: ModelCtx, dmg: Dict[str, Any], recovered: Optional[str], api: str, verify: bool) -> Tuple[str, bool]:
    """The Coq expression for one case, and whether a damaged file fails only after the data stage (see classify)."""
    batch = BATCH.get(api, "scan")
    late = False
    cells = []
    ov: Dict[str, List[str]] = {c: [] for c in COMPONENTS}
    for p, b in dmg["writes"].items():
        if b is None:
            cells.append(f"({mc.K(p)}, Absent)")
        else:
            cells.append(f"({mc.K(p)}, Present {mc.B(b)}%N)")
            e = mc.entries(b, batch)
            late = late or e["late"]
            for c in COMPONENTS:
                ov[c].append(e[c])
    if dmg.get("fault"):
        p, op, occ, _mode = dmg["fault"]
        cells.append(f"({mc.K(p)}, Flaky ({op}, {occ}%nat) {mc.B(mc.inv.files.get(p, b''))}%N)")
    rec = "None" if recovered is None else f"(Some {mc.K(recovered)})"
    env = "env_of " + rec + " " + " ".join("[" + "; ".join(ov[c]) + "]" for c in COMPONENTS)
    return (f"show (read_current ({env}) (store_of ([{'; '.join(cells)}] ++ base_store)) {api} "
            f"{{| verify := {'true' if verify else 'false'} |}})"), late


def parse_model(v: Any) -> Dict[str, Any]:
    out, trace, yielded = v
    res: Dict[str, Any] = {"yielded": list(yielded)}
    if out.name == "Ok":
        ans = out.args[0]
        res["ok"] = True
        if ans.name == "ARows":
            res["rows"] = list(ans.args[0])
        else:
            res["count"] = ans.args[0]
    else:
        res["ok"] = False
        res["kind"] = out.args[0].name
    res["trace"] = [(k, s[0].name, s[1]) for k, s in trace]
    return res


# ====================================================================================== one table's worth of cases
def recovered_by_scan(inv: Inventory) -> Optional[str]:
    """What scanning the metadata directory recovers (C10's subject; a parameter of the C14 model)."""
    t = open_handle(inv.path)
    r = t.metadata_manager._recover_version_from_files()
    return None if r is None else "metadata/" + r[1]


def compare(mc: ModelCtx, api: str, impl: Dict[str, Any], trace: List[Tuple[str, str, int]], model: Dict[str, Any],
            late: bool = False, loose_occ: bool = False) -> Optional[str]:
    if impl["ok"] != model["ok"]:
        return f"outcome: impl {'returns' if impl['ok'] else 'raises ' + impl['exc']} / model {'Ok' if model['ok'] else 'Err ' + model['kind']}"
    if impl["ok"]:
        if api == "RowCount":
            if impl["count"] != model.get("count"):
                return f"count: impl {impl['count']} / model {model.get('count')}"
        elif impl["rows"] != model.get("rows"):
            return f"rows: impl {impl['rows']} / model {model.get('rows')}"
    else:
        if impl["kind"] != model["kind"]:
            return f"error kind: impl {impl['exc']} -> {impl['kind']} / model {model['kind']}"
        if api in BATCH and impl["yielded"] != model["yielded"]:
            return f"yielded prefix: impl {impl['yielded']} / model {model['yielded']}"
    it = [(mc.key(p), op, occ) for p, op, occ in trace]
    mt = model["trace"]
    if loose_occ:
        # the damage makes one file be listed twice: the model names a transient fault by call site, so its second
        # visit repeats the occurrence numbers of the first; compare (file, operation) sequences
        it = [(k, op, 0) for k, op, _o in it]
        mt = [(k, op, 0) for k, op, _o in mt]
    if api == "ScanPar":
        # worker threads: order among data files is free, and after a failure later files may or may not have started
        data_keys = {mc.key(d) for d in mc.inv.data}
        i_meta = [x for x in it if x[0] not in data_keys]
        m_meta = [x for x in mt if x[0] not in data_keys]
        if i_meta != m_meta:
            return f"trace (metadata part): impl {i_meta} / model {m_meta}"
        i_data = sorted(x for x in it if x[0] in data_keys)
        m_data = sorted(x for x in mt if x[0] in data_keys)
        if impl["ok"] and i_data != m_data:
            return f"trace (data part): impl {i_data} / model {m_data}"
        if not set(i_data) <= set(m_data):
            return f"trace (data part): impl {i_data} not within model {m_data}"
        return None
    if late and not impl["ok"] and api == "Scan":
        # the damaged file reads as a table; scan() fails when it combines / converts the tables, after reading the rest
        if it[:len(mt)] != mt:
            return f"trace (late failure): model {mt} is not a prefix of impl {it}"
        return None
    if it != mt:
        return f"trace: impl {it} / model {mt}"
    return None


def make_table(path: str, shape: List[Any], variant: Optional[str], record: Optional[List[Dict[str, Any]]] = None) -> "Inventory":
    build_table(path, shape, record)
    if variant:
        VARIANTS[variant][1](path)
    return Inventory(path)


REDUCED = ("delete", "braces", "swap-sibling", "truncate@1")   # + transient, structural truncations, random-noncaught


DATA_APIS = ["Scan", "ScanPar", "Batches", "IterRecords"]


def denotation(path: str) -> Optional["Inventory"]:
    """What the table on disk denotes to a reader that knows nothing of datashard; None when it denotes nothing."""
    try:
        d = Inventory(path)
    except Exception:  # noqa: BLE001
        return None
    return None if d.broken else d


def lost_checksums(inv: "Inventory") -> List[Dict[str, Any]]:
    """Implementation-only: every data file of the current snapshot that was ever given a write-time checksum must
    still be listed WITH that checksum, and it must be the SHA-256 of the file."""
    bad = []
    for entries in inv.manifest_entries():
        for p, _n, csum in entries:
            ever = inv.ever_checksummed.get(p)
            actual = hashlib.sha256(inv.files[p]).hexdigest() if p in inv.files else None
            if ever and (csum != ever or csum != actual):
                bad.append({"file": p, "recorded_now": csum, "recorded_at_write": ever, "sha256_of_file": actual})
    return bad


def probe_recorded_checksums(ctx, inv: "Inventory", shape: List[Any], tag: str) -> None:
    ctx.count(1, ("recorded-checksums", tag))
    bad = lost_checksums(inv)
    if bad:
        kinds = sorted({"delete" if isinstance(s, dict) and s.get("delete") else "expire" if isinstance(s, dict) else "append" for s in shape})
        ctx.violation("recorded-checksum-lost:" + "+".join(kinds),
                      f"after the history {shape} the current snapshot lists {len(bad)} data file(s) without the checksum recorded when they "
                      f"were written (first: {bad[0]}): verification can no longer detect a change of their bytes",
                      {"table": tag, "shape": shape, "variant": None, "probe": "recorded-checksums", "lost": bad[:4]})


def corr_history(ctx, mc: "ModelCtx", record: List[Dict[str, Any]], shape: List[Any], tag: str) -> None:
    """Write side: the manifests (entry lists: path, count, checksum) of the snapshot after every commit of the
    history, as an independent reader sees them, against Model/Read.v run_history on the same commits."""
    if not record:
        return
    commits, exprs = [], []

    def ck(h: Optional[str]) -> str:
        return ModelCtx.sha_of_hex(h)
    for step in record:
        dele = "[" + "; ".join(mc.K(p) for p in step["deleted"]) + "]"
        app = "[" + "; ".join(f"{{| dpath := {mc.K(p)}; dcount := ({n})%Z; dsum := {ck(h)} |}}" for p, n, h in step["appended"]) + "]"
        commits.append(f"{{| c_deleted := {dele}; c_appended := {app} |}}")
        exprs.append("map (map (fun d => (dpath d, dcount d, dsum d))) (run_history [" + "; ".join(commits) + "])")
    got = coqbuild.coq_eval(REQ, exprs, chunk=40)
    bad = []
    for i, (step, g) in enumerate(zip(record, got)):
        impl = [[(mc.key(p), n, (int(c[:12], 16) if c else None)) for p, n, c in m] for m in step["manifests_after"]]
        model = [[(k, n, (c.x if c is not None else None)) for k, n, c in m] for m in g]
        if impl != model:
            bad.append({"table": tag, "shape": shape, "commit": i, "step": step["step"], "why": f"manifests after the commit: impl {impl} / model {model}"})
    ctx.correspondence("run_history", len(record), bad)



def prior_reads(t, api: str) -> List[Dict[str, Any]]:
    """Session mode: what the handle has already done before the damage happens -- a verified read through the API
    under test and a verified read through another API (state shared between code paths)."""
    other = "Batches" if api in ("Scan", "ScanPar", "RowCount") else "Scan"
    return [run_api(t, api, True), run_api(t, other, True)]


def run_table(ctx, path: str, shape: List[List[int]], tag: str, file_limit: Optional[int] = None,
              variant: Optional[str] = None, reduced: Any = False, session: bool = False) -> None:
    """reduced: False | True | a set of roles whose damage list is reduced.
    session: every (damage, api, verify) case runs on a handle that has ALREADY read the undamaged table (twice);
    the damage happens between the reads.  The oracle and the model are the same: the outcome of a read depends
    only on the store at the time of the read."""
    import time
    t_start = time.time()
    record: List[Dict[str, Any]] = []
    inv = make_table(path, shape, variant, record)
    mc = ModelCtx(inv)
    if not variant:
        probe_recorded_checksums(ctx, inv, shape, tag)
        corr_history(ctx, mc, record, shape, tag)
    rng = ctx.rng
    healthy_rows = inv.rows
    cases: List[Dict[str, Any]] = []          # everything needed for the correspondence
    stats = ctx.stats.setdefault("cases", {})
    labelled = ctx.stats.setdefault("parses_after_damage", {})
    targets = inv.reachable()
    if file_limit is not None and len(targets) > file_limit:
        keep = [t for t in targets if t[1] in ("meta", "list")]
        rest = [t for t in targets if t[1] not in ("meta", "list")]
        targets = keep + rng.sample(rest, max(0, file_limit - len(keep)))
    # the undamaged table first: every API must return everything
    targets_dmgs: List[Tuple[str, str, Dict[str, Any]]] = [("", "none", {"name": "healthy", "class": "none", "writes": {}})]
    if HINT_PATH in inv.roles:
        targets = targets + [(HINT_PATH, "pointer")]
    # the directory listing of the recovery scan (reached when the pointer cannot name the metadata file)
    for occ in (0, 1):
        targets_dmgs.append(("metadata", "metadir", {"name": f"transient:OpList:{occ}", "class": "transient", "writes": {},
                                                     "fault": ("metadata", "OpList", occ, "call")}))
    for p, role in targets:
        for d in damages_for(inv, p, ctx.tier, rng):
            red = (role in reduced) if isinstance(reduced, (set, frozenset)) else bool(reduced)
            if red and not (d["name"] in REDUCED or d["class"] == "transient" or d.get("structural") or d.get("tail")
                            or d["name"].startswith("random") or d.get("footer_flip") or d.get("value_flip")):
                continue
            targets_dmgs.append((p, role, d))
    pre = "same-handle:" if session else ""
    if session:
        # damage that every parser accepts first: the cases where nothing but a re-hash can notice
        targets_dmgs.sort(key=lambda x: 0 if x[1] == "none" else 1 if (x[1] == "data" and (x[2]["class"] == "swap" or x[2].get("value_flip"))) else 2)
    for p, role, dmg in targets_dmgs:
        handles: Dict[Tuple[str, bool], Any] = {}
        if session and p:
            for api in APIS:
                for verify in ((True, False) if api != "RowCount" else (True,)):
                    t = open_handle(path)
                    for r0 in prior_reads(t, api):
                        if r0["ok"] == inv.broken:
                            ctx.violation(f"healthy-table-misread:prior:{api}", f"undamaged table, prior read gave {r0}", {"table": tag})
                    handles[(api, verify)] = t
        dmg_cache: Dict[str, Any] = {}
        apply_damage(inv, dmg)
        try:
            recovered = recovered_by_scan(inv)
            new_bytes = dmg["writes"].get(p) if p else None
            in_scope = (dmg["class"] == "absent" or dmg["class"] == "transient"
                        or (dmg["class"] in ("truncate", "replace", "flip") and unparseable(role, new_bytes)))
            # the file had a checksum recorded at write time (by any manifest of the table's history): any change of its
            # bytes must be detected, whatever commits happened since
            data_changed = (role == "data" and dmg["class"] in ("truncate", "replace", "flip", "swap")
                            and new_bytes != inv.files[p] and bool(inv.ever_checksummed.get(p)))
            for api in APIS:
                for verify in ((True, False) if api != "RowCount" else (True,)):
                    t = handles.get((api, verify)) or open_handle(path)
                    ins = Instr(t, dmg.get("fault"))
                    try:
                        impl = run_api(t, api, verify)
                    finally:
                        ins.restore()
                    touched = (ins.fired if dmg["class"] == "transient" else
                               any(x[0] in dmg["writes"] for x in ins.trace)) if p else False
                    ck = f"{role}:{dmg['class']}"
                    stats[ck] = stats.get(ck, 0) + 1
                    ctx.count(1, (tag, p, dmg["name"], api, verify))
                    case = {"table": tag, "shape": shape, "variant": variant, "role": role, "index": [q for q, r_ in inv.reachable() if r_ == role].index(p) if p and role not in ("pointer", "metadir") else 0,
                            "damage": dmg["name"], "api": api, "verify": verify}
                    if session:
                        case["session"] = True
                    CURRENT_CASE.clear()
                    CURRENT_CASE.update(case)
                    if impl.get("hung"):
                        ctx.violation(f"{pre}library-call-hung:{api}", f"{role} file {dmg['name']}: {api}(verify={verify}) did not return: {impl['msg']}",
                                      dict(case, got=impl, expect="returns-in-time"))
                    # ---------------- implementation-only oracle
                    answer_ok = impl["ok"] and ((api == "RowCount" and impl["count"] == len(healthy_rows))
                                                or (api != "RowCount" and impl["rows"] == healthy_rows))
                    if inv.broken:
                        answer_ok = not impl["ok"]          # the undamaged answer of a dangling table is: raises
                    if not p:
                        if inv.broken:
                            if impl["ok"]:
                                ctx.violation(f"dangling-snapshot-id-not-raised:{api}",
                                              f"current_snapshot_id matches no snapshot, {api} returned {impl}", dict(case, got=impl))
                        elif not answer_ok:
                            ctx.violation(f"healthy-table-misread:{api}", f"undamaged table: {api} gave {impl}", dict(case, got=impl))
                    elif data_changed and verify and api != "RowCount":
                        if impl["ok"] or impl["kind"] != "ECorrupt":
                            ctx.violation(f"{pre}checksum-not-detected:{dmg['class']}:{api}",
                                          f"{'one handle: verified read, then ' if session else ''}data file bytes changed ({dmg['name']}), verification on, {api} "
                                          f"{'returned ' + str(impl.get('rows')) if impl['ok'] else 'raised ' + impl['exc']} instead of CorruptDataError",
                                          dict(case, got=impl, expect="corrupt"))
                    elif role == "meta" and dmg["class"] == "absent" and impl["ok"]:
                        # with or without a pointer: the newest metadata file is gone and the previous version is served
                        empty = impl.get("rows", impl.get("count")) in ([], 0) and bool(healthy_rows)
                        if empty:
                            ctx.stats["known_finding_broken_table_reported_as_empty"] = ctx.stats.get("known_finding_broken_table_reported_as_empty", 0) + 1
                        ctx.violation(KNOWN_KEY + f":{api}" + (":same-handle" if session else "") + (":reported-as-empty" if empty else ""),
                                      f"current metadata file deleted: {api}(verify={verify}) returned "
                                      f"{impl.get('rows', impl.get('count'))} instead of raising (undamaged answer has {len(healthy_rows)} rows)"
                                      + (" -- the recovery scan settled on v0: a broken table reported as an EMPTY one" if empty else ""),
                                      dict(case, got=impl))
                    elif in_scope and touched and dmg["class"] == "transient" and answer_ok and impl["ok"]:
                        # the failing call was retried through the other reader and the retry read everything: complete
                        # rows, nothing partial (only possible for legacy JSON manifests; Avro files fail the JSON retry)
                        retried = ctx.stats.setdefault("transient_swallowed_retry_read_everything", {})
                        retried[f"{role}:{dmg['name']}"] = retried.get(f"{role}:{dmg['name']}", 0) + 1
                    elif in_scope and touched:
                        if impl["ok"]:
                            key = f"{pre}fail-open:{role}:{dmg['class']}:{api}"
                            what = (f"{'one handle: read, then ' if session else ''}{role} file {dmg['name']}: {api}(verify={verify}) returned "
                                    f"{impl.get('rows', impl.get('count'))} instead of raising (undamaged answer has {len(healthy_rows)} rows)")
                            ctx.violation(key, what, dict(case, got=impl))
                    elif not touched:
                        if not answer_ok:
                            ctx.violation(f"{pre}untouched-damage-changes-answer:{role}:{dmg['class']}:{api}",
                                          f"{role} file {dmg['name']} was not accessed by {api} yet the answer is {impl}", dict(case, got=impl))
                    else:
                        lk = f"{role}:{dmg['class']}:" + ("raises" if not impl["ok"] else "full" if answer_ok else "other-rows")
                        labelled[lk] = labelled.get(lk, 0) + 1
                        if impl["ok"] and not answer_ok:
                            # damage every parser accepts: the call may ignore it (original answer), refuse it (raise), or
                            # honour what the damaged files DENOTE to an independent reader (manifest paths, data file paths,
                            # recorded counts, the rows in the files) -- never something else, e.g. the table minus the
                            # manifests whose entries changed in a field that carries no read meaning
                            if "den" not in dmg_cache:
                                dmg_cache["den"] = denotation(path)
                            den = dmg_cache["den"]
                            got = impl["count"] if api == "RowCount" else impl["rows"]
                            if den is None or got != (den.count_total if api == "RowCount" else den.rows):
                                ctx.violation(f"{pre}parse-clean-damage-changes-answer:{role}:{dmg['class']}:{api}",
                                              f"{role} file {dmg['name']}{' [' + dmg['field'] + ']' if dmg.get('field') else ''} (parses exactly as before): "
                                              f"{api}(verify={verify}) returned {got}; the undamaged answer is {len(healthy_rows) if api == 'RowCount' else healthy_rows}, "
                                              f"the damaged files denote {'nothing readable' if den is None else (den.count_total if api == 'RowCount' else den.rows)}",
                                              dict(case, got=impl, expect="denotation"))
                    expr, late = model_expr(mc, dmg, recovered, api, verify)
                    if late and not verify:
                        ctx.stats["late_failures_unverified"] = ctx.stats.get("late_failures_unverified", 0) + 1
                    cases.append({"case": case, "impl": impl, "trace": list(ins.trace), "expr": expr, "late": late})
        finally:
            undo_damage(inv, dmg)
    ctx.sample({"table": tag, "shape": shape, "variant": variant, "files": {r: len([1 for _p, r2 in inv.reachable() if r2 == r]) for r in ("meta", "list", "manifest", "data")},
                "example_case": cases[len(cases) // 2]["case"], "impl": cases[len(cases) // 2]["impl"]})
    # ---------------- hypothesis json_not_avro, measured on every byte string in play
    both = 0
    for b in list(mc.seen_bytes.values()):
        for a_kind, j_kind in (("avro_list", "json_list"), ("avro_man", "json_man")):
            j = classify(j_kind, b)
            if j[0] == "ok":
                a = classify(a_kind, b)
                if a[0] == "ok" or not any(c in ("ValueError", "IndexError", "StopIteration", "OSError") for c in a[1]):
                    both += 1
    ctx.stats["json_not_avro_counterexamples"] = ctx.stats.get("json_not_avro_counterexamples", 0) + both
    if both:
        ctx.proof_problems.append(f"hypothesis json_not_avro fails on {both} byte string(s) of table {tag}")
    # ---------------- correspondence
    t_impl = time.time()
    got = coqbuild.coq_eval(REQ, [c["expr"] for c in cases], preamble=preamble(mc), chunk=40)   # small chunks: coq_eval reads a chunk's stdout only after it exits (64 KB pipe)
    ctx.stats.setdefault("timing_s", {})[tag] = {"cases": len(cases), "impl_and_oracle": round(t_impl - t_start, 1),
                                                 "model_eval": round(time.time() - t_impl, 1)}
    bad = []
    for c, g in zip(cases, got):
        why = compare(mc, c["case"]["api"], c["impl"], c["trace"], parse_model(g), c["late"],
                      loose_occ=("manifest_path=" in c["case"]["damage"]))
        if why:
            d = dict(c["case"], why=why)
            if c["case"]["role"] == "meta" and c["case"]["damage"] == "delete":
                d["known_key"] = KNOWN_KEY
            bad.append(d)
    ctx.correspondence("read_current_same_handle" if session else "read_current", len(cases), bad)


def history_shapes(ctx) -> List[List[Any]]:
    fixed = [[[2, 2, 1], [2, 1], {"delete": [1, 3]}, [1]]]
    if ctx.tier == "quick":
        return fixed
    fixed.append([[2], [1, 1], {"delete": [0]}, {"expire": True}, [2], {"delete": [0], "append": [1]}])
    rng = ctx.rng
    for _ in range(2):
        h: List[Any] = [[rng.choice([1, 2, 3]) for _ in range(rng.choice([2, 3]))]]
        for _ in range(rng.choice([3, 4])):
            r = rng.random()
            if r < 0.4:
                h.append([rng.choice([1, 2]) for _ in range(rng.choice([1, 2, 3]))])
            elif r < 0.85:
                st: Dict[str, Any] = {"delete": [rng.randrange(8) for _ in range(rng.choice([1, 1, 2]))]}
                if rng.random() < 0.3:
                    st["append"] = [rng.choice([1, 2])]
                h.append(st)
            else:
                h.append({"expire": True})
        h.append([1])       # never end on an empty table
        fixed.append(h)
    return fixed


SHAPES_QUICK = [[[3, 2], [4], [2]]]
SHAPES_THOROUGH = [[[3, 2], [4, 1], [2, 3]], [[1], [1], [1]], [[2, 2, 2], [5]]]


def oracle_filtered(ctx, path: str) -> None:
    """A match-all filter (extra refresh for the schema, pruning, pushdown) must not open a fail-open path."""
    build_table(path, [[3, 2], [2]])
    inv = Inventory(path)
    flt = {"id": (">=", 0)}
    n = 0
    for p, role in inv.reachable():
        for dmg in damages_for(inv, p, "quick", ctx.rng):
            if dmg["class"] not in ("absent", "replace", "transient") or dmg["name"] == "braces":
                continue
            apply_damage(inv, dmg)
            try:
                new_bytes = dmg["writes"].get(p)
                if dmg["class"] == "replace" and not unparseable(role, new_bytes):
                    continue
                for api in ("Scan", "Batches"):
                    for verify in (True, False):
                        t = open_handle(path)
                        ins = Instr(t, dmg.get("fault"))
                        try:
                            impl = run_api(t, api, verify, flt)
                        finally:
                            ins.restore()
                        n += 1
                        touched = ins.fired if dmg["class"] == "transient" else any(x[0] == p for x in ins.trace)
                        if touched and impl["ok"]:
                            key = (KNOWN_KEY + f":{api}:filtered") if (role == "meta" and dmg["class"] == "absent") else f"fail-open-filtered:{role}:{dmg['class']}:{api}"
                            ctx.violation(key, f"{role} file {dmg['name']}: filtered {api}(verify={verify}) returned {impl.get('rows')}",
                                          {"table": "filtered", "shape": [[3, 2], [2]], "role": role, "damage": dmg["name"], "api": api, "verify": verify, "filter": True})
                        if not touched and impl["ok"] and impl["rows"] != inv.rows:
                            ctx.violation(f"untouched-damage-changes-answer-filtered:{role}", f"{dmg['name']} untouched but rows {impl['rows']}", {})
            finally:
                undo_damage(inv, dmg)
    ctx.count(n)
    ctx.stats["filtered_oracle_calls"] = n


def oracle_fresh_handle(ctx, path: str) -> None:
    """The same damage seen by a handle opened AFTER it (load_table): raising from load_table counts as raising."""
    from datashard import load_table
    build_table(path, [[2], [2, 1]])
    inv = Inventory(path)
    n = 0
    for p, role in inv.reachable():
        for dmg in damages_for(inv, p, "quick", ctx.rng):
            if dmg["class"] not in ("absent", "replace") or dmg["name"] == "braces":
                continue
            apply_damage(inv, dmg)
            try:
                if dmg["class"] == "replace" and not unparseable(role, dmg["writes"][p]):
                    continue
                for api in APIS:
                    n += 1
                    try:
                        with bounded(CALL_LIMIT_S, "load_table"):
                            t = load_table(path)
                        impl = run_api(t, api, True)
                    except LibraryHang as e:
                        impl = {"ok": True, "rows": f"HANG: {e}"}
                    except Exception as e:  # noqa: BLE001
                        impl = {"ok": False, "exc": type(e).__name__}
                    if impl["ok"] and not (role == "data" and api == "RowCount"):
                        key = (KNOWN_KEY + f":{api}:fresh") if (role == "meta" and dmg["class"] == "absent") else f"fail-open-fresh-handle:{role}:{dmg['class']}:{api}"
                        ctx.violation(key, f"{role} file {dmg['name']}: load_table + {api} returned {impl.get('rows', impl.get('count'))}",
                                      {"table": "fresh", "shape": [[2], [2, 1]], "role": role, "damage": dmg["name"], "api": api, "verify": True, "fresh": True})
            finally:
                undo_damage(inv, dmg)
    ctx.count(n)
    ctx.stats["fresh_handle_oracle_calls"] = n


def oracle_options(ctx, path: str) -> None:
    """Other call shapes of the same APIs: verification left to its default (must be ON), column projection,
    batch size 1, parallel=True, and a generator that is only partly consumed before the damaged file is reached."""
    from datashard.integrity import CorruptDataError
    inv = make_table(path, [[2], [3]], None)
    n = 0
    calls = {
        "scan()": lambda t: t.scan(),
        "scan(columns=['s'])": lambda t: t.scan(columns=["s"]),
        "scan(parallel=True)": lambda t: t.scan(parallel=True),
        "scan_batches(batch_size=1)": lambda t: [r for b in t.scan_batches(batch_size=1) for r in b],
        "scan_batches(columns=['id'])": lambda t: [r for b in t.scan_batches(columns=["id"]) for r in b],
        "iter_records()": lambda t: list(t.iter_records()),
        "iter_records(columns=['s'])": lambda t: list(t.iter_records(columns=["s"])),
    }
    for p, role in inv.reachable():
        for dmg in damages_for(inv, p, "quick", ctx.rng):
            if not (dmg["name"] in ("delete", "swap-sibling") or dmg["name"].startswith("flip@") or dmg["name"].startswith("random:")):
                continue
            if role != "data" and (dmg["class"] in ("flip", "swap") or (role == "meta" and dmg["class"] == "absent")):
                continue
            apply_damage(inv, dmg)
            try:
                for name, fn in calls.items():
                    n += 1
                    try:
                        handle = open_handle(path)
                        with bounded(CALL_LIMIT_S, name):
                            got = fn(handle)
                        exc = None
                    except LibraryHang as e:
                        got, exc = [f"HANG: {e}"], None
                    except Exception as e:  # noqa: BLE001
                        got, exc = None, e
                    if exc is None:
                        ctx.violation(f"fail-open-option:{role}:{dmg['class']}:{name}", f"{role} file {dmg['name']}: {name} returned {len(got)} rows instead of raising",
                                      {"role": role, "damage": dmg["name"], "call": name})
                    elif role == "data" and dmg["class"] != "absent" and not isinstance(exc, CorruptDataError):
                        ctx.violation(f"default-verification-off:{dmg['class']}:{name}",
                                      f"data file {dmg['name']}: {name} raised {type(exc).__name__}, not CorruptDataError (verification must default to on)",
                                      {"role": role, "damage": dmg["name"], "call": name})
            finally:
                undo_damage(inv, dmg)
    ctx.count(n)
    ctx.stats["option_oracle_calls"] = n


MID_DAMAGES = ("delete", "swap-sibling", "truncate@1", "braces")


def mid_call_damages(inv: "Inventory", p: str, rng: random.Random, tier: str) -> List[Dict[str, Any]]:
    out = []
    for d in damages_for(inv, p, "quick", rng):
        if d["class"] == "transient":
            continue
        if d["name"] in MID_DAMAGES or d["name"].startswith("random:") or d.get("value_flip") or d.get("footer_flip") or (tier == "thorough" and d["class"] in ("truncate", "flip")):
            out.append(d)
    return out


def run_mid_call(path: str, inv: "Inventory", p: str, dmg: Dict[str, Any], k: int, api: str, verify: bool):
    """One read during which the store changes: dmg is applied when the k-th storage operation on p has finished."""
    t = open_handle(path)
    ins = Instr(t, None, mutation=(p, k, lambda: apply_damage(inv, dmg, atomic=True)))
    try:
        impl = run_api(t, api, verify)
    finally:
        ins.restore()
        undo_damage(inv, dmg)
    return impl, ins


def judge_mid_call(inv: "Inventory", role: str, p: str, dmg: Dict[str, Any], api: str, verify: bool, impl: Dict[str, Any]) -> Optional[Tuple[str, str]]:
    """The store changed while the call ran.  Implementation-only judgement: the call raises, or it returns exactly
    the answer of the table as it was when the call began; for damage that every parser accepts (labelled, outside
    the property) nothing is demanded -- except on a checksummed data file with verification on, where a returned
    answer other than the original rows means unverified bytes were served."""
    healthy = len(inv.rows) if api == "RowCount" else inv.rows
    got = impl.get("count") if api == "RowCount" else impl.get("rows")
    if impl.get("hung"):
        return ("library-call-hung", impl["msg"])
    if not impl["ok"] or got == healthy:
        return None
    new_bytes = dmg["writes"].get(p)
    if role == "data" and verify and api != "RowCount" and inv.ever_checksummed.get(p) and new_bytes != inv.files[p]:
        return ("checksum-not-detected", f"returned {got} (rows that were never verified) instead of CorruptDataError or the original rows {healthy}")
    if dmg["class"] == "absent" or (dmg["class"] in ("truncate", "replace", "flip") and unparseable(role, new_bytes)):
        if not (role == "meta" and dmg["class"] == "absent"):
            return ("fail-open", f"returned {got} instead of raising or the original answer {healthy}")
    return None


def oracle_mid_call(ctx, path: str, shape: List[Any]) -> List[Dict[str, Any]]:
    """Damage applied DURING a read call: for every reachable file, after each of its storage operations in that
    call (the operations are counted on the code under test, so a second read of the same file is a new slot).
    Returns the data-file cases for the model comparison."""
    inv = make_table(path, shape, None)
    n = fired = 0
    for_model: List[Dict[str, Any]] = []
    for api in APIS:
        for verify in ((True, False) if api != "RowCount" else (True,)):
            t = open_handle(path)
            ins0 = Instr(t)
            base = run_api(t, api, verify)
            ins0.restore()
            if not base["ok"]:
                ctx.violation(f"healthy-table-misread:{api}", f"undamaged table: {api} gave {base}", {"shape": shape, "damage": "healthy", "api": api, "verify": verify, "role": "none"})
                continue
            ops = dict(ins0.path_ops)
            for p, role in inv.reachable():
                for dmg in mid_call_damages(inv, p, ctx.rng, ctx.tier):
                    for k in range(ops.get(p, 0)):
                        case = {"table": "mid-call", "shape": shape, "variant": None, "role": role,
                                "index": [q for q, r_ in inv.reachable() if r_ == role].index(p), "damage": dmg["name"],
                                "api": api, "verify": verify, "mid_call_after_op": k}
                        CURRENT_CASE.clear()
                        CURRENT_CASE.update(case)
                        impl, ins = run_mid_call(path, inv, p, dmg, k, api, verify)
                        n += 1
                        ctx.count(1, ("mid-call", p, dmg["name"], k, api, verify))
                        if not ins.mutated:
                            continue
                        fired += 1
                        verdict = judge_mid_call(inv, role, p, dmg, api, verify, impl)
                        if verdict:
                            ctx.violation(f"mid-call:{verdict[0]}:{role}:{dmg['class']}:{api}",
                                          f"{role} file {dmg['name']} applied after storage operation #{k} on that file, DURING {api}(verify={verify}): {verdict[1]}",
                                          dict(case, got=impl, expect="mid-call"))
                        if role == "data" and dmg["class"] != "swap":
                            for_model.append({"case": case, "impl": impl, "trace": list(ins.trace), "k": k, "ops": ops.get(p, 0)})
    ctx.stats["mid_call"] = {"calls": n, "damage_applied_during_call": fired}
    # model side (C14_no_check_use_gap): a data file changed after its last storage operation of the call is read as
    # it was -- outcome and trace are those of the unchanged store, with ONE operation per data file
    mc = ModelCtx(inv)
    recovered = recovered_by_scan(inv)
    sel = [c for c in for_model if c["k"] == c["ops"] - 1]
    exprs = [model_expr(mc, {"writes": {}}, recovered, c["case"]["api"], c["case"]["verify"])[0] for c in sel]
    try:
        got = coqbuild.coq_eval(REQ, exprs, preamble=preamble(mc), chunk=40)
    except RuntimeError as e:
        ctx.proof_problems.append("model evaluation failed (mid-call): " + str(e)[:600])
        return for_model
    bad = []
    for c, g in zip(sel, got):
        why = compare(mc, c["case"]["api"], c["impl"], c["trace"], parse_model(g))
        if why:
            bad.append(dict(c["case"], why=why))
    ctx.correspondence("read_current_mid_call", len(sel), bad)
    return for_model


def outage_plans(ncalls: int, tier: str) -> List[Dict[str, Any]]:
    """Transient faults lasting more than one storage call: a window [k, k+m) over the calls of one read for every k
    and m in 1..3 (m = 1 is the single failing call, here also on operations no per-file fault reaches, such as the
    directory listing of the recovery scan), and outages of a whole class of calls for the whole read."""
    plans: List[Dict[str, Any]] = []
    for m in (2, 3) if tier == "quick" else (1, 2, 3, 5):
        for k in range(ncalls):
            plans.append({"from": k, "len": m, "ops": "all", "paths": "all"})
    for k in (range(ncalls) if tier == "thorough" else range(0, ncalls, 3)):
        plans.append({"from": k, "len": None, "ops": "all", "paths": "all"})
    for ops in ("reads", "probes"):
        plans.append({"from": 0, "len": None, "ops": ops, "paths": "all"})
        for k in range(0, ncalls, 4):
            plans.append({"from": k, "len": 4, "ops": ops, "paths": "all"})
    for paths in ("pointer", "metadata", "data"):
        for ops in ("all", "reads", "probes"):
            plans.append({"from": 0, "len": None, "ops": ops, "paths": paths})
    return plans


def run_outage(path: str, outage: Dict[str, Any], api: str, verify: bool, session: bool = False):
    t = open_handle(path)
    if session:
        prior_reads(t, api)
    ins = Instr(t, None, outage=outage)
    try:
        impl = run_api(t, api, verify)
    finally:
        ins.restore()
    return impl, ins


def judge_outage(inv: "Inventory", api: str, impl: Dict[str, Any]) -> Optional[str]:
    """Storage failed for a while during the call: the call raises, or -- if what failed was retried or not needed --
    returns the COMPLETE answer; never a subset, an empty table or a zero count."""
    if impl.get("hung"):
        return "did not return: " + impl["msg"]
    if not impl["ok"]:
        return None
    if inv.broken:
        return f"returned {impl.get('rows', impl.get('count'))} for a table whose current snapshot id matches no snapshot"
    healthy = len(inv.rows) if api == "RowCount" else inv.rows
    got = impl["count"] if api == "RowCount" else impl["rows"]
    return None if got == healthy else f"returned {got} instead of raising; the complete answer is {healthy}"


def oracle_outage(ctx, path: str, shape: List[Any], variant: Optional[str], tag: str, session: bool = False) -> None:
    inv = make_table(path, shape, variant)
    n = fired = 0
    for api in APIS:
        for verify in ((True, False) if api != "RowCount" else (True,)):
            base, ins0 = run_outage(path, {"from": 10 ** 9, "len": 0}, api, verify, session)
            if base["ok"] == inv.broken:
                ctx.violation(f"healthy-table-misread:{api}", f"undamaged table ({variant}): {api} gave {base}",
                              {"shape": shape, "variant": variant, "damage": "healthy", "api": api, "verify": verify, "role": "none"})
                continue
            for plan in outage_plans(ins0.ncalls, ctx.tier):
                case = {"table": tag, "shape": shape, "variant": variant, "outage": plan, "api": api, "verify": verify}
                if session:
                    case["session"] = True
                CURRENT_CASE.clear()
                CURRENT_CASE.update(case)
                impl, ins = run_outage(path, plan, api, verify, session)
                n += 1
                ctx.count(1, ("outage", tag, json.dumps(plan, sort_keys=True), api, verify, session))
                if not ins.outage_hits:
                    continue
                fired += 1
                why = judge_outage(inv, api, impl)
                if why:
                    span = "whole read" if plan["len"] is None else f"{plan['len']} call(s)"
                    ctx.violation(f"{'same-handle:' if session else ''}outage:{plan['ops']}:{plan['paths']}:{api}",
                                  f"storage outage ({plan['ops']} calls on {plan['paths']} paths, from storage call #{plan['from']} for {span}; "
                                  f"failed: {[(i, p_, o) for i, p_, o in ins.outage_hits][:4]}) during {api}(verify={verify}) on table {variant or 'standard'}: {why}",
                                  dict(case, got=impl, failed_calls=ins.outage_hits[:6], expect="outage"))
    st = ctx.stats.setdefault("outage", {})
    st[tag] = {"calls": n, "outage_hit_a_storage_call": fired}


# ====================================================================================== one handle: reading again after a read that raised
ALL_READS: List[Tuple[str, bool]] = [(a, v) for a in APIS for v in ((True, False) if a != "RowCount" else (True,))]


def damage_scope(inv: "Inventory", p: str, role: str, dmg: Dict[str, Any]) -> Tuple[bool, bool]:
    """(inside the property: absent / bytes no parser of the role accepts / transient,
        a checksummed data file whose bytes changed: verification must say corrupt)"""
    new_bytes = dmg["writes"].get(p)
    in_scope = (dmg["class"] in ("absent", "transient")
                or (dmg["class"] in ("truncate", "replace", "flip") and unparseable(role, new_bytes)))
    data_changed = (role == "data" and dmg["class"] in ("truncate", "replace", "flip", "swap")
                    and new_bytes != inv.files[p] and bool(inv.ever_checksummed.get(p)))
    return in_scope, data_changed


def reread_damages(inv: "Inventory", p: str, role: str, rng: random.Random, tier: str) -> List[Dict[str, Any]]:
    out = []
    for d in damages_for(inv, p, "quick", rng, edits=False):
        if (d["class"] == "transient" or d["name"] in ("delete", "truncate@1") or d["name"].startswith("random:") or d.get("tail")
                or (role == "data" and (d["class"] == "swap" or d.get("value_flip")))
                or (tier == "thorough" and d.get("structural"))):
            out.append(d)
    return out


def run_reread_session(path: str, inv: "Inventory", dmg: Dict[str, Any], reads: List[List[Any]]) -> List[Dict[str, Any]]:
    """ONE long-lived handle (opened on the undamaged table), a sequence of reads [api, verify, state]:
    state "damaged" = the damage is in place during that read (a transient fault fires again at its call site),
    state "cleared" = the files are as they were and nothing fails.  Per read: the outcome, the storage calls, whether
    the damaged file was accessed, and whether an EARLIER read through this handle raised."""
    t = open_handle(path)
    out: List[Dict[str, Any]] = []
    raised = damaged_now = False
    try:
        for api, verify, state in reads:
            if state == "damaged" and not damaged_now:
                apply_damage(inv, dmg)
                damaged_now = True
            elif state != "damaged" and damaged_now:
                undo_damage(inv, dmg)
                damaged_now = False
            ins = Instr(t, dmg.get("fault") if state == "damaged" else None)
            try:
                impl = run_api(t, api, verify)
            finally:
                ins.restore()
            touched = state == "damaged" and (ins.fired if dmg["class"] == "transient" else any(x[0] in dmg["writes"] for x in ins.trace))
            out.append({"impl": impl, "trace": list(ins.trace), "touched": touched, "raised_before": raised})
            raised = raised or not impl["ok"]
    finally:
        if damaged_now:
            undo_damage(inv, dmg)
    return out


def judge_reread(inv: "Inventory", role: str, p: str, dmg: Dict[str, Any], api: str, verify: bool, state: str,
                 impl: Dict[str, Any], touched: bool) -> Optional[Tuple[str, str]]:
    """A read through a handle on which an earlier read raised.  Implementation-only judgement, the same as for a
    first read: while the damage is in place the call raises (a retried transient failure may instead return the
    COMPLETE answer; a file the call does not access leaves the answer complete); once the failure has cleared the
    call raises or returns the complete answer.  Never a subset, never an empty table."""
    healthy = len(inv.rows) if api == "RowCount" else inv.rows
    got = impl.get("count") if api == "RowCount" else impl.get("rows")
    if impl.get("hung"):
        return ("library-call-hung", impl["msg"])
    if state != "damaged":
        if impl["ok"] and got != healthy:
            return ("partial-when-cleared", f"returned {got} although nothing is damaged any more; the complete answer is {healthy}")
        return None
    in_scope, data_changed = damage_scope(inv, p, role, dmg)
    if data_changed and verify and api != "RowCount":
        if impl["ok"] or impl["kind"] != "ECorrupt":
            return ("checksum-not-detected", ("returned " + str(got)) if impl["ok"] else ("raised " + impl["exc"] + ", not CorruptDataError"))
        return None
    if not impl["ok"]:
        return None
    if role == "meta" and dmg["class"] == "absent":
        return ("known", f"returned {got} instead of raising (undamaged answer: {healthy})")
    if not in_scope:
        return None                         # damage every parser accepts: outside the property
    if got != healthy:
        return ("fail-open", f"returned {got} instead of raising; the complete answer is {healthy}")
    if touched and dmg["class"] != "transient":
        return ("fail-open", f"accessed the damaged file and still returned {got}")
    return None


def wide_commit_shape(path: str) -> List[Any]:
    """One commit that adds enough data files for its manifest to span SEVERAL Avro blocks: the entry size is measured
    on a two-file manifest, the block size is the writer's default sync interval."""
    import inspect

    import fastavro
    SYNC_INTERVAL = inspect.signature(fastavro.writer).parameters["sync_interval"].default
    build_table(path, [[1, 1]])
    inv = Inventory(path)
    b = inv.files[inv.manifests[0]]
    blocks = avro_blocks(b)
    per_entry = max(1, (len(b) - blocks[0][0] - 16) // 2)
    return [[1] * (int(1.3 * SYNC_INTERVAL / per_entry) + 2)]


def block_decoding(kind: str, b: bytes) -> Optional[List[Tuple[str, Any]]]:
    """The container split at its sync markers and every block decoded ON ITS OWN (header + that one block; what
    follows the last marker is a block too): [("good", records) | ("bad", mro, records handed out before the raise)].
    None: no header, no container."""
    bounds = avro_boundaries(b)
    if not bounds:
        return None
    header = b[:bounds[0]]
    pieces = [b[s_:e_] for s_, e_ in zip(bounds, bounds[1:])]
    if bounds[-1] < len(b):
        pieces.append(b[bounds[-1]:])
    out: List[Tuple[str, Any]] = []
    for piece in pieces:
        r = classify(kind, header + piece)
        out.append(("good", r[1]) if r[0] == "ok" else ("bad", r[1], handed_out(kind, header + piece)))
    return out


def handed_out(kind: str, b: bytes) -> List[Any]:
    """The records a streaming decode of b hands out before it raises (projected as the model's records)."""
    import fastavro
    out: List[Any] = []
    try:
        for r in fastavro.reader(io.BytesIO(b)):
            if kind == "avro_list":
                out.append(r["manifest_path"])
            else:
                df = r["data_file"]
                out.append((df["file_path"], df["record_count"], df.get("checksum")))
    except Exception:  # noqa: BLE001
        pass
    return out


def corr_blocks(ctx, mc: "ModelCtx", strings: List[Tuple[str, bytes]], tag: str) -> None:
    """Model/ReadBlocks.v against fastavro: for every container byte string in play (undamaged and damaged), the
    blocks decoded one by one, folded by the model's reader loop [collect] / iterator [stream], must give what
    fastavro gives on the whole file: the same records when it returns, a raise when it raises, and -- the part a
    reader must not keep -- the same number of records handed out BEFORE the raise."""
    cases, exprs = [], []
    for role, b in dict.fromkeys(strings):
        kind = "avro_list" if role == "list" else "avro_man"
        blocks = block_decoding(kind, b)
        if blocks is None:
            continue
        render = mc.paths if role == "list" else mc.dfiles
        term = "[" + "; ".join(f"BGood {render(x[1])}" if x[0] == "good" else f"BBad {render(x[2])} {mc.mro(x[1])}" for x in blocks) + "]"
        proj = "(fun x => x)" if role == "list" else "(fun d => (dpath d, dcount d, dsum d))"
        exprs.append(f"(match collect {term} with AvOk xs => (true, map {proj} xs) | AvRaise _ => (false, []) end, "
                     f"N.of_nat (List.length (fst (stream {term}))), N.of_nat (List.length {term}))")
        cases.append((role, kind, b))
    if not exprs:
        return
    try:
        got = coqbuild.coq_eval(REQ + ["DS.Model.ReadBlocks"], exprs, chunk=40)
    except RuntimeError as e:
        ctx.proof_problems.append(f"model evaluation failed (block decoding, {tag}): " + str(e)[:600])
        return
    bad = []
    multi = 0
    for (role, kind, b), g in zip(cases, got):
        ok, recs, handed, nblocks = g      # left-nested pairs print flat
        multi += 1 if nblocks > 1 else 0
        full = classify(kind, b)
        n_before, raised = decodable_prefix(b)
        if role == "list":
            want = [mc.key(p.lstrip("/")) if p else None for p in full[1]] if full[0] == "ok" else None
            have = [(x.x if hasattr(x, "x") else x) for x in recs]
        else:
            want = [(mc.key(p.lstrip("/")), c, (int(h[:12], 16) if h else None)) for p, c, h in full[1]] if full[0] == "ok" else None
            have = [(k, c, (h.x if hasattr(h, "x") else h)) for k, c, h in recs]
        why = None
        if ok != (full[0] == "ok"):
            why = f"whole file {'decodes' if full[0] == 'ok' else 'raises ' + str(full[1][:1])} / collect over its blocks {'returns' if ok else 'raises'}"
        elif ok and have != want:
            why = f"records: whole file {want} / collect {have}"
        elif not ok and raised and handed != n_before:
            why = f"records handed out before the raise: fastavro {n_before} / stream {handed}"
        if why:
            bad.append({"table": tag, "role": role, "blocks": nblocks, "bytes": len(b), "why": why})
    ctx.stats.setdefault("block_decoding", {})[tag] = {"byte_strings": len(cases), "of_several_blocks": multi}
    ctx.correspondence("collect_blocks", len(cases), bad)


def oracle_reread(ctx, path: str, shape: List[Any], variant: Optional[str], tag: str, block_plane_only: bool = False) -> None:
    """Every reachable file x damage inside the property x ONE long-lived handle: the nine reads (API x verify, the
    order rotating with the damage) with the damage in place -- from the first one that raises on, each is a read
    AFTER a read that raised -- then the same nine reads after the failure has cleared (files restored, no fault).
    Each is judged by the implementation-only rule above, and outcome / trace / yielded prefix are compared with the
    model's read_current on the store as it is at that moment (read_session: a handle carries no read state)."""
    import time
    t_start = time.time()
    inv = make_table(path, shape, variant)
    if inv.broken:
        return
    mc = ModelCtx(inv)
    rec_healthy = recovered_by_scan(inv)
    targets = inv.reachable() + ([(HINT_PATH, "pointer")] if HINT_PATH in inv.roles else [])
    if block_plane_only:
        # a table built for its block structure: the Avro containers only, damage placed by block (+ the file gone);
        # the other roles and damages are the standard table's business
        targets = [x for x in targets if x[1] in ("list", "manifest")]
    ctx.stats.setdefault("avro_blocks", {})[tag] = {r + "#" + str(i): len(avro_blocks(inv.files[q])) for i, (q, r) in enumerate(inv.reachable()) if r in ("list", "manifest")}
    cases: List[Dict[str, Any]] = []
    reported = set()
    n_sessions = n_reads = n_judged = 0
    containers: List[Tuple[str, bytes]] = [(r, inv.files[q]) for q, r in targets if r in ("list", "manifest")]
    for p, role in targets:
        for dmg in reread_damages(inv, p, role, ctx.rng, ctx.tier):
            if role in ("list", "manifest") and dmg["writes"].get(p):
                containers.append((role, dmg["writes"][p]))
            if block_plane_only and not (dmg.get("tail") or dmg["name"] == "delete"):
                continue
            in_scope, data_changed = damage_scope(inv, p, role, dmg)
            if not (in_scope or data_changed):
                continue
            rot = n_sessions % len(ALL_READS)
            seq = ALL_READS[rot:] + ALL_READS[:rot]
            # every read twice with the damage in place (the second round: each API after ITS OWN earlier call raised,
            # and after every other API's), then once after the failure has cleared
            reads = [[a, v, "damaged"] for a, v in seq + seq] + [[a, v, "cleared"] for a, v in seq]
            rec_dmg = rec_healthy
            if dmg["writes"]:
                apply_damage(inv, dmg)
                try:
                    rec_dmg = recovered_by_scan(inv)
                finally:
                    undo_damage(inv, dmg)
            index = [q for q, r_ in inv.reachable() if r_ == role].index(p) if role != "pointer" else 0
            base = {"table": tag, "shape": shape, "variant": variant, "role": role, "index": index, "damage": dmg["name"]}
            CURRENT_CASE.clear()
            CURRENT_CASE.update(dict(base, reread=True))
            results = run_reread_session(path, inv, dmg, reads)
            n_sessions += 1
            n_reads += len(reads)
            first_raise = next((i for i, r in enumerate(results) if not r["impl"]["ok"]), None)
            for i, ((api, verify, state), res) in enumerate(zip(reads, results)):
                if not res["raised_before"]:
                    continue                # no read has raised on this handle yet: an ordinary read (run_table judges those)
                n_judged += 1
                ctx.count(1, ("reread", tag, p, dmg["name"], api, verify, state))
                case = dict(base, api=api, verify=verify, expect="reread", reread={"state": state, "before": reads[:i]})
                verdict = judge_reread(inv, role, p, dmg, api, verify, state, res["impl"], res["touched"])
                if verdict:
                    key = (KNOWN_KEY + f":{api}:read-again" if verdict[0] == "known"
                           else f"read-again:{verdict[0]}:{role}:{dmg['class']}:{api}")
                    if key not in reported:
                        reported.add(key)
                        # the shortest session that still shows it: the first read that raised, then this read
                        short = [reads[first_raise]]
                        r2 = run_reread_session(path, inv, dmg, short + [[api, verify, state]])[-1]
                        if r2["raised_before"] and judge_reread(inv, role, p, dmg, api, verify, state, r2["impl"], r2["touched"]):
                            case = dict(case, reread={"state": state, "before": short}, got=r2["impl"])
                    prior = ", ".join(f"{a}(verify={v}){' [damaged]' if s_ == 'damaged' else ' [cleared]'}" for a, v, s_ in case["reread"]["before"])
                    ctx.violation(key, f"one handle, {role} file {dmg['name']}: after the reads {prior} (at least one raised), "
                                       f"{api}(verify={verify}) with the damage {'still in place' if state == 'damaged' else 'gone'}: {verdict[1]}",
                                  dict({"got": res["impl"]}, **case))
                if state == "damaged":
                    expr, late = model_expr(mc, dmg, rec_dmg, api, verify)
                else:
                    expr, late = model_expr(mc, {"writes": {}}, rec_healthy, api, verify)
                cases.append({"case": dict(case, reread={"state": state, "position": i}), "impl": res["impl"], "trace": res["trace"], "expr": expr, "late": late})
    ctx.stats.setdefault("read_again_after_raise", {})[tag] = {"handles": n_sessions, "reads": n_reads, "reads_after_a_raise": n_judged}
    corr_blocks(ctx, mc, containers, tag)
    t_impl = time.time()
    exprs = list(dict.fromkeys(c["expr"] for c in cases))
    try:
        vals = dict(zip(exprs, coqbuild.coq_eval(REQ, exprs, preamble=preamble(mc), chunk=40)))
    except RuntimeError as e:
        ctx.proof_problems.append(f"model evaluation failed (read again after a raise, {tag}): " + str(e)[:600])
        return
    ctx.stats.setdefault("timing_s", {})[tag] = {"cases": len(cases), "distinct_model_terms": len(exprs), "impl_and_oracle": round(t_impl - t_start, 1),
                                                 "model_eval": round(time.time() - t_impl, 1)}
    bad = []
    for c in cases:
        why = compare(mc, c["case"]["api"], c["impl"], c["trace"], parse_model(vals[c["expr"]]), c["late"])
        if why:
            d = dict(c["case"], why=why)
            if c["case"]["role"] == "meta" and c["case"]["damage"] == "delete":
                d["known_key"] = KNOWN_KEY
            bad.append(d)
    ctx.correspondence("read_current_again_after_raise", len(cases), bad)



# ====================================================================================== driver
def run(ctx) -> None:
    logging.disable(logging.CRITICAL)
    ctx.rule = ("every file reachable from the current snapshot (metadata file, manifest list, each manifest, each data file) x "
                "{delete, truncate at 0/1/mid/end-1 + every structural boundary (+-1) + sampled offsets, random bytes, b'{}', text, "
                "byte flips at sampled and structural offsets, swap with a sibling of the same kind, transient OSError at every call "
                "site incl. mid-stream} x {scan, scan(parallel=2), scan_batches(2), iter_records, row_count} x verify on/off; "
                "a case is distinct by (table, file, damage, api, verify); the same through ONE handle that read the undamaged table "
                "before the damage, and through ONE handle on which an earlier read RAISED (the nine reads, each twice, with the damage in place, "
                "then the nine reads after it has cleared; distinct by (table, file, damage, api, verify, damaged|cleared)); "
                "on Avro containers additionally per block {first, second, last}: cut mid-block, random bytes from mid-block on, count "
                "byte flipped, stream failing once the bytes before mid-block were delivered -- on tables whose manifest list / "
                "manifests span several blocks (one record per block; one bulk commit), every read twice on the same handle")
    ctx.trusted_base += [
        "translator/gen_read.py (exception tuples of the two Avro fallbacks; golden ASTs of 25 read-path functions)",
        "parser outcomes fed to the model are measured with fastavro / json / pyarrow on the same bytes "
        "(metadata: json + the library's _dict_to_metadata; pointer: the library's _parse_hint_content; recovery: the library's scan)",
        "harness: harness/props/c14.py (instrumented LocalStorageBackend methods and open_parquet_source), harness/lib/coqbuild.py",
    ]
    ctx.assumptions += [
        "SHA-256 has no collision among the byte strings in play (hypothesis of C14_checksum)",
        "json_not_avro: bytes the JSON fallback accepts make the Avro attempt raise a fallback class (checked every run)",
        "a file is listed once per role (transient faults are identified by call site = (operation, occurrence))",
        "what pyarrow makes of a byte string is measured per API family (one-shot read + concat + to_pylist for scan; "
        "ParquetFile.iter_batches + to_pylist for the generators)",
    ]
    ctx.proofs(THEOREMS, gen_files=["GenRead.v"])
    ctx.allow_axioms([])
    start_memory_watchdog(ctx)
    shapes = SHAPES_QUICK if ctx.tier == "quick" else SHAPES_THOROUGH
    try:
        for i, shape in enumerate(shapes):
            run_table(ctx, os.path.join(ctx.scratch, f"t{i}"), shape, f"t{i}")
    except RuntimeError as e:
        ctx.proof_problems.append("model evaluation failed: " + str(e)[:800])
    meta_plane = frozenset(["meta", "list", "manifest", "pointer"])
    try:
        # a table with ONE commit: the version before the current one is v0, the empty table create_table wrote --
        # where the known finding (current metadata file deleted -> previous version served) reads as an EMPTY table
        run_table(ctx, os.path.join(ctx.scratch, "one"), [[1]], "one-commit", file_limit=2, reduced=True)
    except RuntimeError as e:
        ctx.proof_problems.append("model evaluation failed (one-commit table): " + str(e)[:800])
    try:
        # tables whose history is more than appends: partial deletes (manifest rewritten, survivors carried over),
        # whole-manifest deletes, delete+append in one commit, expired snapshots -- then the same damage matrix
        for i, shape in enumerate(history_shapes(ctx)):
            run_table(ctx, os.path.join(ctx.scratch, f"h{i}"), shape, f"history:h{i}", reduced=meta_plane,
                      session=(ctx.tier == "thorough" and i == 0))
    except RuntimeError as e:
        ctx.proof_problems.append("model evaluation failed (history tables): " + str(e)[:800])
    try:
        run_table(ctx, os.path.join(ctx.scratch, "s0"), [[2, 2], [3]], "session:s0", session=True,
                  reduced=(meta_plane if ctx.tier == "quick" else False))
        if ctx.tier == "thorough":
            run_table(ctx, os.path.join(ctx.scratch, "s1"), [[2, 1], [2]], "session:json", variant="json", session=True,
                      reduced=meta_plane)
    except RuntimeError as e:
        ctx.proof_problems.append("model evaluation failed (same-handle sessions): " + str(e)[:800])
    try:
        for name, (shape, _tr, full) in VARIANTS.items():
            run_table(ctx, os.path.join(ctx.scratch, f"v-{name}"), shape, f"variant:{name}", variant=name,
                      reduced=(ctx.tier == "quick" or not full),
                      file_limit=(2 if not full else 4 if ctx.tier == "quick" else None))
    except RuntimeError as e:
        ctx.proof_problems.append("model evaluation failed (variants): " + str(e)[:800])
    oracle_filtered(ctx, os.path.join(ctx.scratch, "tf"))
    oracle_fresh_handle(ctx, os.path.join(ctx.scratch, "th"))
    oracle_options(ctx, os.path.join(ctx.scratch, "to"))
    oracle_mid_call(ctx, os.path.join(ctx.scratch, "tm"), [[2, 2], [3]])
    for i, (shape, variant) in enumerate([([[2, 1], [2], [1]], None)]
                                         + ([(history_shapes(ctx)[0], None), ([[2, 1], [2], [1]], "json"), ([[2], [1], [1]], "no-pointer")]
                                            if ctx.tier == "thorough" else [])):
        oracle_reread(ctx, os.path.join(ctx.scratch, f"tr{i}"), shape, variant, f"read-again:{variant or ('history' if i else 'standard')}")
    # containers of SEVERAL blocks: re-encoded one record per block (small table, every file), and as a bulk commit
    # produces them (one manifest of enough entries; its Avro containers, damage placed by block)
    oracle_reread(ctx, os.path.join(ctx.scratch, "trb"), VARIANTS["blocks"][0], "blocks", "read-again:blocks")
    wide = wide_commit_shape(os.path.join(ctx.scratch, "trw0"))
    oracle_reread(ctx, os.path.join(ctx.scratch, "trw"), wide + ([[1]] if ctx.tier == "thorough" else []), None, "read-again:wide-commit", block_plane_only=True)
    for i, (variant, sess) in enumerate([(None, False), ("no-pointer", False), (None, True)]
                                         + ([("bad-pointer", False), ("json", False), ("legacy-pointer-missing-file", False), ("no-pointer", True),
                                             ("dup", False)] if ctx.tier == "thorough" else [])):
        oracle_outage(ctx, os.path.join(ctx.scratch, f"to{i}"), [[2, 1], [2]], variant, f"outage:{variant or 'standard'}{':session' if sess else ''}", sess)
    shrink(ctx)


def execute_case(case: Dict[str, Any], path: str) -> Optional[Tuple[Dict[str, Any], "Inventory", str]]:
    """Rebuild the table of a recorded case, apply its damage, run its API call. None when not applicable."""
    inv = make_table(path, case["shape"], case.get("variant"))
    if case.get("outage") is not None:
        impl, ins = run_outage(path, case["outage"], case["api"], case["verify"], bool(case.get("session")))
        if not ins.outage_hits:
            impl = dict(impl, not_reached=True)
        return impl, inv, f"storage outage {case['outage']} (failed calls: {ins.outage_hits[:4]})"
    if case.get("probe") == "recorded-checksums":
        bad = lost_checksums(inv)
        return {"ok": bool(bad), "rows": bad, "yielded": []}, inv, "recorded checksums after the history"
    if case["damage"] == "healthy":
        return run_api(open_handle(path), case["api"], case["verify"]), inv, "(undamaged)"
    files = ([HINT_PATH] if case["role"] == "pointer" else ["metadata"] if case["role"] == "metadir"
             else [q for q, r in inv.reachable() if r == case["role"]])
    if not files:
        return None
    p = files[min(case.get("index", 0), len(files) - 1)]
    dmg = damage_by_name(inv, p, case["damage"])
    if dmg is None:
        return None
    if case.get("reread") is not None:
        reads = [list(r) for r in case["reread"]["before"]] + [[case["api"], case["verify"], case["reread"]["state"]]]
        last = run_reread_session(path, inv, dmg, reads)[-1]
        said = ", then ".join(f"{a}(verify={v}) with the damage {'in place' if s_ == 'damaged' else 'gone'}" for a, v, s_ in reads)
        return (dict(last["impl"], touched=last["touched"], not_reached=not last["raised_before"]), inv,
                f"one handle, {case['role']} file {p} {dmg['name']}: {said}; the last of these")
    if case.get("mid_call_after_op") is not None:
        impl, ins = run_mid_call(path, inv, p, dmg, case["mid_call_after_op"], case["api"], case["verify"])
        if not ins.mutated:
            return (dict(impl, not_reached=True), inv,
                    f"{case['role']} file {p}: the call makes no storage operation #{case['mid_call_after_op']} on it (nothing to apply {dmg['name']} after)")
        return impl, inv, f"{case['role']} file {p} {dmg['name']} applied after storage operation #{case['mid_call_after_op']} on it, during the call"
    held = None
    if case.get("session"):
        held = open_handle(path)
        prior_reads(held, case["api"])
    apply_damage(inv, dmg)
    try:
        if case.get("fresh"):
            from datashard import load_table
            try:
                impl = run_api(load_table(path), case["api"], case["verify"])
            except Exception as e:  # noqa: BLE001
                impl = {"ok": False, "exc": type(e).__name__, "kind": exc_kind(e)}
        else:
            t = held or open_handle(path)
            ins = Instr(t, dmg.get("fault"))
            try:
                impl = run_api(t, case["api"], case["verify"], {"id": (">=", 0)} if case.get("filter") else None)
            finally:
                ins.restore()
        if case.get("expect") == "denotation" and impl["ok"]:
            got = impl["count"] if case["api"] == "RowCount" else impl["rows"]
            den = denotation(path)
            healthy = len(inv.rows) if case["api"] == "RowCount" else inv.rows
            impl = dict(impl, denotation_violated=(got != healthy and (den is None or got != (den.count_total if case["api"] == "RowCount" else den.rows))))
    finally:
        undo_damage(inv, dmg)
    return impl, inv, ("one handle: two verified reads, then " if held else "") + f"{case['role']} file {p} {dmg['name']}"


def case_fails(case: Dict[str, Any], impl: Dict[str, Any], inv: "Inventory") -> bool:
    if case.get("probe") == "recorded-checksums":
        return impl["ok"]               # "ok" = checksums were lost
    if case.get("expect") == "returns-in-time":
        return bool(impl.get("hung"))
    if impl.get("not_reached"):
        return False
    if case.get("expect") == "denotation":
        return bool(impl.get("denotation_violated"))
    if case.get("expect") == "outage":
        return judge_outage(inv, case["api"], impl) is not None
    if case.get("expect") == "reread":
        files = [HINT_PATH] if case["role"] == "pointer" else [q for q, r in inv.reachable() if r == case["role"]]
        p = files[min(case.get("index", 0), len(files) - 1)]
        dmg = damage_by_name(inv, p, case["damage"])
        return dmg is not None and judge_reread(inv, case["role"], p, dmg, case["api"], case["verify"], case["reread"]["state"],
                                                impl, bool(impl.get("touched"))) is not None
    if case.get("expect") == "mid-call":
        files = [q for q, r in inv.reachable() if r == case["role"]]
        p = files[min(case.get("index", 0), len(files) - 1)]
        dmg = damage_by_name(inv, p, case["damage"])
        return dmg is not None and judge_mid_call(inv, case["role"], p, dmg, case["api"], case["verify"], impl) is not None
    if case["damage"] == "healthy":
        return impl["ok"] if inv.broken else not impl["ok"]
    if case.get("expect") == "corrupt":
        return impl["ok"] or impl.get("kind") != "ECorrupt"
    return impl["ok"]


def shrink(ctx) -> None:
    """Re-run each distinct unlisted violation on smaller tables; keep the smallest that still fails."""
    seen = set()
    def size(sh):
        apps = [f if isinstance(f, list) else f.get("append", []) for f in sh]
        return (len(sh) + sum(len(f) for f in apps), sum(sum(f) for f in apps))
    for v in ctx.violations:
        case = v["replay"]
        key = KNOWN_KEY if v["key"].startswith(KNOWN_KEY) else v["key"]      # the known finding: shrink one instance
        if (key in seen or not isinstance(case, dict) or "shape" not in case
                or not (case.get("probe") or case.get("outage") or ("damage" in case and "api" in case))):
            continue
        if "@" in case.get("damage", "") and case["damage"] not in ("truncate@0", "truncate@1"):
            continue                    # an offset names a different place in a file of another size
        seen.add(key)
        with_history = any(isinstance(st, dict) for st in case["shape"])
        candidates = ([[[1, 1], {"delete": [0]}], [[1, 1], {"delete": [1]}], [[1, 1, 1], {"delete": [0]}], [[2, 1], [1], {"delete": [0]}], [[1], {"expire": True}, [1]]]
                      if with_history else [[[1]], [[1], [1]], [[1, 1]], [[2], [1]]])
        done = False
        for shape in candidates:
            if done or size(shape) >= size(case["shape"]):
                continue
            # the first file of the role, then the file at the recorded position (clamped to the smaller table: its last)
            for idx in dict.fromkeys([0, case.get("index", 0)]):
                c2 = dict(case, shape=shape, index=idx)
                c2.pop("lost", None)
                try:
                    r = execute_case(c2, os.path.join(ctx.scratch, "shrink"))
                except Exception:  # noqa: BLE001
                    r = None
                if r is not None and case_fails(c2, r[0], r[1]):
                    v["replay"] = dict(c2, shrunk_from=case["shape"], got=r[0])
                    v["what"] += f" -- shrunk to table shape {shape}: got {r[0].get('rows', r[0].get('count', r[0].get('exc')))}"
                    done = True
                    break


def replay(ctx, payload) -> int:
    logging.disable(logging.CRITICAL)
    case = payload.get("case", {})
    if "shape" not in case or ("damage" not in case and not case.get("probe") and not case.get("outage")):
        print("replay: payload kind not replayable directly; re-run ./bin/check C14 thorough")
        return 2
    case.setdefault("api", "-")
    case.setdefault("verify", True)
    r = execute_case(case, os.path.join(ctx.scratch, "replay"))
    if r is None:
        print(f"replay: damage {case['damage']} on {case['role']} not applicable to the rebuilt table")
        return 2
    impl, inv, what = r
    if case.get("probe"):
        print(f"replay: {what}: " + (f"LOST {impl['rows']}" if impl["ok"] else "every data file is still listed with its write-time checksum"))
    else:
        print(f"replay: {what} -> {case['api']}(verify={case['verify']}): "
              + (f"RETURNED {impl.get('rows', impl.get('count'))} (undamaged: {'raises' if inv.broken else inv.rows})" if impl["ok"] else f"raised {impl['exc']}"))
    still = case_fails(case, impl, inv)
    print("replay:", "STILL FAILS" if still else "passes now")
    return 1 if still else 0
