"""C16 -- Commits are durable: the pointer never outruns the data it references.

Proof      : coq/Props/C16.v (C16_durable_prefix, C16_acked_durable, C16_each_publish,
             C16_publish_data_same, C16_disciplined_safe) over coq/Model/Durable.v: file system with a
             volatile and a durable tree over inodes; power loss is a RELATION (any schedule of
             background persistence events interleaved with the calls); the publish discipline as an
             executable checker; the library's publish_meta / publish_data / commit / rollback programs.
Tie        : translator/gen_durable.py regenerates the two publish call sequences (write_file,
             DataFileWriter.open+close) from the source into Gen/GenDurable.v, reads their ERROR paths (every
             `try` around a durability call must let an OS failure reach the caller -- a swallowed directory
             fsync failure is rejected, fail closed; gen_*_fallible = 5, gen_*_on_error = the cleanup handler)
             and pins the order of the
             commit's steps; and the OS-call trace:  Every scenario is run on the real library under
             harness/lib/ostrace.py (in-process interception; strace -f on a subprocess), the raw
             trace is projected on the model's alphabet and
               trace        canonical observed trace == Durable.trace_of(ops), ops rebuilt from the
                            files the run left behind, read by an independent reader
               wf           Durable.wf ops = true   (the hypotheses of the ops-level theorems hold of
                            what the library really wrote: fresh names, references closed)
               disciplined  Durable.disciplined(observed trace) = true, so C16_disciplined_safe
                            applies to the observed trace itself
               evaluator    model `exec` + `power_loss` vs the Python evaluator, on every prefix
               schedules    model `run` on random background-persistence schedules vs the Python
                            evaluator on the same schedules
               tracers      in-process trace == strace trace (same scenario, canonical form)
Oracle /   : implementation-only (harness/lib/powerloss.py, no model, no datashard import): every
search       prefix of every OBSERVED raw trace x {drop-all, entries-early, root-entries-early,
             data-only} + random background schedules -> reconstruct the durable tree -> read it like
             a fresh process (json / fastavro / pyarrow) -> a surviving pointer must not reference a
             missing / empty / partial file; after each acknowledged commit the durable pointer is
             the acknowledged one.  Sensitivity self-test: with an fsync dropped or the pointer
             written before the metadata file (runtime mutations of the library) the oracle must
             produce a concrete crash prefix, otherwise the check fails.
Faults     : one fault per run at EVERY durability call of the fault scenarios (temp creation, write, the
             descriptor opened for an fsync, fsync, rename; files AND directories): OSError(EIO) instead of the
             call, and for every write also a POSIX short write.  The library must either abort the operation
             (nothing acknowledged, pointer not advanced) or complete it whole: the same power-loss oracle judges
             every prefix of what it did next and the durability of what it acknowledged; the replay is
             {steps, fault index/kind, crash prefix}.  A failing DIRECTORY open / fsync is judged like every other
             fault ("... and its directory entry persisted"): finding F-C16b -- write_file / DataFileWriter.close
             swallowed it (`except (OSError, AttributeError): pass`) and the commit was acknowledged with a rename
             that a power loss drops (findings/C16-dirsync-unchanged-tree.log); repaired: DirectorySyncError.
             A commit whose POINTER's own directory fsync fails is reported AmbiguousCommitError (not acknowledged;
             the pointer stays advanced in the page cache): the acknowledged-commit check applies to steps that
             moved the pointer and reported success.
             Fault runs that hit a publish inside append_data are also compared with the model (op OFail, k = 0..4;
             k = 4 = the directory fsync failed, the file stays linked); failures inside commit() (manifests,
             list, metadata file, pointer) are judged by the oracle only.
Data sizes : the writer's durability calls must not depend on HOW MUCH is written.  harness/lib/c16_sizes.py harvests every integer
             literal c >= 2 of the writer modules (data_operations.py, file_manager.py; ast walk, nothing hard-coded) and runs
             appends of k*c - 1, k*c, k*c + 1 rows (quick: k <= 2, <= 250 000 rows; thorough: k <= 3, <= 400 000) through every
             public write path: Table.append_records, Transaction.append_data, Table.append_pandas (skipped without pandas),
             and the public DataFileWriter driven by the caller (one batch of n rows = what write_pandas_file does; k batches
             of c rows) + Transaction.append_files (oracle only: an adopted file's marker follows it, outside trace_of).  The
             largest ones also under strace (arrow's own write(2) calls).  Every such trace goes through the same prefix
             power-loss oracle, the trace / wf / disciplined correspondence, and the rule "an fsync of the file lies between
             the LAST write it received and its rename" read directly off the raw trace (c16_sizes.unsynced_tails).  The
             in-process tracer records the bytes arrow has put into the temp file at every fsync of it (not only at close), so
             a footer written after an incremental fsync is a separate, later write.
             Coq: Model/DurableChunks.v replaces the single Write of the regenerated data-writer sequence by an arbitrary list
             of bursts with optional incremental fsyncs; C16_chunked_each_publish holds for EVERY such list.  Second audit:
             Model/DurableChunks.v burst_of tr' tr (ANY Write of a trace replaced by bursts of the same content, optional
             incremental fsyncs) + Proofs/DurableBurstsProofs.v: C16_burst_refines (the discipline accepts every burst refinement
             of a trace it accepts and ends in a ghost state equal on every final name / the referenced set / the open temps:
             the frame the first C16_chunked_disciplined lacked), C16_chunked_is_burst_of, and the HEADLINE theorems lifted:
             C16_durable_prefix_bursts / C16_acked_durable_bursts = C16_durable_prefix / C16_acked_durable over every burst
             refinement of trace_of ops.  Not lifted: a failure BETWEEN two bursts of a failing publish (OFail keeps failed_of's
             one-Write shape; such a file is never renamed).  C16_unsynced_tail_rejected (now with ANY calls other than an
             fsync / unlink of the file between the last Write and the Rename) / C16_nofinal_rejected / C16_unsynced_tail_torn:
             no fsync after the last write => rejected, and the drop-all power loss leaves a torn file.  translator/gen_durable.py: a durability call in any
             DataFileWriter method other than open / close, a syncing helper, or a durability call under a condition other than
             the pinned ones (backend, writer opened) is Unsupported (fail closed); gen_data_writer_burst.
Threads    : in-process concurrency is a dimension of the traces: ["threads", [[n, ..], ..], holds] runs 2-3 writer threads of ONE
             process on one table (c16_driver._run_threads), scheduled deterministically at the os.fsync(directory) /
             os.replace boundaries by the in-process tracer (ostrace.ThreadSched: the k-th directory fsync of a thread is slow
             until another thread's rename into that directory has landed).  The tracer records for a directory fsync the raw
             index at which it was ISSUED when calls of other threads were recorded before it returned; the power-loss
             evaluator persists the entries the directory had at the issue instant, at the return instant (a rename that
             lands while somebody else's fsync of the directory is running is not covered by it).  Oracle only: every prefix
             of the interleaved trace, acknowledged-commit check at the join.
Bounded    : every in-process run happens in a worker subprocess (harness/lib/c16_worker.py) with a wall-clock
             alarm, an address-space limit and a progress watchdog; a hang / crash / memory blow-up of the library
             is reported as a violation with its input (key operation-not-bounded:*), never a stuck check.
"""
from __future__ import annotations

import json
import os
import shutil
import sys
import time
from typing import Any, Dict, List, Optional, Tuple

from harness.lib import coqbuild, ostrace, powerloss, c16_driver, c16_worker, c16_sizes

LEVEL = "proof"
THEOREMS = ["C16_durable_prefix", "C16_acked_durable", "C16_each_publish", "C16_publish_data_same", "C16_disciplined_safe",
            "C16_chunked_each_publish", "C16_chunked_is_burst_of", "C16_burst_refines", "C16_chunked_disciplined",
            "C16_durable_prefix_bursts", "C16_acked_durable_bursts", "C16_unsynced_tail_rejected", "C16_nofinal_rejected",
            "C16_unsynced_tail_torn"]
REQ = ["DS.Model.Durable"]
PRE = "Open Scope N_scope.\n"

MANIFEST_ENTRY = {
    "level_text": "C16_durable_prefix / C16_acked_durable / C16_each_publish / C16_disciplined_safe proved in Coq (unbounded "
                  "histories of commits, rolled-back transactions and appends failing with an OS error at any of the five "
                  "durability calls of a publish -- the directory fsync included; every prefix of the OS-call trace, every schedule of "
                  "background persistence = every subset of unsynced contents / directory entries reaching the disk), over "
                  "publish call sequences AND their error paths (which failures reach the caller; a swallowed directory-fsync "
                  "failure is rejected by the translator) regenerated from write_file / DataFileWriter on every run; the model's traces are "
                  "tied to the code by equality with the observed OS-call traces (in-process interception and strace), the "
                  "observed traces themselves are checked against the proved publish discipline, and an independent "
                  "power-loss evaluator + reader replays every prefix of every observed trace, also with one OS fault "
                  "(EIO or short write) injected at each durability call, files and directories alike; data sizes are a dimension "
                  "of the traces: appends of k*c-1, k*c, k*c+1 rows for every integer literal c of the writer modules through every "
                  "public write path (append_records, append_data, append_pandas when pandas is present, caller-driven DataFileWriter "
                  "+ append_files), and C16_chunked_each_publish / C16_unsynced_tail_rejected / "
                  "C16_nofinal_rejected / C16_unsynced_tail_torn cover a data file written in ANY number of bursts with ANY pattern of "
                  "incremental fsyncs (whole or absent at every prefix; no fsync after the last write, whatever other calls lie "
                  "between it and the rename => rejected and torn); C16_durable_prefix_bursts / C16_acked_durable_bursts are the two "
                  "headline theorems over EVERY burst refinement of the history's trace (any Write of any file split into bursts "
                  "with optional incremental fsyncs; C16_burst_refines / C16_chunked_is_burst_of / C16_chunked_disciplined give the "
                  "simulation with its frame)",
    "level_note": "trusted: Coq kernel; the POSIX-strict power-loss model (fsync = barrier for one inode, directory fsync = "
                  "barrier for that directory's entries); translator/gen_durable.py; the tracers and the canonicaliser; "
                  "directory creation (makedirs) and the table root's own entry are outside the theorems; OS failures INSIDE "
                  "commit() (manifest / list / metadata file / pointer publishes) are judged by the fault-injection oracle only, "
                  "the theorems cover failures inside append_data (OFail); a directory fsync refused as unsupported (EINVAL / "
                  "ENOTSUP / AttributeError / Windows; dir_fsync_unsupported is pinned) is tolerated by the library: on such a "
                  "platform the POSIX-strict model does not apply; row counts are bounded (quick 250 000, thorough 400 000 rows per "
                  "append): a size boundary above that is covered by the translator's rejection of size-dependent durability calls "
                  "and by the burst theorems only; append_pandas is not run when pandas is not installed (its single-batch shape is "
                  "run through the caller-driven DataFileWriter instead)",
    "technique": "Coq invariant proof over a relational crash model + OS-trace correspondence + prefix power-loss oracle + "
                 "size-boundary appends harvested from the writer's integer literals",
    "design_ref": "DESIGN.md section 5 C16",
}

MUTATIONS = ["drop_data_fsync", "drop_meta_fsync", "drop_dir_fsync", "ptr_before_meta"]

BASE_SCENARIOS: List[List[Any]] = [
    [["create"], ["append", 3]],
    [["create"], ["append", 2], ["multi", [1, 3, 2]], ["delete", 0]],
    [["create"], ["multi", [2, 2]], ["delete", 1], ["expire"]],
    [["create"], ["append", 1], ["append", 4], ["delete_snapshot", 0], ["append", 2]],
    [["create"], ["append", 2], ["reopen"], ["delete_append", 0, 3], ["append_expire", 2], ["delete_snapshot", 1]],
    [["create"], ["expire"], ["append", 0], ["delete", 0], ["append", 5]],
    [["create"], ["abort", [2]], ["append", 2], ["abort", [1, 3]], ["delete", 0]],
]


# ------------------------------------------------------------------------------------------ running
def run_inproc(root: str, steps: List[Any], mutation: Optional[str] = None) -> Tuple[List[Dict[str, Any]], List[Dict[str, Any]]]:
    tmode = mutation if mutation and (mutation.startswith("drop_") or mutation == "dir_fsync_eio") else None
    with ostrace.InProcessTracer(root, mutate=tmode) as t:
        results = c16_driver.run_steps(root, steps, t.mark, mutation if not tmode else None)
    return t.events, results


def run_strace(ctx, root: str, steps: List[Any], mutation: Optional[str] = None) -> Tuple[List[Dict[str, Any]], List[Dict[str, Any]]]:
    tag = os.path.basename(root)
    steps_path = os.path.join(ctx.scratch, f"{tag}.steps.json")
    out_path = os.path.join(ctx.scratch, f"{tag}.result.json")
    log_path = os.path.join(ctx.scratch, f"{tag}.strace.log")
    with open(steps_path, "w") as f:
        json.dump(steps, f)
    p = ostrace.strace_run([sys.executable, "-m", "harness.lib.c16_driver", root, steps_path, out_path, mutation or "-"],
                           log_path, env=dict(os.environ))
    if not os.path.exists(out_path):
        raise RuntimeError(f"strace driver failed rc={p.returncode}: {p.stderr[-800:]}")
    with open(out_path) as f:
        results = json.load(f)
    with open(log_path, errors="surrogateescape") as f:
        raw = ostrace.parse_strace(f.read(), root)
    return raw, results


# ------------------------------------------------------------------------------------------ model case
class Case:
    """One scenario run: raw trace, canonical trace, and the model's `ops` rebuilt from the files."""

    def __init__(self, steps: List[Any], mode: str, raw: List[Dict[str, Any]], results: List[Dict[str, Any]], root: str,
                 reader: powerloss.Reader, fault: Optional[Dict[str, Any]] = None, faultlog: Optional[List[Dict[str, Any]]] = None,
                 error: Optional[str] = None):
        self.steps, self.mode, self.raw, self.results, self.root = steps, mode, raw, results, os.path.realpath(root)
        self.fault, self.faultlog, self.error = fault, faultlog or [], error
        self.reader = reader
        self.namer = ostrace.Namer()
        # several writer threads in one process: the interleaved trace is judged by the power-loss oracle (directory
        # fsyncs by their ISSUE instant); Durable.trace_of describes one writer, so no model ops are rebuilt
        self.threaded = any(st and st[0] == "threads" for st in steps)
        if self.threaded:
            self.can = {"calls": [], "marks": {}, "published": [], "unknown": [], "raw_index": [],
                        "dropped": {"locks": 0, "open_nocreat": 0, "reopen_empty": 0}}
            self.calls, self.problems, self.ops = [], ["threaded scenario: oracle only"], []
            return
        self.can = ostrace.canonicalise(raw, root, self.namer, self.tokens_for)
        self.calls: List[Any] = self.can["calls"]
        self.problems: List[str] = []
        self.ops: List[Dict[str, Any]] = []
        self._build_ops()

    def tokens_for(self, rel: str, b: bytes) -> List[Any]:
        if len(b) == 0:
            return []
        ok, refs, _ = self.reader.parse(powerloss.kind_of(rel), b)
        return [("Raw", len(b))] + [("Ref", ("P",) + self.namer.final(r)) for r in refs]

    def _build_ops(self) -> None:
        """The model's commit records, from WHAT was published in each step (classified by the kind of
        file and paired by name), never from the order of the calls: the order is the model's claim."""
        marks = self.can["marks"]
        pubs = self.can["published"]
        for i, res in enumerate(self.results):
            lo, hi = marks.get(f"{i}:begin"), marks.get(f"{i}:end")
            if lo is None or hi is None:
                self.problems.append(f"step {i}: marks missing")
                continue
            mine = [p for p in pubs if lo <= p["call"] < hi]
            if not mine:
                continue
            by_kind: Dict[str, List[Dict[str, Any]]] = {}
            for p in mine:
                by_kind.setdefault(powerloss.kind_of(p["rel"]), []).append(p)
            metas, ptrs = by_kind.get("metadata", []), by_kind.get("pointer", [])
            if not metas and not ptrs and set(by_kind) <= {"marker", "data"} and not res.get("ok") and res.get("rolled_back") \
                    and not res.get("aborted"):
                self._failed_append(i, res, lo, hi, by_kind)
                continue
            if not metas and not ptrs and set(by_kind) <= {"marker", "data"} and res.get("aborted"):
                # a rolled-back transaction: marker + data file pairs, all unlinked again
                markers = {os.path.basename(p["rel"])[: -len(".inflight")]: p for p in by_kind.get("marker", [])}
                data_order = [d.lstrip("/") for d in res.get("data_files", [])]
                datas = sorted(by_kind.get("data", []), key=lambda p: data_order.index(p["rel"]) if p["rel"] in data_order else 10**6)
                its = []
                for f in datas:
                    m = markers.pop(os.path.basename(f["rel"]), None)
                    if m is None:
                        self.problems.append(f"step {i}: {f['rel']} published without a marker")
                    else:
                        its.append({"marker": self.pub(m), "file": self.pub(f)})
                if markers:
                    self.problems.append(f"step {i}: markers without a file: {sorted(markers)}")
                self.ops.append({"abort": its, "step": i})
                continue
            if len(metas) != 1 or len(ptrs) != 1 or by_kind.get("unknown"):
                self.problems.append(f"step {i} {res['step']}: not a commit (metadata files {len(metas)}, pointer writes {len(ptrs)}, "
                                     f"unknown files {[p['rel'] for p in by_kind.get('unknown', [])]}, ok={res.get('ok')}, err={res.get('error')})")
                continue
            markers = {os.path.basename(p["rel"])[: -len(".inflight")]: p for p in by_kind.get("marker", [])}

            def item(f: Dict[str, Any]) -> Optional[Dict[str, Any]]:
                m = markers.pop(os.path.basename(f["rel"]), None)
                if m is None:
                    self.problems.append(f"step {i}: {f['rel']} published without a marker")
                    return None
                return {"marker": self.pub(m), "file": self.pub(f)}

            data_order = [d.lstrip("/") for d in res.get("data_files", [])]
            datas = sorted(by_kind.get("data", []), key=lambda p: data_order.index(p["rel"]) if p["rel"] in data_order else 10**6)
            lists = by_kind.get("list", [])
            mans = by_kind.get("manifest", [])
            if lists:
                _, lrefs, _ = self.reader.parse("list", lists[0]["bytes"])
                mans = sorted(mans, key=lambda p: lrefs.index(p["rel"]) if p["rel"] in lrefs else 10**6)
            commit = {"data": [item(f) for f in datas], "manifests": [item(f) for f in mans], "list": [item(f) for f in lists],
                      "meta": self.pub(metas[0]), "ptr": self.tokens_for(ptrs[0]["rel"], ptrs[0]["bytes"]), "step": i}
            if markers:
                self.problems.append(f"step {i}: markers without a file: {sorted(markers)}")
            if any(x is None for k in ("data", "manifests", "list") for x in commit[k]):
                continue
            self.ops.append(commit)

    def _failed_append(self, i: int, res: Dict[str, Any], lo: int, hi: int, by_kind: Dict[str, List[Dict[str, Any]]]) -> None:
        """A transaction whose append_data raised and that was rolled back: model op OFail its mk fl k.
        its = the (marker, data file) pairs completed before; the failing publish is the temp that was
        created but never renamed (k = how many of Create / Write / Fsync it got), or nothing at all (k = 0),
        or the file that was renamed into place but whose directory was never fsynced (k = 4)."""
        calls = self.calls[lo:hi]
        renamed = {c[1] for c in calls if c[0] == "Rename"}
        orphans = [c[1] for c in calls if c[0] == "Create" and c[1] not in renamed]
        # a publish whose DIRECTORY fsync (or the descriptor opened for it) failed: renamed into place, the rename
        # not followed by the FsyncDir of its directory (k = 4: the file stays linked, nothing is cleaned up)
        half = [p for kk in ("marker", "data") for p in by_kind.get(kk, [])
                if not (p["call"] + 1 < len(self.calls) and self.calls[p["call"] + 1] == ("FsyncDir", p["cpath"][1]))]
        if half:
            if len(half) > 1 or orphans:
                self.problems.append(f"step {i}: failed append with {len(half)} publishes lacking their directory fsync and {len(orphans)} unfinished temps")
                return
            h = half[0]
            rest = {kk: [p for p in by_kind.get(kk, []) if p is not h] for kk in ("marker", "data")}
            markers = {os.path.basename(p["rel"])[: -len(".inflight")]: p for p in rest["marker"]}
            data_order = [d.lstrip("/") for d in res.get("data_files", [])]
            datas = sorted(rest["data"], key=lambda p: data_order.index(p["rel"]) if p["rel"] in data_order else 10**6)
            its = []
            for f in datas:
                m = markers.pop(os.path.basename(f["rel"]), None)
                if m is None:
                    self.problems.append(f"step {i}: {f['rel']} published without a marker")
                    return
                its.append({"marker": self.pub(m), "file": self.pub(f)})
            if powerloss.kind_of(h["rel"]) == "data":
                m = markers.pop(os.path.basename(h["rel"]), None)
                if m is None or markers:
                    self.problems.append(f"step {i}: data file {h['rel']} (directory fsync failed) without exactly its marker")
                    return
                self.ops.append({"fail": its, "mk": self.pub(m), "fl": self.pub(h), "k": 4, "step": i})
            else:
                if markers:
                    self.problems.append(f"step {i}: marker {h['rel']} (directory fsync failed) next to unpaired markers {sorted(markers)}")
                    return
                self.ops.append({"fail": its, "mk": self.pub(h), "fl": None, "k": 4, "step": i})
            return
        markers = {os.path.basename(p["rel"])[: -len(".inflight")]: p for p in by_kind.get("marker", [])}
        data_order = [d.lstrip("/") for d in res.get("data_files", [])]
        datas = sorted(by_kind.get("data", []), key=lambda p: data_order.index(p["rel"]) if p["rel"] in data_order else 10**6)
        its = []
        for f in datas:
            m = markers.pop(os.path.basename(f["rel"]), None)
            if m is None:
                self.problems.append(f"step {i}: {f['rel']} published without a marker")
                return
            its.append({"marker": self.pub(m), "file": self.pub(f)})
        if len(orphans) > 1 or len(markers) > 1:
            self.problems.append(f"step {i}: failed append with {len(orphans)} unfinished temps and {len(markers)} unpaired markers")
            return
        if orphans:
            t = orphans[0]
            mine = [c for c in calls if c[0] in ("Create", "Write", "Fsync") and c[1] == t]
            k = len(mine)
            content = next((c[2] for c in mine if c[0] == "Write"), [("Raw", 1)])
            failing = (("P", t[1], t[2]), content)
        else:
            k = 0
            d, n = self.namer.fresh("data" if markers else "metadata/inflight")
            failing = (("P", d, n), [("Raw", 1)])
        if markers:                                   # the marker was published, the data file's publish failed
            mk = self.pub(list(markers.values())[0])
            if failing[0][1] != self.namer.dir("data"):
                self.problems.append(f"step {i}: unpaired marker but the unfinished temp is not a data file")
                return
            self.ops.append({"fail": its, "mk": mk, "fl": failing, "k": k, "step": i})
        else:                                         # the marker's own publish failed
            if failing[0][1] != self.namer.dir("metadata/inflight"):
                self.problems.append(f"step {i}: failed append: unfinished temp {failing[0]} is neither a marker nor follows one")
                return
            self.ops.append({"fail": its, "mk": failing, "fl": None, "k": k, "step": i})

    def pub(self, p: Dict[str, Any]) -> Tuple[Any, List[Any]]:
        return (p["cpath"], self.tokens_for(p["rel"], p["bytes"]))

    # Gallina rendering
    def ops_coq(self) -> str:
        def pub(x: Tuple[Any, List[Any]]) -> str:
            return f"(mkPub {ostrace.path_coq(x[0])} {ostrace.tokens_coq(x[1])})"

        def items(l: List[Dict[str, Any]]) -> str:
            return "[" + "; ".join(f"mkItem {pub(it['marker'])} {pub(it['file'])}" for it in l) + "]"
        return "[" + "; ".join(
            f"OAbort {items(c['abort'])}" if "abort" in c else
            (f"OFail {items(c['fail'])} {pub(c['mk'])} " + ("None" if c["fl"] is None else f"(Some {pub(c['fl'])})") + f" {c['k']}%nat") if "fail" in c else
            f"OCommit (mkCommit {items(c['data'])} {items(c['manifests'])} {items(c['list'])} {pub(c['meta'])} {ostrace.tokens_coq(c['ptr'])})"
            for c in self.ops) + "]"

    def calls_nomkdir(self) -> List[Any]:
        return [c for c in self.calls if c[0] != "Mkdir"]

    def final_paths(self, with_markers: bool = True) -> List[Any]:
        seen: List[Any] = []
        for c in self.calls:
            for x in c[1:]:
                if isinstance(x, tuple) and x and x[0] == "P" and x not in seen:
                    seen.append(x)
        # the directories below metadata/inflight are ONE directory for the model (ostrace.Namer.dir): which of the markers a
        # directory fsync persisted is therefore not comparable between the two evaluators, and not part of C16's statement
        return seen if with_markers else [x for x in seen if x[1] != ostrace.DIRS["metadata/inflight"]]


def mask_lengths(calls: List[Any]) -> List[Any]:
    out = []
    for c in calls:
        if c[0] == "Write":
            out.append(("Write", c[1], [("Raw", 0) if t[0] == "Raw" else t for t in c[2]]))
        else:
            out.append(c)
    return out


def first_diff(a: List[Any], b: List[Any]) -> Dict[str, Any]:
    for k in range(max(len(a), len(b))):
        x = a[k] if k < len(a) else None
        y = b[k] if k < len(b) else None
        if x != y:
            return {"index": k, "observed": repr(x), "model": repr(y), "observed_len": len(a), "model_len": len(b)}
    return {}


# ------------------------------------------------------------------------------------------ oracle
def ack_check(case: Case) -> List[Dict[str, Any]]:
    """After an acknowledged commit (the end of a step that advanced the pointer and reported success), the drop-all
    durable pointer is the live pointer.  A step that did not move the pointer (rollback, reopen) acknowledges no commit:
    the live pointer may then be the one an earlier commit left whose outcome was REPORTED as ambiguous (the pointer's own
    directory fsync failed after the rename -> AmbiguousCommitError, step not ok), which nobody was told is durable."""
    bad: List[Dict[str, Any]] = []
    fs = powerloss.PLFS(case.root)
    moved = False
    for k, ev in enumerate(case.raw):
        fs.apply(ev)
        if ev["op"] == "mark" and ev["label"].endswith(":begin"):
            moved = False
        if ev["op"] == "rename" and fs.rel(ev["path2"]) == powerloss.POINTER:
            moved = True
        if ev["op"] == "mark" and ev["label"].endswith(":end"):
            i = int(ev["label"].split(":")[0])
            if not case.results[i].get("ok") or not moved:
                continue
            live = fs.volatile_content(powerloss.POINTER)
            e, d = fs.durable()
            durable = d.get(e[powerloss.POINTER]) if powerloss.POINTER in e else None
            if live is not None and durable != live:
                bad.append({"prefix": k + 1, "step": case.steps[i], "live_pointer": live.decode("utf-8", "replace"),
                            "durable_pointer": None if durable is None else durable.decode("utf-8", "replace")})
    return bad


def random_schedule(rng, raw: List[Dict[str, Any]], root: str, density: float) -> Dict[int, List[Any]]:
    """Background persistence events at random instants: entries of visible names, contents of live inodes
    (whole or a random prefix)."""
    fs = powerloss.PLFS(root)
    sched: Dict[int, List[Any]] = {}
    for n in range(1, len(raw) + 1):
        fs.apply(raw[n - 1])
        if rng.random() < density and fs.vol_e:
            evs = []
            for _ in range(rng.choice([1, 1, 2, 3])):
                if rng.random() < 0.6:
                    names = list(fs.vol_e) + [q for q in fs.dur_e if q not in fs.vol_e]
                    evs.append(("entry", rng.choice(names)))
                else:
                    i = rng.choice(list(fs.vol_d))
                    sz = len(fs.vol_d[i])
                    evs.append(("data", i, None if rng.random() < 0.5 or sz == 0 else rng.randrange(sz + 1)))
            sched[n] = evs
    return sched


def oracle_case(ctx, case: Case, nsched: int, expect_violation: bool = False) -> List[Dict[str, Any]]:
    viol, evals = powerloss.sweep(case.raw, case.root, case.reader)
    ctx.count(evals)
    for _ in range(nsched):
        sched = random_schedule(ctx.rng, case.raw, case.root, 0.25)
        v2, e2 = powerloss.sweep(case.raw, case.root, case.reader, outcomes=["drop_all", "entries_early"], schedule=sched)
        ctx.count(e2)
        for v in v2:
            v["schedule"] = {str(k): [list(b) for b in bs] for k, bs in sched.items() if v["prefix"] is None or k <= v["prefix"]}
        viol += v2
    for a in ack_check(case):
        viol.append({"prefix": a["prefix"], "outcome": "drop_all", "problems": [dict(a, problem="acknowledged commit not durable")]})
    return viol


def tail_check(ctx, case: Case, already: bool) -> None:
    """The durable-prefix rule read directly off the raw trace (c16_sizes.unsynced_tails): a file that is renamed into
    place must have been fsynced after the LAST write it received.  Cross-check of the prefix evaluator: a trace that
    breaks the rule for a file some version references, while the evaluator found no crash state showing the torn
    file, is reported on its own."""
    locks = os.path.join(case.root, ".locks") + os.sep
    bad = c16_sizes.unsynced_tails([ev for ev in case.raw if not str(ev.get("path", "")).startswith(locks)])
    ctx.count(1)
    if not bad or already:
        return
    b = bad[0]
    rel = os.path.relpath(b["to"], case.root)
    ctx.violation(f"unsynced-tail:{powerloss.kind_of(rel)}",
                  f"{rel} was renamed into place with {b['bytes_written'] - b['bytes_synced']} of its {b['bytes_written']} bytes written "
                  f"after its last fsync ({'no fsync at all' if b['last_fsync_index'] is None else 'fsync at raw call #%d' % b['last_fsync_index']}, "
                  f"last write at #{b['last_write_index']}, rename at #{b['rename_index']}) and the crash-state enumeration did NOT find the torn "
                  f"file -- scenario {case.steps}, tracer {case.mode}",
                  {"steps": case.steps, "mode": case.mode, "mutation": getattr(case, "mutation", None), "fault": case.fault,
                   "unsynced_tail": {k: (os.path.relpath(v, case.root) if k in ("from", "to") else v) for k, v in b.items()}})


def shrink_steps(ctx, steps: List[Any], mode: str, mutation: Optional[str], still_fails) -> List[Any]:
    cur = list(steps)
    changed = True
    while changed and len(cur) > 1:
        changed = False
        for k in range(len(cur) - 1, 0, -1):
            cand = cur[:k] + cur[k + 1:]
            try:
                if still_fails(cand):
                    cur, changed = cand, True
                    break
            except Exception:
                continue
    return cur


def report_violations(ctx, case: Case, viol: List[Dict[str, Any]], mutation: Optional[str]) -> None:
    if not viol:
        return
    pick = lambda x: (x["prefix"] is None, x["outcome"] != "drop_all", x["prefix"] or 0)   # noqa: E731
    v = min(viol, key=pick)

    def still_fails(steps: List[Any]) -> bool:
        c2 = make_case(ctx, steps, case.mode, mutation)
        return bool(powerloss.sweep(c2.raw, c2.root, c2.reader)[0])
    steps = case.steps
    fault = case.fault
    if mutation is None and fault is None and len(case.steps) > 2:
        steps = shrink_steps(ctx, case.steps, case.mode, mutation, still_fails)
        if steps != case.steps:
            c2 = make_case(ctx, steps, case.mode, mutation)
            v2, _ = powerloss.sweep(c2.raw, c2.root, c2.reader)
            if v2:
                case, v = c2, min(v2, key=pick)
    if fault is not None and mutation is None:
        # shrink: the steps after the one the fault hit are not needed (earlier calls, hence the fault index, are unchanged)
        j = None
        for ev in case.raw:
            if ev["op"] == "mark":
                if ev["label"].endswith(":begin"):
                    j = int(ev["label"].split(":")[0])
                elif ev["label"].startswith("fault:"):
                    break
        if j is not None and j + 1 < len(case.steps):
            c2 = make_case(ctx, case.steps[: j + 1], case.mode, None, fault)
            if not c2.error:
                v2, _ = powerloss.sweep(c2.raw, c2.root, c2.reader, outcomes=["drop_all", "entries_early"])
                v2 += [{"prefix": a["prefix"], "outcome": "drop_all", "problems": [dict(a, problem="acknowledged commit not durable")]} for a in ack_check(c2)]
                if v2:
                    case, v, steps, viol = c2, min(v2, key=pick), c2.steps, v2
    prob = v["problems"][0]
    key = f"pointer-outruns-data:{prob.get('problem', '?').split(' ')[0]}:{powerloss.kind_of(prob.get('file', '')) if prob.get('file') else 'pointer'}"
    fdesc = None
    if fault is not None:
        fdesc = next((f for f in case.faultlog if f.get("injected")), None)
        if fdesc is not None:
            key += f":after-failed-{fdesc['call']}-of-" + ("dir-" + (fdesc['path'].replace("/", "_") if fdesc['path'] != "." else "root")
                                                          if fdesc.get("isdir") else powerloss.kind_of(_final_guess(fdesc['path'])))
    trace_txt = powerloss.describe_trace(case.raw, case.root)
    n = v["prefix"] or 0
    if "live_pointer" in prob:
        what = (f"power loss after call #{n} (the acknowledgement of step {prob.get('step')}) under outcome {v['outcome']}: the acknowledged "
                f"commit is not durable -- the pointer every process sees names {prob.get('live_pointer')!r}, the pointer on disk is "
                f"{prob.get('durable_pointer')!r} -- scenario {steps}, tracer {case.mode}")
    else:
        what = (f"power loss after call #{n} ({v.get('last_call')}) under outcome {v['outcome']}: the surviving pointer references "
                f"{prob.get('file')} which is {prob.get('problem')} ({prob.get('detail', '')}) -- scenario {steps}, tracer {case.mode}")
    if fdesc is not None:
        what += (f"; injected fault: durability call #{fdesc['i']} ({fdesc['call']} of {fdesc['path']}, in {fdesc['module']}) raised OSError(EIO) "
                 f"and the library went on to acknowledge: steps ok = {[r.get('ok') for r in case.results]}")
    ctx.violation(key, what, {"steps": steps, "mode": case.mode, "mutation": mutation, "fault": fault, "fault_call": fdesc,
                              "prefix": n, "outcome": v["outcome"],
                              "schedule": v.get("schedule"), "problems": v["problems"],
                              "trace_up_to_crash": trace_txt[max(0, n - 12):n], "violating_prefixes": len(viol)})


def _final_guess(rel: str) -> str:
    """table-relative path of the file a temp name belongs to (for the violation key only)."""
    d, b = os.path.dirname(rel), os.path.basename(rel)
    if b.startswith("<temp>"):
        b = b[len("<temp>"):].lstrip(".")
    elif b.startswith(".tmp.") and b.count(".") >= 3:
        b = b.split(".", 3)[3]
    elif b.startswith("tmp") and b.endswith(".parquet"):
        b = "auto_x.parquet"
    return os.path.join(d, b) if d else b


def report_unbounded(ctx, case: Case) -> None:
    """A library operation that hangs, exhausts memory or kills the worker is a reported violation with its input."""
    fdesc = next((f for f in case.faultlog if f.get("injected")), None)
    ctx.violation("operation-not-bounded:" + case.error.split(":")[0].replace(" ", "-"),
                  f"scenario {case.steps} (tracer {case.mode}, fault {case.fault}) did not complete: {case.error}",
                  {"steps": case.steps, "mode": case.mode, "mutation": getattr(case, "mutation", None), "fault": case.fault,
                   "fault_call": fdesc, "error": case.error, "steps_completed": [r.get("ok") for r in case.results]})


_SEQ = [0]


def make_cases(ctx, specs: List[Dict[str, Any]]) -> List[Case]:
    """Run scenario specs {"steps", "mode", "mutation"?, "fault"?} and return their Cases, in order.
    In-process runs go through bounded worker subprocesses (harness/lib/c16_worker.py): wall-clock alarm,
    address-space limit, the parent kills a worker without progress; strace runs have their own timeout.
    A run that hangs / dies yields a Case with .error set (and whatever trace was recorded)."""
    jobs, out = [], {}
    for k, sp in enumerate(specs):
        _SEQ[0] += 1
        root = os.path.join(ctx.scratch, f"t{_SEQ[0]}")
        sp = dict(sp, root=root, id=f"j{_SEQ[0]}")
        specs[k] = sp
        if sp.get("mode", "inproc") == "strace":
            try:
                raw, results = run_strace(ctx, root, sp["steps"], sp.get("mutation"))
                out[sp["id"]] = {"events": raw, "results": results, "faultlog": []}
            except Exception as e:  # timeout / driver crash
                out[sp["id"]] = {"error": f"{type(e).__name__}: {e}"[:500]}
            shutil.rmtree(root, ignore_errors=True)
        else:
            jobs.append({"id": sp["id"], "root": root, "steps": sp["steps"], "mutation": sp.get("mutation"), "fault": sp.get("fault")})
    out.update(c16_worker.run_jobs(ctx.scratch, jobs, nworkers=int(os.environ.get("C16_WORKERS", "8"))))
    cases = []
    for sp in specs:
        r = out.get(sp["id"], {"error": "no result"})
        results = r.get("results")
        if results is None:
            results = [{"step": st, "ok": False, "data_files": [], "error": "not completed"} for st in sp["steps"]]
        cases.append(Case(sp["steps"], sp.get("mode", "inproc"), r.get("events", []), results, sp["root"], READER,
                          fault=sp.get("fault"), faultlog=r.get("faultlog"), error=r.get("error")))
        cases[-1].mutation = sp.get("mutation")
    return cases


def make_case(ctx, steps: List[Any], mode: str, mutation: Optional[str] = None, fault: Optional[Dict[str, Any]] = None) -> Case:
    return make_cases(ctx, [{"steps": steps, "mode": mode, "mutation": mutation, "fault": fault}])[0]


READER = powerloss.Reader()


# ------------------------------------------------------------------------------------------ faults
FAULT_SCENARIOS: List[List[Any]] = [
    [["create"], ["append", 3], ["delete_append", 0, 2], ["append", 1]],
    [["create"], ["multi", [2, 1]], ["expire"], ["abort", [1]], ["delete_snapshot", 0], ["append", 2]],
    [["create"], ["append", 2], ["append_expire", 1], ["delete", 0], ["reopen"], ["append", 1]],
]


def is_dir_sync_fault(f: Dict[str, Any]) -> bool:
    """open / fsync of a DIRECTORY (the last call of a publish: it persists the rename).  Counted separately in the
    evidence; judged like every other fault: the property demands the directory entry persisted before the pointer moves."""
    return bool(f.get("isdir")) and f["call"] in ("open", "fsync")


def oracle_faults(ctx, scenarios: List[List[Any]]) -> List[Case]:
    probes = make_cases(ctx, [{"steps": s, "mode": "inproc"} for s in scenarios])
    specs = []
    for pc in probes:
        if pc.error:
            report_unbounded(ctx, pc)
            continue
        for f in pc.faultlog:
            specs.append({"steps": pc.steps, "mode": "inproc", "fault": {"index": f["i"]}, "_expect": f})
            if f["call"] == "write":     # the same call, as a POSIX short write (fewer bytes transferred, reported in the return value)
                specs.append({"steps": pc.steps, "mode": "inproc", "fault": {"index": f["i"], "kind": "short_write"}, "_expect": f})
    fcases = make_cases(ctx, specs)
    stats = {"scenarios": len(probes), "durability_calls": len(specs), "by_call": {}, "aborted_cleanly": 0, "swallowed_and_acknowledged": 0,
             "dir_sync_faults": 0, "dir_sync_faults_with_violating_prefixes": 0, "not_injected": 0}
    for sp, fc in zip(specs, fcases):
        if fc.error:
            report_unbounded(ctx, fc)
            continue
        inj = next((f for f in fc.faultlog if f.get("injected")), None)
        if inj is None:
            stats["not_injected"] += 1
            continue
        k = f"{inj['call']}:{'dir' if inj['isdir'] else powerloss.kind_of(_final_guess(inj['path']))}"
        stats["by_call"][k] = stats["by_call"].get(k, 0) + 1
        all_ok = all(r.get("ok") for r in fc.results)
        stats["swallowed_and_acknowledged" if all_ok else "aborted_cleanly"] += 1
        viol, evals = powerloss.sweep(fc.raw, fc.root, fc.reader, outcomes=["drop_all", "entries_early"])
        ctx.count(evals, ("fault", json.dumps(fc.steps), inj["i"]))
        for a in ack_check(fc):
            viol.append({"prefix": a["prefix"], "outcome": "drop_all", "problems": [dict(a, problem="acknowledged commit not durable")]})
        if is_dir_sync_fault(inj):
            # a failing directory open / fsync leaves the rename of the file just published unpersisted: the library
            # must not go on to advance (and acknowledge) a pointer that reaches it -- judged like every other fault
            stats["dir_sync_faults"] += 1
            stats["dir_sync_faults_with_violating_prefixes"] += 1 if viol else 0
        report_violations(ctx, fc, viol, None)
    ctx.stats["fault_injection"] = stats
    return fcases


# ------------------------------------------------------------------------------------------ scenarios
def random_scenario(rng, maxlen: int) -> List[Any]:
    steps: List[Any] = [["create"]]
    for _ in range(rng.randint(2, maxlen)):
        r = rng.random()
        if r < 0.30:
            steps.append(["append", rng.choice([0, 1, 2, 5, 40])])
        elif r < 0.45:
            steps.append(["multi", [rng.choice([1, 2, 3]) for _ in range(rng.choice([2, 3, 4]))]])
        elif r < 0.60:
            steps.append(["delete", rng.randrange(5)])
        elif r < 0.70:
            steps.append(["delete_append", rng.randrange(5), rng.choice([1, 3])])
        elif r < 0.80:
            steps.append(["expire"])
        elif r < 0.87:
            steps.append(["append_expire", rng.choice([1, 2])])
        elif r < 0.93:
            steps.append(["delete_snapshot", rng.randrange(4)])
        elif r < 0.97:
            steps.append(["abort", [rng.choice([1, 2]) for _ in range(rng.choice([1, 2]))]])
        else:
            steps.append(["reopen"])
    return steps


def thread_scenarios(rng, quick: bool) -> List[List[Any]]:
    """In-process concurrency as a dimension of the durability traces: 2-3 writer threads of ONE process appending to one
    table (same data/, metadata/inflight, metadata/manifests, metadata/ and root directories), scheduled at the directory
    fsync / rename boundaries: for k = 0, 1, 2, ... the k-th directory fsync of one thread is slow (ostrace.ThreadSched),
    so that another thread's rename into that directory lands while it is in progress; also two slow fsyncs at once, and
    tables with history.  What is judged: every prefix of the INTERLEAVED trace, a directory fsync persisting the
    entries its directory had when it was issued."""
    out: List[List[Any]] = []
    for k in range(6 if quick else 10):
        nthr = 3 if (k % 3 == 1 and rng.random() < 0.5) else 2
        lists = [[rng.choice([1, 2, 3])] + ([rng.choice([1, 2])] if rng.random() < 0.25 else []) for _ in range(nthr)]
        pre = [["append", rng.choice([1, 2])]] if rng.random() < 0.4 else []
        out.append([["create"]] + pre + [["threads", lists, [[rng.randrange(nthr), k]]]])
    for _ in range(2 if quick else 8):
        nthr = rng.choice([2, 3])
        lists = [[rng.choice([1, 2]), rng.choice([1, 3])] for _ in range(nthr)]
        holds = [[t, rng.randrange(0, 10)] for t in rng.sample(range(nthr), 2)]
        out.append([["create"], ["threads", lists, holds]])
    return out


# ------------------------------------------------------------------------------------------ correspondence
def corr_model(ctx, cases: List[Case], prefix: str = "") -> None:
    exprs: List[str] = []
    for c in cases:
        exprs.append(f"trace_of {c.ops_coq()}")
        exprs.append(f"wf {c.ops_coq()}")
        exprs.append(f"(disciplined {ostrace.calls_coq(c.calls)}, first_bad g0 {ostrace.calls_coq(c.calls)} 0%nat)")
    got = coqbuild.coq_eval(REQ, exprs, preamble=PRE, chunk=6)
    bad_t, bad_w, bad_d = [], [], []
    for k, c in enumerate(cases):
        model_trace = [ostrace.call_from_coq(t) for t in got[3 * k]]
        obs = c.calls_nomkdir()
        info = {"steps": c.steps, "tracer": c.mode}
        if c.fault is not None:
            info["fault"] = next((f for f in c.faultlog if f.get("injected")), c.fault)
        if c.problems or c.can["unknown"]:
            bad_t.append(dict(info, canonicaliser_problems=c.problems[:4], calls_outside_alphabet=c.can["unknown"][:4]))
        elif model_trace != obs:
            bad_t.append(dict(info, **first_diff(obs, model_trace)))
        if got[3 * k + 1] is not True:
            bad_w.append(dict(info, wf=got[3 * k + 1]))
        disc, fb = got[3 * k + 2]
        if disc is not True:
            idx = fb.x if hasattr(fb, "x") else fb
            bad_d.append(dict(info, first_bad_call=idx, call=repr(c.calls[idx]) if isinstance(idx, int) and idx < len(c.calls) else None))
        ctx.count(1, ("trace", c.mode, json.dumps(c.steps), json.dumps(c.fault)))
    ctx.correspondence(prefix + "trace", len(cases), bad_t)
    ctx.correspondence(prefix + "wf", len(cases), bad_w)
    ctx.correspondence(prefix + "disciplined", len(cases), bad_d)


def tree_tokens(case: Case, fs: powerloss.PLFS, paths: List[Any], rel_of: Dict[Any, str]) -> List[Any]:
    e, d = fs.durable()
    out = []
    for cp in paths:
        rel = rel_of[cp]
        out.append(None if rel not in e else case.tokens_for(rel, d.get(e[rel], b"")))
    return out


def corr_evaluator(ctx, cases: List[Case]) -> None:
    """Model exec/power_loss vs the Python evaluator, drop-all, on every prefix of the canonical trace."""
    exprs, expected, kept = [], [], []
    for c in cases:
        if c.can["unknown"]:
            continue
        paths = c.final_paths(with_markers=False)
        rel_of = {("P",) + v: k for k, v in c.namer.names.items()}
        if any(p not in rel_of for p in paths):
            continue
        # Python side: durable tree after each canonical call
        fs = powerloss.PLFS(c.root)
        per_prefix = [tree_tokens(c, fs, paths, rel_of)]
        pos = 0
        for k in range(len(c.calls)):
            while pos <= c.can["raw_index"][k]:
                fs.apply(c.raw[pos])
                pos += 1
            per_prefix.append(tree_tokens(c, fs, paths, rel_of))
        expected.append(per_prefix)
        kept.append(c)
        ps = "[" + "; ".join(ostrace.path_coq(p) for p in paths) + "]"
        exprs.append(f"let tr := {ostrace.calls_coq(c.calls)} in map (fun n => match exec fs0 (firstn n tr) with "
                     f"Some s => map (content_at (power_loss s)) {ps} | None => [] end) (seq 0%nat (S (List.length tr)))")
    got = coqbuild.coq_eval(REQ, exprs, preamble=PRE, chunk=6)
    bad = []
    n = 0
    for c, exp, g in zip(kept, expected, got):
        for k, (pe, pg) in enumerate(zip(exp, g)):
            n += 1
            pg2 = [None if x is None else ostrace.tokens_from_coq(x.x) for x in pg]
            if pg2 != pe:
                bad.append({"steps": c.steps, "tracer": c.mode, "prefix": k, "python": repr(pe)[:300], "model": repr(pg2)[:300]})
                break
        if len(g) != len(exp):
            bad.append({"steps": c.steps, "prefixes_python": len(exp), "prefixes_model": len(g)})
    ctx.correspondence("evaluator", n, bad)
    ctx.count(n)


def corr_schedules(ctx, cases: List[Case], per_case: int) -> None:
    """Model `run` (calls interleaved with background events) vs the Python evaluator on the same random
    schedules: durable tree of the final names at random cut points."""
    exprs, expected, info = [], [], []
    rng = ctx.rng
    for c in cases:
        if c.can["unknown"]:
            continue
        paths = c.final_paths(with_markers=False)
        rel_of = {("P",) + v: k for k, v in c.namer.names.items()}
        if any(p not in rel_of for p in paths):
            continue
        ps = "[" + "; ".join(ostrace.path_coq(p) for p in paths) + "]"
        for _ in range(per_case):
            fs = powerloss.PLFS(c.root)
            pos = 0
            events: List[str] = []
            model_inode_of_py: Dict[int, int] = {}
            ncreate = 0
            live_final: List[Any] = []
            cuts = sorted(rng.sample(range(1, len(c.calls) + 1), min(4, len(c.calls))))
            for k, call in enumerate(c.calls):
                while pos <= c.can["raw_index"][k]:
                    before = fs.nxt
                    fs.apply(c.raw[pos])
                    if pos == c.can["raw_index"][k] and call[0] == "Create" and fs.nxt == before + 1:
                        model_inode_of_py[before] = ncreate
                    pos += 1
                events.append("Call (" + ostrace.call_coq(call) + ")")
                if call[0] == "Create":
                    ncreate += 1
                if call[0] == "Rename" and call[2] not in live_final:
                    live_final.append(call[2])
                # background events right after this call
                if rng.random() < 0.35:
                    for _b in range(rng.choice([1, 2, 3])):
                        if rng.random() < 0.6 and live_final:
                            cp = rng.choice(live_final)
                            fs.bg_entry(rel_of[cp])
                            events.append(f"Bg (PEntry {ostrace.path_coq(cp)})")
                        elif model_inode_of_py:
                            pi = rng.choice(list(model_inode_of_py))
                            fs.bg_data(pi, None)
                            events.append(f"Bg (PData {model_inode_of_py[pi]} 200%nat)")
                if (k + 1) in cuts:
                    expected.append(tree_tokens(c, fs, paths, rel_of))
                    exprs.append("match run fs0 [" + "; ".join(events) + f"] with Some s => map (content_at (power_loss s)) {ps} | None => [] end")
                    info.append({"steps": c.steps, "tracer": c.mode, "cut": k + 1, "bg_events": sum(1 for e in events if e.startswith("Bg"))})
    got = coqbuild.coq_eval(REQ, exprs, preamble=PRE, chunk=6)
    bad = []
    for inf, exp, g in zip(info, expected, got):
        g2 = [None if x is None else ostrace.tokens_from_coq(x.x) for x in g]
        if g2 != exp:
            bad.append(dict(inf, python=repr(exp)[:300], model=repr(g2)[:300]))
    ctx.correspondence("schedules", len(exprs), bad)
    ctx.count(len(exprs))
    ctx.stats["schedule_bg_events"] = sum(i["bg_events"] for i in info)


# ------------------------------------------------------------------------------------------ driver
def run(ctx) -> None:
    ctx.rule = ("scenarios = fixed list covering create / append / multi-append / delete_files / expire / delete_snapshot + seeded "
                "random histories; a case is distinct by (tracer, step list); oracle evaluations = (prefix, outcome) pairs of the "
                "observed raw traces judged by the independent reader; fault class = one OSError(EIO) at each durability call "
                "(temp creation / write / fsync descriptor / fsync / rename / directory descriptor / directory fsync) of the fault "
                "scenarios, one run per call; size class = appends of k*c-1, k*c, k*c+1 rows for every integer literal c of "
                "data_operations.py / file_manager.py through every public write path")
    ctx.trusted_base += [
        "translator/gen_durable.py (ast walk of write_file / DataFileWriter.open+close -> call sequence; their except handlers -> which "
        "failures propagate and what the cleanup does; golden order of the commit steps)",
        "power-loss model of coq/Model/Durable.v: fsync(file) persists that inode's content, fsync(dir) persists that directory's "
        "entries, anything else may or may not persist (POSIX-strict; real file systems are at least this strong)",
        "harness/lib/ostrace.py tracers + canonicaliser (projection rules in canonicalise.__doc__), harness/lib/powerloss.py, "
        "harness/lib/c16_driver.py, harness/props/c16.py",
        "strace 6.1 (-f -y -xx) reports the calls the kernel received",
    ]
    ctx.assumptions += [
        "directories exist durably (makedirs and the table root's entry in its parent are outside the property)",
        "files are append-only while open (no seek-back rewrite): the tracers report pwrite-not-at-end / truncate as unknown calls",
        "the file system can fsync directories (a directory fsync refused with EINVAL / ENOTSUP, or a platform without it, is tolerated "
        "by the library -- dir_fsync_unsupported, pinned by the translator; every other failure of it propagates)",
    ]
    ctx.proofs(THEOREMS, gen_files=["GenDurable.v"])
    ctx.allow_axioms([])

    quick = ctx.tier == "quick"
    scen = [list(s) for s in BASE_SCENARIOS]
    for _ in range(6 if quick else 60):
        scen.append(random_scenario(ctx.rng, 6 if quick else 12))
    strace_scen = BASE_SCENARIOS[1:3] if quick else BASE_SCENARIOS + scen[len(BASE_SCENARIOS):len(BASE_SCENARIOS) + 10]

    t0 = time.time()
    cases = make_cases(ctx, [{"steps": s, "mode": "inproc"} for s in scen])
    ctx.stats["inproc_scenarios"] = len(cases)
    ctx.stats["inproc_run_s"] = round(time.time() - t0, 1)
    t0 = time.time()
    scases = make_cases(ctx, [{"steps": s, "mode": "strace"} for s in strace_scen])
    ctx.stats["strace_scenarios"] = len(scases)
    ctx.stats["strace_run_s"] = round(time.time() - t0, 1)
    # ---- data sizes: row counts k*c - 1, k*c, k*c + 1 for every integer literal c of the writer modules, through every
    #      public write path (c16_sizes); the exact multiples also under strace (arrow's own write(2) calls)
    t0 = time.time()
    consts = c16_sizes.harvest_constants(coqbuild.REPO)
    sized_m, sized_o, sstats = c16_sizes.sized_scenarios(list(consts), 250_000 if quick else 400_000, 2 if quick else 3,
                                                         every_path=not quick)
    sstats["constant_sites"] = {str(c): v[:3] for c, v in consts.items()}
    sized_cases = make_cases(ctx, [{"steps": s, "mode": "inproc"} for s in sized_m])
    pre_cases = make_cases(ctx, [{"steps": s, "mode": "inproc"} for s in sized_o])
    rows_of = lambda steps: max([st[1] for st in steps if len(st) > 1 and isinstance(st[1], int)] + [0])   # noqa: E731
    by_rows = sorted(sized_m, key=rows_of)
    sized_strace = by_rows[-1:] if quick else by_rows[-4:]
    sized_scases = make_cases(ctx, [{"steps": s, "mode": "strace"} for s in sized_strace])
    sstats["strace_scenarios"] = len(sized_scases)
    sstats["run_s"] = round(time.time() - t0, 1)
    ctx.stats["data_sizes"] = sstats
    if not sized_cases or not pre_cases:
        ctx.proof_problems.append("no data-size scenario was generated (no integer literal found in the writer modules)")
    # ---- in-process concurrency: writer threads of one process on one table, slow directory fsyncs (oracle only)
    t0 = time.time()
    thr_cases = make_cases(ctx, [{"steps": s, "mode": "inproc"} for s in thread_scenarios(ctx.rng, quick)])
    logs = [h for c in thr_cases for r in (c.results or []) for h in r.get("schedule_log", [])]
    ctx.stats["threads"] = {"scenarios": len(thr_cases), "run_s": round(time.time() - t0, 1), "slow_dir_fsyncs": len(logs),
                            "released_by": {w: sum(1 for h in logs if h["released"] == w) for w in sorted({h["released"] for h in logs})},
                            "dir_fsyncs_with_foreign_calls_before_return": sum(1 for c in thr_cases for ev in c.raw if ev.get("issued_at") is not None),
                            "thread_commits": sum(t.get("commits", 0) for c in thr_cases for r in (c.results or []) for t in r.get("threads", [])),
                            "threads_failed": sum(1 for c in thr_cases for r in (c.results or []) for t in r.get("threads", []) if not t.get("ok"))}
    if thr_cases and not any(h["released"] == "rename-landed" for h in logs):
        ctx.proof_problems.append("threaded scenarios: no rename of another thread landed during a slow directory fsync (the interleaving class was not exercised)")
    for c in thr_cases:
        ctx.count(1, ("threads", json.dumps(c.steps)))
    pre_cases = pre_cases + thr_cases
    for c in cases + scases + sized_cases + pre_cases + sized_scases:
        if c.error:
            report_unbounded(ctx, c)
    n_base = len([c for c in cases if not c.error])
    cases = [c for c in cases + sized_cases if not c.error]
    scases = [c for c in scases + sized_scases if not c.error]
    pre_cases = [c for c in pre_cases if not c.error]
    allc = cases + scases
    if len(allc) < 2:
        ctx.proof_problems.append("no scenario completed")
        return
    ctx.stats["raw_events"] = sum(len(c.raw) for c in allc)
    ctx.stats["canonical_calls"] = sum(len(c.calls) for c in allc)
    ctx.stats["commits_modelled"] = sum(1 for c in allc for o in c.ops if "abort" not in o)
    ctx.stats["aborts_modelled"] = sum(1 for c in allc for o in c.ops if "abort" in o)
    ctx.stats["dropped_by_projection"] = {k: sum(c.can["dropped"][k] for c in allc) for k in ("locks", "open_nocreat", "reopen_empty")}
    ctx.stats["step_kinds"] = {}
    for c in allc:
        for st in c.steps:
            ctx.stats["step_kinds"][st[0]] = ctx.stats["step_kinds"].get(st[0], 0) + 1
    ctx.stats["failed_steps"] = sum(1 for c in allc for r in c.results if not r.get("ok"))
    ctx.sample({"steps": allc[1].steps, "tracer": allc[1].mode, "canonical_head": [repr(x) for x in allc[1].calls[:12]]})

    # ---- implementation-only oracle: every prefix of every observed trace
    t0 = time.time()
    for c in allc + pre_cases:
        viol = oracle_case(ctx, c, nsched=2 if quick else 6)
        report_violations(ctx, c, viol, None)
        tail_check(ctx, c, bool(viol))
    ctx.stats["oracle_s"] = round(time.time() - t0, 1)

    # ---- fault class: OSError at EVERY durability call (temp creation, write, descriptor for fsync, fsync,
    #      rename) of every operation type, one fault per run; the power-loss oracle judges every prefix of
    #      what the library did next and whether what it acknowledged is durable
    t0 = time.time()
    fault_cases = oracle_faults(ctx, FAULT_SCENARIOS[:2] if quick else FAULT_SCENARIOS + scen[len(BASE_SCENARIOS):len(BASE_SCENARIOS) + 6])
    ctx.stats["faults_s"] = round(time.time() - t0, 1)
    ctx.stats["reader_parses"] = READER.parses

    # ---- sensitivity self-test of the oracle (runtime mutations of the library; never reported as violations)
    t0 = time.time()
    sens = {}
    for mu in MUTATIONS:
        for mode in (["inproc"] if quick or mu.startswith("drop_") else ["inproc", "strace"]):
            mc = make_case(ctx, BASE_SCENARIOS[1], mode, mu)
            v, e = powerloss.sweep(mc.raw, mc.root, mc.reader)
            ctx.count(e)
            sens[f"{mu}/{mode}"] = {"violating_prefixes": len(v), "first_prefix": v[0]["prefix"] if v else None,
                                    "first": (v[0]["problems"][0].get("file"), v[0]["problems"][0].get("problem")) if v else None}
            if not v:
                ctx.proof_problems.append(f"oracle self-test: mutation {mu} ({mode}) was NOT detected by the power-loss oracle")
    ctx.stats["oracle_sensitivity"] = sens
    ctx.stats["selftest_s"] = round(time.time() - t0, 1)

    # ---- correspondence with the model
    t0 = time.time()
    try:
        corr_model(ctx, allc)
        # fault runs the model covers: the fault hit a publish inside append_data (OFail); commit-time failures leave
        # orphan manifests whose data files the rollback unlinks -- outside the discipline, judged by the oracle only
        modelled = [c for c in fault_cases if not c.error and not c.problems and not c.can["unknown"] and any("fail" in o for o in c.ops)]
        ctx.stats["fault_runs_modelled_as_OFail"] = len(modelled)
        ctx.stats["fault_runs_outside_model"] = sum(1 for c in fault_cases if not c.error and c.problems)
        k4 = [c for c in modelled if any(o.get("k") == 4 for o in c.ops if "fail" in o)]      # directory fsync / its descriptor failed
        ctx.stats["fault_runs_modelled_dir_fsync_failed"] = len(k4)
        if not quick:
            picked = modelled
        else:       # quick: a bounded sample that always contains directory-fsync failures
            picked = k4[:12] + [c for c in modelled if c not in k4[:12]][:28]
        corr_model(ctx, picked, prefix="fault-")
        if fault_cases and not k4:
            ctx.proof_problems.append("no fault run with a failing directory fsync inside append_data reached the model (OFail k = 4 not exercised)")
        corr_evaluator(ctx, (cases[:3] + scases[:1]) if quick else allc)
        corr_schedules(ctx, (cases[:6] + scases[:1]) if quick else allc, 2 if quick else 4)
        # tracers agree
        bad = []
        for sc in scases:
            ic = next((c for c in cases if c.steps == sc.steps), None)
            if ic is None:
                continue
            a, b = mask_lengths(ic.calls), mask_lengths(sc.calls)
            if a != b:
                bad.append(dict({"steps": sc.steps}, **{k.replace("observed", "inproc").replace("model", "strace"): v for k, v in first_diff(a, b).items()}))
        ctx.correspondence("tracers", len(scases), bad)
    except RuntimeError as e:
        ctx.proof_problems.append("model evaluation failed: " + str(e)[:800])
    ctx.stats["correspondence_s"] = round(time.time() - t0, 1)


def replay(ctx, payload) -> int:
    case = payload.get("case", {})
    if "steps" not in case:
        print("replay: payload kind not replayable directly; re-run ./bin/check C16 thorough")
        return 2
    c = make_case(ctx, case["steps"], case.get("mode", "inproc"), case.get("mutation"), case.get("fault"))
    if c.error:
        print(f"replay: STILL FAILS: the scenario does not complete: {c.error}")
        return 1
    if "error" in case:
        print("replay: the scenario completes now")
        return 0
    sched = {int(k): [tuple(b) for b in v] for k, v in (case.get("schedule") or {}).items()} or None
    viol, _ = powerloss.sweep(c.raw, c.root, c.reader, schedule=sched)
    viol += [{"prefix": a["prefix"], "outcome": "drop_all", "problems": [dict(a, problem="acknowledged commit not durable")]} for a in ack_check(c)]
    if "unsynced_tail" in case:
        locks = os.path.join(c.root, ".locks") + os.sep
        bad = c16_sizes.unsynced_tails([ev for ev in c.raw if not str(ev.get("path", "")).startswith(locks)])
        if bad:
            print(f"replay: STILL FAILS: renamed with bytes written after the last fsync: {bad[0]}")
            return 1
    want = case.get("prefix")
    hit = [v for v in viol if v["prefix"] == want] or viol
    if hit:
        v = hit[0]
        tr = powerloss.describe_trace(c.raw, c.root)
        print(f"replay: STILL FAILS at crash prefix {v['prefix']} outcome {v['outcome']}: {v['problems'][0]}")
        for line in tr[max(0, (v['prefix'] or 0) - 8):(v['prefix'] or 0)]:
            print("   ", line)
        return 1
    print("replay: passes now")
    return 0
