"""C04 -- A failed, interrupted or ambiguous commit never damages committed data.

Proof      : coq/Props/C04.v.
             (1) Model/Fault.v (file plane on top of the commit machine): for every sequence of protocol steps, file
             writes, failures / asynchronous interrupts at any step boundary (EAbort), crashes and rollbacks, by any number
             of transactions, every file referenced by a committed version is present (C04_no_damage); files are deleted
             only by transactions that never flipped; uncommitted files are unreachable; the protocol invariant (hence
             C01) survives every failure.
             (2) Model/Tail.v -- post-flip infallibility.  Fault.v's rollback is guarded by "never flipped"; the code has
             no such test: Transaction.commit's `except Exception` arm deletes the transaction's files whenever an Exception
             reaches it.  The TAIL of every commit path (what still runs inside Transaction.commit's `try` once the
             version-hint write has landed: the rest of MetadataManager.commit, create_snapshot, _commit_file_ops,
             _finish_committed, every library method they call inlined, BOTH sides of every `if` -- so code that runs only
             under a table property is in it) is regenerated from the source by translator/gen_tail.py as a regular
             expression over storage / lock calls, each marked guarded (an Exception it raises is swallowed before
             Transaction.commit's handlers) or not.  Tail.v adds the event the guard excluded (TEscape: an exception class
             leaves the tail, the arm the regenerated table gen_tx_on names runs, no test of the protocol state).
             C04_post_flip_no_damage: for every tail and handler table with tail_safe, every event list keeps every file
             of every committed version present.  HONESTLY: under tail_safe an enabled TEscape is Fault.v's EAbort
             (C04_post_flip_escape_is_abort), so C04_post_flip_{no_damage,unreachable,liveness} are C04_no_damage /
             C04_unreachable / C04_liveness transported to the unguarded machine; what they add is the hypothesis, a decidable
             fact about the regenerated tail (C04_tail_regenerated_safe / C04_commit_tail_no_damage) whose necessity is
             C04_unguarded_tail_damages (an escaping class with a deleting arm has a damaging run).  All assume `sound c`.
             The tail counts as fallible EVERYTHING outside a swallowing try except names, constants, attribute reads / writes,
             displays, `not` / and / or / is / ==, f-strings and logging statements: int(), next(), json.loads, subscripts,
             arithmetic, unpacking, methods of local values are emitted as `TCall TKCompute false` (Transaction.commit's
             `except Exception` arm does not ask why something raised).
             (3) C04_clean_pre: the deleting arm (how a storage error is reported as clean) has only been run by transactions that
             never flipped and are not in the history, in every run of the unguarded machine with a safe tail;
             C04_clean_pre_regenerated: the commit-point write reports a plain storage error only where a failed write is
             guaranteed invisible, and no Exception leaves a regenerated tail.  C04_ambiguous: on the regenerated tables, an
             unknowable outcome of the pointer write is AMBIGUOUS and its arm keeps files and metadata on every attempt; in the
             machine an escaping ambiguous error deletes nothing, for any tail.  NOT proved as one theorem: C04_outcome
             (Success => post) -- it is C01's acknowledged-iff-applied (Props/C01.v) plus C04_pre_or_post.
Tie        : each faulty run of the real code (fault injected at storage call k of a real commit) is projected to
             model events -- protocol steps, FWrite for each file the transaction wrote, EAbort where the exception escaped
             before / at the flip, TEscape where it left the tail, FRollback when the transaction's files were deleted --
             and `trun_strict` over the regenerated tail and handler table must accept it (a rollback-delete after the
             flip is NOT accepted; a deletion of table files outside the rollback is refused by the projection) and agree
             on flipped / outcome / what the handler did.  The calls every real commit issues after its flip must be a
             word of the regenerated tail (tail_accepts, Brzozowski derivatives, evaluated in Coq), and an Exception
             injected at one of them reaches the caller only if the tail has an unguarded call of that kind.
Cases      : fault at storage call k (every k) x {OSError, botocore ClientError} before / after effect, KeyboardInterrupt,
             SystemExit; persistent faults (every later call of the same operation on the same class of path fails);
             x {append, expire, delete_snapshot} x {with, explicit, reused transaction object} x {local, CAS S3, non-CAS S3}
             x TABLE CONFIGURATION / PRE-HISTORY (CONFIGS: retention window full / pruning at every commit / with room /
             invalid value, metadata-log bound 1, expired and deleted snapshots in the history, long histories); thorough adds
             double faults and one transaction that deletes and appends.
             x PROCESS-WIDE CONFIGURATION (harness/lib/procconf.py: library logger at DEBUG / WARNING / CRITICAL through
             DataShardLogger.set_level, module loggers, the application's root logger, logging.disable(INFO), the library's
             environment variables, arbitrary configuration histories): every faulty run draws its configuration (default and
             DEBUG most often; distribution in the evidence).  Configurations are first classified by the storage / lock calls
             the fault-free commit issues under them; a configuration under which the commit issues DIFFERENT calls (code behind
             `logger.isEnabledFor`, an environment switch) gets the whole fault plan again, over its own call indices.
Oracle     : implementation-only: after every faulty run, with an independent reader: success => post-state;
             raise => pre- or post-state; every file referenced by any retained snapshot present; storage-error
             raise (not ambiguous) => pre-state; ambiguous => nothing the transaction wrote was deleted; once the pointer
             write landed nothing the transaction wrote is deleted, whichever later call fails (judged before the follow-up
             commit); the table accepts a follow-up append; pre-state => none of the transaction's files is referenced.
"""
from __future__ import annotations

import os

from typing import Any, Dict, List, Optional, Tuple

from harness.lib import coqbuild, procconf, protocol as P, sched as S

LEVEL = "proof"
THEOREMS = ["C04_no_damage", "C04_unreachable", "C04_liveness", "C04_delete_only_unflipped", "C04_pre_or_post",
            "C04_handlers_keep_after_possible_flip",
            "C04_post_flip_no_damage", "C04_post_flip_unreachable", "C04_post_flip_liveness", "C04_post_flip_escape_is_abort",
            "C04_clean_pre", "C04_clean_pre_regenerated", "C04_ambiguous", "C04_tail_regenerated_safe",
            "C04_commit_tail_no_damage", "C04_unguarded_tail_damages"]
REQ = ["DS.Model.CommitBase", "DS.Model.TailBase", "DS.Gen.GenCommit", "DS.Gen.GenTail", "DS.Model.Commit", "DS.Model.Fault", "DS.Model.Tail"]
MANIFEST_ENTRY = {
    "level_text": "C04_no_damage and companions proved in Coq by an inductive invariant over every sequence of protocol steps, "
                  "file writes, exceptions / asynchronous interrupts at any step boundary, crashes and rollbacks of any number of "
                  "transactions (so every single AND multiple fault sequence): files referenced by committed versions are never "
                  "deleted, uncommitted files never become reachable, the commit invariant survives; post-flip infallibility "
                  "(C04_post_flip_no_damage, C04_commit_tail_no_damage, C04_unguarded_tail_damages): the tail of every commit path "
                  "after the commit-point write is regenerated from the source (all table configurations at once: both sides of every "
                  "branch) and, with the regenerated handler table, no exception class leaving it at any point can delete a file a "
                  "committed version references -- and any unguarded fallible call in a tail provably yields a damaging run (under tail_safe "
                  "these post-flip theorems reduce to C04_no_damage etc.: C04_post_flip_escape_is_abort; their content is the decidable "
                  "hypothesis on the regenerated tail, in which every statement outside a swallowing try other than trivial assignments, "
                  "returns and logging statements counts as fallible); C04_clean_pre (the deleting arm only ever ran for transactions "
                  "that are not in the history), C04_clean_pre_regenerated, C04_ambiguous (unknowable pointer-write outcome => AMBIGUOUS "
                  "=> files and metadata kept on every attempt) on the regenerated tables; all theorems assume the lock/CAS soundness of "
                  "C01 (`sound c`); C04_outcome is not a single theorem (C01 acknowledged-iff-applied + C04_pre_or_post); real "
                  "commits with a fault injected at every storage call (exception before effect, after effect, persistent, "
                  "KeyboardInterrupt / SystemExit), both call styles, local / CAS-S3 / non-CAS-S3 backends, on default tables and on "
                  "tables with retention / metadata-log-bound properties and pruned, expired, deleted and long histories, under drawn "
                  "process-wide configurations (log levels through every API, logging.disable, environment variables; a configuration "
                  "that changes the calls a commit issues gets the whole fault plan of its own), are "
                  "projected onto the model and must be accepted by its strict run; the calls observed after each flip must be a word "
                  "of the regenerated tail; an implementation-only oracle judges pre/post state, file presence, ambiguity, post-flip "
                  "deletions and liveness",
    "level_note": "trusted: Coq kernel; translator/gen_commit.py (exception-handler tables of Transaction.commit / MetadataManager.commit / _write_hint_at_commit_point, C04_handlers_keep_after_possible_flip); "
                  "translator/gen_tail.py (which calls follow the commit point and whether a try between them and Transaction.commit swallows Exception; outside such a try only names, constants, attribute reads/writes, displays, "
                  "not/and/or/is/==, f-strings and `logger.*(...)` statements are taken to be infallible (logging reports handler errors itself), everything else is a fallible step; "
                  "fail-closed on calls it cannot classify; checked against every observed post-flip call sequence); harness projection (where the exception escaped, which deletions "
                  "are a rollback); the model over-approximates which files a version references (base + everything the transaction wrote) and lets an escaping class leave the tail at any "
                  "point after the flip; in-memory S3 as in C08",
    "technique": "Coq invariant proof over commit machine + file plane + post-commit tail machine with translator-regenerated handler tables and tails; fault-injection trace validation over table configurations",
    "design_ref": "DESIGN.md section 5 C04",
}

FAULT_KINDS = ["exc-before", "exc-after", "kbi", "sysexit", "other-before", "other-after"]

# ---- table configurations / pre-histories (a dimension of every fault-injection case).  The commit path depends on the
# table's properties and on what its history holds: opt-in snapshot retention prunes snapshots inside create_snapshot
# (only when the commit pushes one out of the window), the metadata log is trimmed to write.metadata.previous-versions-max,
# expiry / delete_snapshot leave re-pointed parents and a current snapshot that is not the newest.  Code that runs only
# under such a configuration is reached by no fault plan on a default table.
RET_KEY = "datashard.snapshot.retention-count"
MAX_KEY = "write.metadata.previous-versions-max"
_A = {"do": "append"}


def _prop(k: str, v: str) -> Dict[str, Any]:
    return {"do": "set_property", "key": k, "value": v}


CONFIGS: Dict[str, Optional[List[Dict[str, Any]]]] = {
    "default": None,                                                          # two appends, no properties
    "ret2-full": [_A, _prop(RET_KEY, "2"), _A],                               # window full: the commit pushes a snapshot out
    "ret1-long": [_A, _A, _A, _prop(RET_KEY, "1"), _A],                       # the history itself was pruned (3 at once); every commit prunes
    "ret3-room": [_A, _prop(RET_KEY, "3"), _A],                               # retention on, nothing to prune yet
    "ret-invalid": [_A, _prop(RET_KEY, "many"), _A],                          # ignored value
    "prevmax1": [_A, _prop(MAX_KEY, "1"), _A, _A],                            # metadata log trimmed at every commit
    "long": [_A, _A, _A, _A, _A],
    "ret2-prevmax1-expired": [_A, _A, _prop(RET_KEY, "2"), _prop(MAX_KEY, "1"), _A, {"do": "expire", "keep": 1}, _A],
    "deleted-current": [_A, _A, _A, {"do": "delete_snapshot", "which": "current"}],   # current snapshot is not the newest
    "deleted-oldest-ret2": [_A, _A, _A, {"do": "delete_snapshot", "which": "oldest"}, _prop(RET_KEY, "2")],
}
QUICK_CONFIGS = ["ret2-full", "ret1-long", "prevmax1", "ret2-prevmax1-expired"]


class Injected(OSError):
    pass


def _other_exc(msg: str) -> Exception:
    """A storage failure that is NOT an OSError: what object stores raise (botocore ClientError, e.g. a throttling answer that
    outlasts the retries, AccessDenied on one verb), or any RuntimeError from a storage plug-in."""
    try:
        from botocore.exceptions import ClientError
        return ClientError({"Error": {"Code": "SlowDown", "Message": msg}, "ResponseMetadata": {"HTTPStatusCode": 503}}, "InjectedOp")
    except Exception:       # noqa: BLE001
        return RuntimeError(msg)


def op_for(kind: str, config: str = "default") -> Dict[str, Any]:
    if kind == "append":
        return {"kind": "append", "rows": [{"x": 100}]}
    if kind == "expire":
        # default table: between its two snapshots; configured histories: everything but the current snapshot is old enough
        return {"kind": "expire", "cutoff": 1_700_000_000_000 + (15 if config == "default" else 10_000)}
    if kind == "delete_snapshot":
        return {"kind": "delete_snapshot", "which": "old"}
    if kind == "delete_current":
        return {"kind": "delete_snapshot", "which": "current"}
    if kind == "replace_txn":
        return {"kind": "replace_txn", "rows": [{"x": 100}]}      # ONE transaction deletes a file of the current snapshot and appends
    raise ValueError(kind)


def all_yield(_op: str, _path: str, _phase: tuple) -> bool:
    return True


def make_inject(k: int, fkind: str, k2: Optional[int] = None, sticky: bool = False):
    """Fault at storage call k (and k2).  sticky: from call k on, EVERY call of the same operation on the same class of
    path fails the same way (a verb the credentials do not allow, a prefix that went read-only, a dead lock service):
    a single failing call can be masked by a retry or a fallback, a persistent one cannot."""
    hit: List[Any] = []

    def inject(op: str, path: str, idx: int, phase: tuple):
        if sticky and idx == k:
            hit.append((op, P.path_class(path)))
        if idx == k or (k2 is not None and idx == k2) or (sticky and idx > k and hit and (op, P.path_class(path)) == hit[0]):
            if fkind == "exc-before":
                return ("before", Injected("injected storage failure"))
            if fkind == "exc-after":
                return ("after", Injected("injected storage failure after effect"))
            if fkind == "other-before":
                return ("before", _other_exc("injected storage failure"))
            if fkind == "other-after":
                return ("after", _other_exc("injected storage failure after effect"))
            if fkind == "kbi":
                return ("before", KeyboardInterrupt())
            if fkind == "sysexit":
                return ("before", SystemExit(3))
        return None
    return inject


def sig(state: Dict[str, Any]) -> Tuple[int, Tuple[int, ...]]:
    return (len(state["snapshot_order"]), tuple(sorted(r["x"] for r in state["rows"])))


_LAST: Dict[str, Any] = {"gone": []}


def _exists_at(reader_root: Any, rel: str) -> bool:
    try:
        if callable(reader_root):
            reader_root(rel)
            return True
        return os.path.exists(os.path.join(reader_root, rel))
    except Exception:       # noqa: BLE001
        return False


def follow_up(root: str, reader_root: Any) -> Any:
    """What a NEW process sees: the failed process is gone, so the kernel has dropped any flock it leaked
    (a lock release that raised / was interrupted before its effect leaves the fd open in the old process)."""
    import datashard
    # which of the files the transaction wrote are gone NOW -- judged before the follow-up commit (which may legitimately
    # retire things itself, e.g. push the snapshot out of a retention window)
    sc = P.S_current()
    _LAST["gone"] = [f for f in _written_from_log(sc.log if sc is not None else []) if not _exists_at(reader_root, f)]
    for lk in list(S.CoopLockProvider.instances):
        try:
            lk.real.release()
        except Exception:
            pass
    S.CoopLockProvider.instances.clear()
    t = datashard.load_table(root)
    t.append_records([{"x": 999}])
    return sorted(r["x"] for r in t.scan())


class OsFsyncFault:
    """The n-th os.fsync issued by the committing actor fails with EIO (n = None: only count).  A failed fsync of a FILE
    comes before its rename (a clean failure on the local backend); a failed fsync of the DIRECTORY comes after the rename
    has already happened -- the backend's 'a write that raises did not happen' claim must still hold."""

    def __init__(self, n: Optional[int]):
        self.n, self.seen, self.real = n, 0, os.fsync

    def __enter__(self) -> "OsFsyncFault":
        def fsync(fd: Any) -> None:
            sc = P.S_current()
            if sc is not None and sc.me() is not None:
                self.seen += 1
                if self.n is not None and self.seen == self.n:
                    raise OSError(5, "injected EIO on fsync")
            return self.real(fd)
        os.fsync = fsync
        return self

    def __exit__(self, *a: Any) -> None:
        os.fsync = self.real


def run_one(ctx, backend: str, opkind: str, style: str, inject=None, config: str = "default",
            pconf: Optional[List[List[Any]]] = None) -> P.CaseResult:
    """pconf: the PROCESS-WIDE configuration the whole case runs under (harness/lib/procconf.py events: log levels through every
    API that sets them, logging.disable, the library's environment variables); None / []: the library as imported.  Records are
    formatted as in production and written to a sink -- the harness's own logging.disable (harness/run.py) is lifted for the
    duration of the case, so that code guarded by `logger.isEnabledFor(...)` runs when the configuration enables it."""
    with procconf.applied(pconf or []):
        return _run_one(ctx, backend, opkind, style, inject, config)


def _run_one(ctx, backend: str, opkind: str, style: str, inject=None, config: str = "default") -> P.CaseResult:
    op = op_for(opkind, config)
    op["style"] = style
    case = {"ops": [op], "clock": "tick", "backend": backend, "lock": "grant_all" if backend != "local" else "real",
            "yield_filter": all_yield}
    if CONFIGS[config] is not None:
        case["prehistory"] = CONFIGS[config]
    from harness.props.c01 import _fix_case
    _LAST["gone"] = []
    res = P.run_case(ctx.scratch, _fix_case(case), lambda sc: (lambda en, s: en[0]), tag="c04",
                     inject={"A0": inject} if inject else None, after=follow_up)
    res.gone = list(_LAST["gone"])
    return res


def written_files(res: P.CaseResult) -> List[str]:
    return _written_from_log(res.log)


def _written_from_log(log: List[dict]) -> List[str]:
    out = []
    seen_commit = False
    for e in log:
        if "Transaction.commit" in (e.get("phase") or ()):
            seen_commit = True
        elif seen_commit and "Transaction.append_data" in (e.get("phase") or ()):
            break               # style "reuse": a SECOND transaction on the same object starts here (rolled back by the driver)
        if e.get("performed") is False:
            continue
        pcs = P.path_class(e["path"])
        if e["op"] == "DataW" or (e["op"] == "write_file" and pcs in ("manifest", "mlist")):
            if e["result"] == "ok" or (isinstance(e["result"], tuple) and e["result"][0] == "raised-after-effect"):
                out.append(e["path"].lstrip("/"))
    return out


def exists_in(res: P.CaseResult, root_reader: Any, rel: str) -> bool:
    try:
        root_reader(rel)
        return True
    except Exception:
        return False


def oracle(ctx, backend: str, opkind: str, style: str, k: int, fkind: str, res: P.CaseResult, pre, post) -> Optional[str]:
    st, detail = res.outcomes["A0"]
    # post-flip infallibility: once the pointer write has landed (whatever its caller was told), nothing this transaction wrote
    # may be deleted by the rest of the call, whichever later storage call fails
    flip_at = next((i for i, e in enumerate(res.log) if e["op"] in ("write_file", "write_file_cas") and P.path_class(e["path"]) == "hint"
                    and "MetadataManager.commit" in e["phase"] and e.get("performed") is not False
                    and (e["result"] == "ok" or (isinstance(e["result"], tuple) and e["result"][0] == "raised-after-effect"))), None)
    gone_now = list(getattr(res, "gone", []) or [])
    if flip_at is not None and gone_now:
        by = next((e for e in res.log[flip_at:] if e["op"] == "delete_file" and e["path"].lstrip("/") in gone_now and e.get("performed") is not False), None)
        return (f"the pointer write landed (call {flip_at}) and afterwards files written by the transaction, which the new version references, "
                f"were deleted: {gone_now[:3]}" + (f" (by {by['phase'][-1]}, outcome of the call: {st} {detail})" if by else ""))
    if "error" in res.final:
        return f"table unreadable after the faulty call: {res.final['error']}"
    if res.final["missing"]:
        return f"files referenced by retained snapshots are missing: {res.final['missing'][:3]}"
    s = sig(res.final)
    if st == "ok" and detail != "noop" and s != post:
        return f"call reported success but the table is not in the post-state: {s} vs post {post}"
    if st != "ok" and s not in (pre, post):
        return f"call raised ({detail}) and the table is neither in the pre- nor the post-state: {s} (pre {pre}, post {post})"
    ambiguous = "AmbiguousCommitError" in detail
    interrupt = fkind in ("kbi", "sysexit")
    if st != "ok" and not ambiguous and not interrupt and s != pre:
        return f"storage error raised cleanly ({detail}) but the table is not in the pre-state: {s} vs pre {pre}"
    wf = written_files(res)
    fetch = _fetcher(res)
    if ambiguous:
        gone = list(getattr(res, "gone", None) or []) if hasattr(res, "gone") else [f for f in wf if not exists_in(res, fetch, f)]
        if gone:
            return f"ambiguous commit error but files written by the transaction were deleted: {gone[:3]}"
    if s == pre:
        referenced = {f for sn in res.final["snapshots"].values() for f in sn["files"]}
        leak = [f for f in wf if f in referenced]
        if leak:
            return f"table in pre-state but the transaction's uncommitted files are reachable: {leak[:3]}"
    if isinstance(res.after, tuple) and res.after and res.after[0] == "raised":
        return f"table not writable/readable after the failure: follow-up append raised {res.after[1]}"
    if isinstance(res.after, list) and sorted(res.after) != sorted(list(s[1]) + [999]):
        return f"follow-up append/scan returned {res.after}, expected {sorted(list(s[1]) + [999])}"
    return None


def _fetcher(res: P.CaseResult):
    import os
    if res.store is not None:
        return lambda rel: res.store.objects["tbl/" + rel]["body"]
    root = res.root if hasattr(res, "root") else None
    return lambda rel: open(os.path.join(root, rel), "rb").read()


# ------------------------------------------------------------------------------------------------ projection
def project_fault(res: P.CaseResult, cas: bool) -> Tuple[List[str], List[str]]:
    """Model events for a single-actor faulty run. Raises P.Nonconforming."""
    # protocol events with their log positions: re-use the C01 projection on the performed prefix
    vids: Dict[str, int] = {res.initial["pointer"]: 0}
    evs: List[str] = []
    notes: List[str] = []
    validated = False
    pend_validate: Optional[int] = None
    aborted = False
    rolled = False
    flipped_now = False
    done = False
    escaped_tail = False

    def close_validate(ok: bool) -> None:
        nonlocal pend_validate
        if pend_validate is not None:
            evs[pend_validate] = evs[pend_validate].replace("?", "true" if ok else "false")
            pend_validate = None

    for idx, e in enumerate(res.log):
        op, path, phase, result = e["op"], e["path"], e["phase"], e["result"]
        pcs = P.path_class(path)
        performed = e.get("performed", True)
        fault = e.get("fault")
        in_mm_commit = "MetadataManager.commit" in phase
        in_refresh = "MetadataManager.refresh" in phase
        in_tx = "Transaction.commit" in phase or "SnapshotManager.delete_snapshot" in phase
        swallowed_zone = any(p in phase for p in ("Transaction._finish_committed", "MetadataManager._release_lock_safely",
                                                  "Transaction._rollback"))
        after_effect = isinstance(result, tuple) and result and result[0] == "raised-after-effect"
        if performed:
            if op in ("read_file", "read_file_with_etag") and pcs == "hint" and not aborted and isinstance(result, (bytes, bytearray)):
                name = result.decode("utf-8").strip()
                if name not in vids:
                    raise P.Nonconforming(f"pointer read returned unknown content {result!r}")
                v = vids[name]
                if in_mm_commit and not validated:
                    if cas and op != "read_file_with_etag":
                        raise P.Nonconforming("CAS storage: validation read does not yield the ETag")
                    validated = True
                    pend_validate = len(evs)
                    evs.append(f"FProto (ev 0%nat (EValidate {v}%nat ?))")
                elif in_mm_commit:
                    if cas:
                        raise P.Nonconforming("CAS storage: second pointer read under the lock")
                elif in_tx and in_refresh:
                    evs.append(f"FProto (ev 0%nat (EBegin {v}%nat))")
            elif op == "LockTry" and not aborted:
                validated = False
                evs.append(f"FProto (ev 0%nat (ELockTry {'true' if result == 'ok' else 'false'}))")
            elif op == "write_file" and pcs == "meta" and (result == "ok" or after_effect):
                close_validate(True)
                vids[path.rsplit("/", 1)[-1]] = len(vids)
                evs.append(f"FProto (ev 0%nat (EMetaW ({e['clock']})))")
            elif op == "Fence":
                evs.append(f"FProto (ev 0%nat (EFence {'true' if result else 'false'}))")
            elif op in ("write_file", "write_file_cas") and pcs == "hint" and in_mm_commit:
                landed = result == "ok" or after_effect
                if landed or not isinstance(result, tuple) or result[1] == "CASConflictError":
                    evs.append(f"FProto (ev 0%nat (EFlip {'true' if landed else 'false'}))")
                    flipped_now = landed
            elif op == "LockRel":
                close_validate(False)
                if not aborted:
                    evs.append("FProto (ev 0%nat ERelease)")
                    done = flipped_now
            elif (op == "DataW" or (op == "write_file" and pcs in ("manifest", "mlist"))) and (result == "ok" or after_effect):
                evs.append("FWrite 0%nat")
            elif op == "delete_file" and pcs in ("data", "manifest", "mlist") and "Transaction._rollback" in phase:
                if escaped_tail:
                    # what the handler that caught the escaping exception did: the model's TEscape predicts it (compared below)
                    if "rollback-delete-after-escape" not in notes:
                        notes.append("rollback-delete-after-escape")
                elif not rolled:
                    rolled = True
                    evs.append("FRollback 0%nat")
            elif op == "delete_file" and pcs in ("data", "manifest", "mlist", "meta") and not (
                    pcs == "meta" and "MetadataManager._discard_unpublished_metadata" in phase):
                # the only deletions of table files a commit performs in the model are the rollback of its OWN files and the
                # discarding of the metadata file of a cleanly failed attempt; anything else has no event to be projected on
                raise P.Nonconforming(f"a commit deletes a {pcs} file outside its rollback at log[{idx}]: {path} in {phase[-1] if phase else '?'}")
        # does an exception escape the commit here?
        raised_here = (fault is not None) and (fault == "before" or after_effect)
        if raised_here and not aborted:
            is_flip_call = op in ("write_file", "write_file_cas") and pcs == "hint" and in_mm_commit
            if swallowed_zone and fault_is_exception(e) and not _reached_caller(res, e, idx):
                notes.append(f"swallowed@{idx}")
            elif is_flip_call and isinstance(result, tuple) and result[1] == "CASConflictError":
                pass
            else:
                if pend_validate is not None:
                    # the failure hit between the validation read and its verdict: validation never completed
                    del evs[pend_validate]
                    pend_validate = None
                aborted = True
                if flipped_now and not is_flip_call:
                    # the exception leaves the TAIL of the call (Model/Tail.v): whichever arm of Transaction.commit the handler
                    # table names runs, with no test of the protocol state
                    escaped_tail = True
                    cls = "XOther" if fault_is_exception(e) else "XInterrupt"
                    evs.append(f"TEscape 0%nat {cls} false")
                    notes.append(f"tail-escape@{idx}")
                else:
                    evs.append("FProto (ev 0%nat EAbort)")
    if pend_validate is not None:
        close_validate(False)
    return evs, notes


def _reached_caller(res: P.CaseResult, e: dict, idx: int) -> bool:
    """Did the exception injected at this call come out of the commit call?  (It is the last fault of the run and the call's
    outcome is an exception of the injected type.)  Observed, not assumed from the name of the function it was raised in."""
    st, detail = res.outcomes["A0"]
    if st != "raised" or any(x.get("fault") for x in res.log[idx + 1:]):
        return False
    r = e.get("result")
    return isinstance(r, tuple) and detail.startswith(str(r[1]))


def fault_is_exception(e: dict) -> bool:
    r = e.get("result")
    return isinstance(r, tuple) and r[1] not in ("KeyboardInterrupt", "SystemExit")


TAIL_OF = {"append": "gen_tail_file_ops", "replace_txn": "gen_tail_file_ops", "expire": "gen_tail_meta_only", "delete_snapshot": "gen_tail_delete_snapshot",
           "delete_current": "gen_tail_delete_snapshot"}


def handlers_of(opkind: str) -> str:
    return "no_handlers" if opkind in ("delete_snapshot", "delete_current") else "gen_tx_on"


def model_expr(res: P.CaseResult, opkind: str, backend: str, evs: List[str]) -> str:
    from harness.props.c01 import kind_of
    kind, mr = ("KFresh", 50) if opkind == "replace_txn" else kind_of(op_for(opkind))
    lu0 = res.initial["meta"]["last_updated_ms"]
    cfgs = "{| cas := %s; lockkind := %s |}" % ("true" if backend == "s3cas" else "false", "Excl" if backend == "local" else "GrantAll")
    tevs = [e if e.startswith("TEscape") else f"TF ({e})" for e in evs]
    return (f"let ev := fun a k => {{| e_actor := a; e_kind := k |}} in "
            f"match trun_strict {TAIL_OF[opkind]} {handlers_of(opkind)} {cfgs} (finit {{| m_ops := []; m_cur := 1; m_lu := {lu0} |}} (fun _ => {kind}) (fun _ => {mr}%nat) [0%nat; 1%nat] 2%nat) "
            f"[{'; '.join(tevs)}] 0%nat with "
            f"| inl x => (1, (outcome_code (a_pc (w_actors (fw x) 0%nat)), Z.of_nat (List.length (w_hist (fw x))), all_present x)) "
            f"| inr i => (0, (Z.of_nat i, 0, false)) end")


# ------------------------------------------------------------------------------------------------ the tail as observed
KIND_OF_OP = {"LockRel": "TKRelease", "LockTry": "TKLock", "Fence": "TKLock", "LockFlock": "TKLock", "delete_file": "TKDelete",
              "exists": "TKExists", "read_file": "TKRead", "read_file_with_etag": "TKRead", "open_file": "TKRead",
              "open_seekable": "TKRead", "get_size": "TKRead", "get_modified_time": "TKRead", "DataR": "TKRead",
              "write_file": "TKWrite", "write_file_cas": "TKWrite", "DataW": "TKWrite", "list_files": "TKList"}


def observed_tail(res: P.CaseResult) -> Optional[Tuple[List[str], bool, List[Tuple[str, bool]]]]:
    """The storage / lock calls the commit call issued AFTER its pointer write landed, as tail kinds, up to the point where
    an exception left the call (complete = none did); plus, per Exception injected at one of them, (kind, did it escape).
    None: the pointer write did not land in this run."""
    flip_at = next((i for i, e in enumerate(res.log) if e["op"] in ("write_file", "write_file_cas") and P.path_class(e["path"]) == "hint"
                    and "MetadataManager.commit" in e["phase"] and e.get("performed") is not False
                    and (e["result"] == "ok" or (isinstance(e["result"], tuple) and e["result"][0] == "raised-after-effect"))), None)
    if flip_at is None:
        return None
    fe = res.log[flip_at]
    if isinstance(fe["result"], tuple):
        return None                 # the commit-point write itself raised (ambiguous): the call does not continue into its tail
    kinds: List[str] = []
    faults: List[Tuple[str, bool]] = []
    complete = True
    for idx in range(flip_at + 1, len(res.log)):
        e = res.log[idx]
        if e["op"] == "Sleep":
            continue
        k = KIND_OF_OP.get(e["op"], "TKOther")
        kinds.append(k)
        after_effect = isinstance(e["result"], tuple) and e["result"] and e["result"][0] == "raised-after-effect"
        if e.get("fault") is not None and (e["fault"] == "before" or after_effect):
            if not fault_is_exception(e):
                complete = False        # KeyboardInterrupt / SystemExit: nothing swallows it
                break
            esc = _reached_caller(res, e, idx)
            faults.append((k, esc))
            if esc:
                complete = False
                break
    return kinds, complete, faults


def call_signature(res: P.CaseResult) -> Tuple[Tuple[str, str], ...]:
    """The storage / lock calls of a run, as (operation, class of path)."""
    return tuple((e["op"], P.path_class(e["path"])) for e in res.log if e["op"] != "Sleep")


def draw_pconf(ctx, grp: Dict[str, Any], ring: List[str]) -> Tuple[str, List[List[Any]]]:
    """The process configuration of one faulty run: among the configurations of the group, by weight."""
    members = grp["members"]
    pool = [m for m in members for _ in range(procconf.WEIGHTS.get(m[0], 1))]
    return ctx.rng.choice(pool)


def run_plan(ctx, quick: bool, backend: str, opkind: str, style: str, config: str, grp: Dict[str, Any], keysfx: str,
             pc_ring: List[str], pc_dist: Dict[str, int], tail_obs: list, exprs: list, meta_runs: list, bad: list,
             reuse_runs: List[int], counters: Dict[str, int]) -> None:
    """The whole fault plan of one (backend, operation, style, table history) under one group of process configurations."""
    clean = grp["clean"]
    gname = grp["members"][0][0]
    pre, post = sig(clean.initial), sig(clean.final)
    ncalls = len(clean.log)
    ctx.stats.setdefault("calls_per_commit", {})[f"{backend}/{opkind}/{style}/{config}{keysfx}"] = ncalls
    ot0 = observed_tail(clean)
    if ot0 is not None and style != "reuse":
        tail_obs.append(({"backend": backend, "op": opkind, "style": style, "config": config, "k": -1, "fault": "none", "proc": gname}, opkind, ot0))
    kinds = FAULT_KINDS if backend != "local" else ["exc-before", "kbi", "sysexit", "other-before"]
    if quick:
        kinds = [k for k in kinds if k != "sysexit"]
    if quick and config != "default":
        # one exception type per backend (OSError on the file system, a botocore ClientError on the object stores)
        kinds = ["exc-before", "kbi"] if backend == "local" else ["other-before", "exc-after", "kbi"]
    ks = list(range(ncalls))
    first_commit = next((i for i, e in enumerate(clean.log) if "Transaction.commit" in e["phase"] or "SnapshotManager.delete_snapshot" in e["phase"]), 0)
    if config != "default":
        ks = ks[first_commit:]
    elif quick and len(ks) > 30:
        # keep every call from the start of commit() on, sample the prefix
        ks = sorted(set(ks[first_commit:] + ctx.rng.sample(ks[:first_commit], min(6, first_commit))))
    plans = [(k, None, fk, False) for k in ks for fk in kinds]
    # persistent faults: one plan per distinct (operation, class of path) the commit issues, failing from its first use on
    seen_cls = set()
    for k in range(first_commit, ncalls):
        e = clean.log[k]
        key = (e["op"], P.path_class(e["path"]))
        if key in seen_cls:
            continue
        seen_cls.add(key)
        plans.append((k, None, "exc-before", True))
        if not quick:
            plans.append((k, None, "other-before", True))
    if not quick and opkind == "append" and config == "default":
        pairs = [(k, k2) for k in ks for k2 in ks if k2 > k]
        for k, k2 in ctx.rng.sample(pairs, min(150, len(pairs))):
            plans.append((k, k2, ctx.rng.choice(kinds), False))
    for k, k2, fk, sticky in plans:
        pname, pevents = draw_pconf(ctx, grp, pc_ring)
        pc_dist[pname] = pc_dist.get(pname, 0) + 1
        res = run_one(ctx, backend, opkind, style, make_inject(k, fk, k2, sticky), config=config, pconf=pevents)
        res.root = ctx.scratch + "/c04"
        counters["total"] += 1
        ctx.count(1, (backend, opkind, style, config, k, k2, fk, sticky, gname))
        why = oracle(ctx, backend, opkind, style, k, fk, res, pre, post)
        at = res.log[k] if k < len(res.log) else {}
        where = (at.get("phase") or ("?",))[-1]
        if why:
            ctx.violation(f"commit-fault:{fk}{'-persistent' if sticky else ''}:{backend}:{opkind}:{style}:{config}:{where}{keysfx}",
                          f"{why} [fault {fk}{' (persistent: every later call of the same kind fails too)' if sticky else ''} at call {k} "
                          f"({at.get('op')} {P.path_class(at.get('path', ''))} in {where}); table history: {config}; process configuration: "
                          f"{pname} {pevents}]",
                          {"backend": backend, "op": opkind, "style": style, "config": config, "k": k, "k2": k2, "fault": fk,
                           "sticky": sticky, "outcome": res.outcomes["A0"], "proc": pname, "pconf": pevents})
        if style == "reuse":
            reuse_runs[0] += 1
            continue        # the second transaction on the reused object is outside the one-commit model: oracle only
        ot = observed_tail(res)
        if ot is not None:
            tail_obs.append(({"backend": backend, "op": opkind, "style": style, "config": config, "k": k, "fault": fk, "sticky": sticky, "proc": pname}, opkind, ot))
        try:
            evs, notes = project_fault(res, backend == "s3cas")
        except P.Nonconforming as e:
            bad.append({"backend": backend, "op": opkind, "style": style, "config": config, "k": k, "fault": fk, "sticky": sticky,
                        "proc": pname, "nonconforming": str(e)})
            continue
        exprs.append(model_expr(res, opkind, backend, evs))
        meta_runs.append((backend, opkind, style, k, k2, fk, res, evs, post, config + ("/proc=" + pname if pname != "default" else ""), notes))


# ------------------------------------------------------------------------------------------------ driver
def run(ctx) -> None:
    ctx.rule = ("one real commit per run with a fault at storage call k (every k): OSError / ClientError before effect, after effect "
                "(object storage), persistent from call k on, KeyboardInterrupt / SystemExit at the step boundary; x {append, expire, "
                "delete_snapshot} x {with, explicit, reuse} x {local, s3cas, s3nocas} x table history (default; retention window full / "
                "pruning / with room / invalid; metadata-log bound 1; expired, deleted, long histories -- from the start of commit() on); "
                "thorough adds every history, double faults (k, k2) on the append path and a delete+append transaction; distinct = "
                "(backend, op, style, history, k, k2, kind, persistent)")
    ctx.trusted_base += ["harness/lib/sched.py fault directives, protocol.py, mems3.py; harness/props/c04.py projection"]
    ctx.assumptions += ["storage failures are injected as OSError and as a non-OSError (botocore ClientError); KeyboardInterrupt/SystemExit for every BaseException"]
    ctx.proofs(THEOREMS, gen_files=["GenCommit.v", "GenTail.v"])
    ctx.allow_axioms([])
    quick = ctx.tier == "quick"
    combos = []
    backends = ["local", "s3cas", "s3nocas"]
    for backend in backends:
        for opkind in (["append", "delete_snapshot"] if quick else ["append", "expire", "delete_snapshot", "delete_current"]):
            for style in (["with"] if opkind != "append" else ["with", "explicit", "reuse"]):
                combos.append((backend, opkind, style, "default"))
    # the same fault plans on configured tables / longer histories (from the start of commit() on: the configuration does not
    # change what happens before)
    for ci, config in enumerate(QUICK_CONFIGS if quick else [c for c in CONFIGS if c != "default"]):
        for bi, backend in enumerate(backends):
            if quick:
                combos.append((backend, "append", ["with", "explicit"][(ci + bi) % 2], config))
            else:
                combos += [(backend, "append", "with", config), (backend, "append", "explicit", config)]
                if bi == ci % 3:
                    combos += [(backend, "expire", "with", config), (backend, "delete_snapshot", "with", config)]
                if backend == "local" and config in ("ret2-full", "ret1-long", "long"):
                    combos.append((backend, "replace_txn", "with", config))     # (the actor finds its victim file on the local tree)
    if not quick:
        combos.append(("local", "replace_txn", "with", "default"))
    exprs, meta_runs, bad = [], [], []
    tail_obs: List[Tuple[Dict[str, Any], str, Tuple[List[str], bool, List[Tuple[str, bool]]]]] = []
    counters = {"total": 0}
    reuse_runs = [0]
    pc_ring = [n for n in procconf.NAMED for _ in range(procconf.WEIGHTS.get(n, 1))]
    pc_dist: Dict[str, int] = {}
    pc_split: Dict[str, List[List[str]]] = {}
    for backend, opkind, style, config in combos:
        clean0 = run_one(ctx, backend, opkind, style, config=config)
        clean0.root = ctx.scratch + "/c04"
        if clean0.outcomes["A0"][0] != "ok" or "error" in clean0.final or clean0.final.get("missing"):
            ctx.violation(f"commit-nofault:{backend}:{opkind}:{style}:{config}",
                          f"a commit WITHOUT any fault on a table with history {config} did not leave a sound table: {clean0.outcomes['A0']} "
                          f"{clean0.final.get('error') or clean0.final.get('missing')}",
                          {"backend": backend, "op": opkind, "style": style, "config": config, "k": -1, "k2": None, "fault": "none"})
            continue
        # ---- PROCESS-WIDE CONFIGURATION (harness/lib/procconf.py) as a dimension.  Every named configuration and some arbitrary
        # configuration histories are classified by the storage / lock calls the fault-free commit issues under them: configurations
        # under which the commit issues the same calls share ONE fault plan (each faulty run draws its configuration among them,
        # by weight); a configuration under which the commit issues DIFFERENT calls (code that runs only when a log level is
        # enabled, an environment switch) gets the whole fault plan of its own, over its own call indices.
        groups: List[Dict[str, Any]] = [{"sig": call_signature(clean0), "clean": clean0, "members": [("default", [])]}]
        cands = [(n, [list(e) for e in ev]) for n, ev in procconf.NAMED.items() if n != "default"]
        cands += [("random", procconf.random_events(ctx.rng)) for _ in range(1 if quick else 3)]
        for pname, pevents in cands:
            cl = run_one(ctx, backend, opkind, style, config=config, pconf=pevents)
            cl.root = ctx.scratch + "/c04"
            if cl.outcomes["A0"][0] != "ok" or "error" in cl.final or cl.final.get("missing") or sig(cl.final) != sig(clean0.final):
                ctx.violation(f"commit-nofault:{backend}:{opkind}:{style}:{config}:proc={pname}",
                              f"a commit WITHOUT any fault under the process configuration {pname} {pevents} did not leave the table the same "
                              f"commit leaves under the default configuration: {cl.outcomes['A0']} {cl.final.get('error') or cl.final.get('missing') or sig(cl.final)}",
                              {"backend": backend, "op": opkind, "style": style, "config": config, "k": -1, "k2": None, "fault": "none",
                               "pconf": pevents, "proc": pname})
                continue
            sg = call_signature(cl)
            g = next((g for g in groups if g["sig"] == sg), None)
            if g is None:
                groups.append({"sig": sg, "clean": cl, "members": [(pname, pevents)]})
            else:
                g["members"].append((pname, pevents))
        if len(groups) > 1:
            pc_split[f"{backend}/{opkind}/{style}/{config}"] = [[n for n, _e in g["members"]] for g in groups]
        for gi, grp in enumerate(groups):
            run_plan(ctx, quick, backend, opkind, style, config, grp, "" if gi == 0 else f":proc={grp['members'][0][0]}",
                     pc_ring, pc_dist, tail_obs, exprs, meta_runs, bad, reuse_runs, counters)
    total = counters["total"]
    ctx.stats["process_configurations_that_change_the_calls_of_a_commit"] = pc_split
    ctx.stats["table_histories"] = sorted({c for _b, _o, _s, c in combos})
    # local backend: the n-th fsync of the commit fails (files before their rename, directories after it)
    for opkind, style in ([("append", "with"), ("append", "explicit")] if quick else [("append", "with"), ("append", "explicit"), ("expire", "with"), ("delete_snapshot", "with")]):
        with OsFsyncFault(None) as cnt:
            clean = run_one(ctx, "local", opkind, style)
        clean.root = ctx.scratch + "/c04"
        pre, post = sig(clean.initial), sig(clean.final)
        ctx.stats.setdefault("fsyncs_per_commit", {})[f"{opkind}/{style}"] = cnt.seen
        for n in range(1, cnt.seen + 1):
            pname = ctx.rng.choice(pc_ring)
            pevents = [list(e) for e in procconf.NAMED[pname]]
            pc_dist[pname] = pc_dist.get(pname, 0) + 1
            with OsFsyncFault(n):
                res = run_one(ctx, "local", opkind, style, pconf=pevents)
            res.root = ctx.scratch + "/c04"
            total += 1
            reuse_runs[0] += 1          # (not part of the model comparison: no storage-level event is faulted)
            ctx.count(1, ("local", opkind, style, "fsync", n))
            why = oracle(ctx, "local", opkind, style, -1, "exc-before", res, pre, post)
            if why:
                ctx.violation(f"commit-fault:os-fsync:local:{opkind}:{style}", f"{why} [the {n}-th fsync of the commit failed with EIO; process configuration {pname}]",
                              {"backend": "local", "op": opkind, "style": style, "fsync_n": n, "outcome": res.outcomes["A0"], "proc": pname, "pconf": pevents})
    ctx.stats["faulty_runs"] = total
    ctx.stats["process_configurations_of_faulty_runs"] = dict(sorted(pc_dist.items()))
    ctx.stats["runs_reusing_the_transaction_object_oracle_only"] = reuse_runs[0]
    try:
        vals = coqbuild.coq_eval(REQ, exprs, chunk=80)
    except RuntimeError as e:
        ctx.proof_problems.append("model evaluation failed: " + str(e)[:800])
        vals = []
    for (backend, opkind, style, k, k2, fk, res, evs, post, config, notes), val in zip(meta_runs, vals):
        ok, (code, nflips, present) = val
        st, detail = res.outcomes["A0"]
        where = {"backend": backend, "op": opkind, "style": style, "config": config, "k": k, "k2": k2, "fault": fk, "outcome": [st, detail]}
        if ok != 1:
            bad.append(dict(where, rejected_event_index=code, events=evs[max(0, code - 4):code + 1]))
            continue
        # post-state for the MODEL comparison = the pointer moved (on a history where the operation changes nothing a reader sees --
        # an expiry with nothing to expire -- the signatures of pre- and post-state coincide)
        impl_post = "error" not in res.final and detail != "noop" and (
            res.final.get("pointer") != res.initial.get("pointer") if sig(res.initial) == post else sig(res.final) == post)
        impl_code = 1 if st == "ok" else (5 if impl_post else (2 if "ConcurrentModification" in detail else 4))
        if code == 1 and impl_code == 5:
            impl_code = 1        # the call raised in post-commit bookkeeping: the protocol itself had completed successfully
        if (nflips == 1) != impl_post or not present or (code in (1, 4, 5) and code != impl_code):
            bad.append(dict(where, model={"code": code, "flips": nflips, "all_present": present}, impl={"post": impl_post, "code": impl_code}))
        elif "rollback-delete-after-escape" in notes:
            # the model (regenerated tail + handler table) says the arm that handled the escaping exception keeps the files
            bad.append(dict(where, model="the handler of the exception that left the tail keeps the transaction's files",
                            impl="files were deleted by Transaction._rollback after the exception left the tail"))
    ctx.correspondence("fault-trace", total - reuse_runs[0], bad)
    if os.environ.get("C04_DUMP_DISAGREEMENTS"):
        import json
        with open(os.environ["C04_DUMP_DISAGREEMENTS"], "w") as fh:
            json.dump(bad, fh, default=str, indent=1)
    # ---- the calls a real commit issues after its flip are a word of the regenerated tail; an Exception injected at one of
    # them reaches the caller only if the tail has an unguarded call of that kind
    tkeys: Dict[Tuple[Any, ...], str] = {}
    for _w, opkind, (kinds_, complete, faults) in tail_obs:
        tl = TAIL_OF[opkind]
        tkeys.setdefault(("word", tl, tuple(kinds_), complete),
                         f"{'tail_accepts' if complete else 'tail_accepts_prefix'} (observable {tl}) [{'; '.join(kinds_)}]")
        for k_, esc in faults:
            tkeys.setdefault(("call", tl, k_, esc), f"has_call {k_} {'false' if esc else 'true'} {tl}")
    tkl = list(tkeys)
    try:
        tvals = coqbuild.coq_eval(REQ, [tkeys[k_] for k_ in tkl], chunk=80) if tkl else []
    except RuntimeError as e:
        ctx.proof_problems.append("model evaluation (tail) failed: " + str(e)[:800])
        tvals = []
    verdict = dict(zip(tkl, tvals))
    tbad = []
    for w, opkind, (kinds_, complete, faults) in tail_obs:
        tl = TAIL_OF[opkind]
        if verdict and verdict.get(("word", tl, tuple(kinds_), complete)) is not True:
            tbad.append(dict(w, tail=tl, observed_after_flip=kinds_, complete=complete,
                             why="the calls issued after the pointer write are not a word of the regenerated tail"))
            continue
        for k_, esc in faults:
            if verdict and verdict.get(("call", tl, k_, esc)) is not True:
                tbad.append(dict(w, tail=tl, call=k_, escaped=esc,
                                 why=("an Exception injected at this call reached the caller, but the regenerated tail has no unguarded call of this kind"
                                      if esc else "an Exception injected at this call was swallowed, but the regenerated tail has no guarded call of this kind")))
    ctx.correspondence("post-flip-tail", len(tail_obs), tbad if verdict or not tail_obs else [{"why": "no verdicts"}])
    ctx.stats["post_flip_tail_words"] = len([k_ for k_ in tkl if k_[0] == "word"])
    if meta_runs:
        b, o, s_, k, k2, fk, res, evs, _p, _c, _n = meta_runs[len(meta_runs) // 2]
        ctx.sample({"backend": b, "op": o, "style": s_, "k": k, "fault": fk, "outcome": res.outcomes["A0"], "model_events": evs})


def replay(ctx, payload) -> int:
    c = payload.get("case", {})
    pconf = c.get("pconf") or []
    if "fsync_n" in c:
        clean = run_one(ctx, c["backend"], c["op"], c["style"])
        clean.root = ctx.scratch + "/c04"
        with OsFsyncFault(c["fsync_n"]):
            res = run_one(ctx, c["backend"], c["op"], c["style"], pconf=pconf)
        res.root = ctx.scratch + "/c04"
        why = oracle(ctx, c["backend"], c["op"], c["style"], -1, "exc-before", res, sig(clean.initial), sig(clean.final))
        print("replay:", "STILL FAILS: " + why if why else "passes now")
        return 1 if why else 0
    if "k" not in c:
        print("replay: no concrete case")
        return 2
    config = c.get("config", "default")
    clean = run_one(ctx, c["backend"], c["op"], c["style"], config=config)
    clean.root = ctx.scratch + "/c04"
    if c.get("fault") == "none":
        if pconf:
            ref = clean
            clean = run_one(ctx, c["backend"], c["op"], c["style"], config=config, pconf=pconf)
            clean.root = ctx.scratch + "/c04"
            if "error" not in clean.final and sig(clean.final) != sig(ref.final):
                print("replay:", f"STILL FAILS: fault-free commit under process configuration {pconf}: {sig(clean.final)} vs {sig(ref.final)} under the default")
                return 1
        bad_clean = clean.outcomes["A0"][0] != "ok" or "error" in clean.final or clean.final.get("missing")
        print("replay:", f"STILL FAILS: fault-free commit on history {config}: {clean.outcomes['A0']}" if bad_clean else "passes now")
        return 1 if bad_clean else 0
    res = run_one(ctx, c["backend"], c["op"], c["style"], make_inject(c["k"], c["fault"], c.get("k2"), bool(c.get("sticky"))), config=config, pconf=pconf)
    res.root = ctx.scratch + "/c04"
    why = oracle(ctx, c["backend"], c["op"], c["style"], c["k"], c["fault"], res, sig(clean.initial), sig(clean.final))
    print("replay:", "STILL FAILS: " + why if why else "passes now")
    return 1 if why else 0
